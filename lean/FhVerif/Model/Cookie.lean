/-
Model of cookie.go (response cookies: setters, AppendBytes, ParseBytes, cookieScanner.nextRaw/next,
trimCookieArgNoCopy/decodeCookieArg, validCookieValue, validCookiePathValue, removeSemicolons, caseInsensitiveCompare)
and of the request-cookie path of header.go (RequestHeader.SetCookie, appendRequestCookieBytes, parseRequestCookies).

The date codec (AppendHTTPDate / parseCookieExpires) is a parameter (`DateCodec`): theorems take its round trip as a
hypothesis (it is C31's subject); the driver instantiates it with the executable `ckDate` below, which is tied to the
Go functions by the C06 harness.  Times are seconds since 0001-01-01T00:00:00Z (Go's zero time = 0).
-/
import FhVerif.Model.ByteClass
import FhVerif.Model.NormPath
import FhVerif.Model.IntCodec
import FhVerif.Model.Args
import FhVerif.Gen.Consts

namespace Fh.Model

/-- cookie.go removeSemicolons: every ';' becomes a space -/
def removeSemicolons (b : Bytes) : Bytes := b.map fun c => if c == 59 then 32 else c

/-- header.go initHeaderValueBytes followed by removeSemicolons (Cookie.SetKey/SetValue/SetDomain, after the fix
    also RequestHeader.SetCookie) -/
def ckSanitize (b : Bytes) : Bytes := removeSemicolons (removeNewLines b)

def ckTrimLeft (b : Bytes) : Bytes := b.dropWhile (· == 32)
def ckTrimRight (b : Bytes) : Bytes := (b.reverse.dropWhile (· == 32)).reverse

/-- `len(src) > 1 && src[0] == '"' && src[len(src)-1] == '"'` ⇒ strip one pair of quotes -/
def ckUnquote (b : Bytes) : Bytes :=
  if b.length > 1 && b.head? == some 34 && b.getLast? == some 34 then (b.drop 1).dropLast else b

/-- cookie.go trimCookieArgNoCopy = decodeCookieArg (the latter's fast path returns the same bytes) -/
def ckTrim (b : Bytes) (skipQuotes : Bool) : Bytes :=
  let t := ckTrimRight (ckTrimLeft b)
  if skipQuotes then ckUnquote t else t

/-- cookie.go validCookieValue -/
def validCookieValue (b : Bytes) : Bool := b.all fun c => c != 34 && c != 59 && c != 92

/-- cookie.go validCookiePathValue -/
def validCookiePathValue (b : Bytes) : Bool :=
  b.all fun c => c == 13 || c == 10 || !(c < 32 || c ≥ 127 || c == 59)

/-- cookie.go caseInsensitiveCompare: equal lengths and `a[i]|0x20 == b[i]|0x20` -/
def ckCiEq : Bytes → Bytes → Bool
  | [], [] => true
  | a :: as, b :: bs => (a ||| 32) == (b ||| 32) && ckCiEq as bs
  | _, _ => false

/-- split at every ';' (always at least one piece) -/
def ckSplit : Bytes → List Bytes
  | [] => [[]]
  | c :: t =>
    if c == 59 then [] :: ckSplit t
    else match ckSplit t with
      | s :: r => (c :: s) :: r
      | [] => [[c]]

/-- `if j < len(b) && b[j] == ' ' { j++ }` after a ';' -/
def ckDropSp : Bytes → Bytes
  | 32 :: r => r
  | b => b

/-- the items cookieScanner.next/nextRaw yield: text between ';' separators, one space skipped after each ';'.
    (Go stops when the remainder is empty, so it does not yield a final empty item; both parsers ignore an item with
    empty key and value, hence the extra final "" here is unobservable.) -/
def ckPieces (b : Bytes) : List Bytes :=
  if b.isEmpty then []
  else match ckSplit b with
    | [] => []
    | p :: ps => p :: ps.map ckDropSp

/-- key/value of one item: the first '=' splits; without '=' the key is empty and the whole item is the value -/
def ckSplitKV (p : Bytes) : Bytes × Bytes :=
  match p.dropWhile (· != 61) with
  | [] => ([], ckTrim p true)
  | _ :: v => (ckTrim (p.takeWhile (· != 61)) false, ckTrim v true)

/-! ### Cookie -/

inductive SameSite | disabled | default | lax | strict | none
  deriving DecidableEq, Repr

structure Cookie where
  key : Bytes := []
  value : Bytes := []
  domain : Bytes := []
  path : Bytes := []
  maxAge : Int := 0
  /-- seconds since 0001-01-01T00:00:00Z; `none` = Go's zero time (no expiry) -/
  expire : Option Nat := none
  sameSite : SameSite := .disabled
  httpOnly : Bool := false
  secure : Bool := false
  partitioned : Bool := false
  deriving DecidableEq, Repr

def Cookie.setKey (c : Cookie) (k : Bytes) : Cookie := { c with key := ckSanitize k }
def Cookie.setValue (c : Cookie) (v : Bytes) : Cookie := { c with value := ckSanitize v }
def Cookie.setDomain (c : Cookie) (d : Bytes) : Cookie := { c with domain := ckSanitize d }
/-- SetPath: normalizePath, removeNewLines, removeSemicolons -/
def Cookie.setPath (c : Cookie) (p : Bytes) : Cookie := { c with path := ckSanitize (normalizePath p) }
def Cookie.setMaxAge (c : Cookie) (n : Int) : Cookie := { c with maxAge := n }
def Cookie.setExpire (c : Cookie) (t : Option Nat) : Cookie := { c with expire := t }
def Cookie.setHTTPOnly (c : Cookie) (b : Bool) : Cookie := { c with httpOnly := b }
def Cookie.setSecure (c : Cookie) (b : Bool) : Cookie := { c with secure := b }
/-- SetSameSite: None forces Secure -/
def Cookie.setSameSite (c : Cookie) (m : SameSite) : Cookie :=
  if m = .none then { c with sameSite := m, secure := true } else { c with sameSite := m }
/-- SetPartitioned(true) forces Secure and Path=/ -/
def Cookie.setPartitioned (c : Cookie) (b : Bool) : Cookie :=
  if b then ({ c with partitioned := true, secure := true }).setPath [47] else { c with partitioned := false }

/-- external date codec: AppendHTTPDate and parseCookieExpires -/
structure DateCodec where
  fmt : Nat → Bytes
  parse : Bytes → Option Nat

def sameSitePiece : SameSite → List Bytes
  | .disabled => []
  | .default => [Gen.strCookieSameSite]
  | .lax => [Gen.strCookieSameSite ++ 61 :: Gen.strCookieSameSiteLax]
  | .strict => [Gen.strCookieSameSite ++ 61 :: Gen.strCookieSameSiteStrict]
  | .none => [Gen.strCookieSameSite ++ 61 :: Gen.strCookieSameSiteNone]

/-- the first item: `key=value`, or just the value when the key is empty -/
def Cookie.kvPiece (c : Cookie) : Bytes := (if c.key.isEmpty then [] else c.key ++ [61]) ++ c.value

/-- the attribute items AppendBytes writes, in order, each after "; " -/
def Cookie.attrPieces (D : DateCodec) (c : Cookie) : List Bytes :=
  (if c.maxAge ≠ 0 then [Gen.strCookieMaxAge ++ 61 :: appendUint (if c.maxAge < 0 then 0 else c.maxAge.toNat)]
   else match c.expire with
     | some t => [Gen.strCookieExpires ++ 61 :: D.fmt t]
     | none => []) ++
  (if c.domain.isEmpty then [] else [Gen.strCookieDomain ++ 61 :: c.domain]) ++
  (if c.path.isEmpty then [] else [Gen.strCookiePath ++ 61 :: c.path]) ++
  (if c.httpOnly then [Gen.strCookieHTTPOnly] else []) ++
  (if c.secure then [Gen.strCookieSecure] else []) ++
  sameSitePiece c.sameSite ++
  (if c.partitioned then [Gen.strCookiePartitioned] else [])

/-- Cookie.AppendBytes (dst empty) -/
def Cookie.appendBytes (D : DateCodec) (c : Cookie) : Bytes :=
  c.kvPiece ++ (c.attrPieces D).flatMap (fun p => 59 :: 32 :: p)

inductive CkErr | noCookies | invalidValue | maxAge | expires
  deriving DecidableEq, Repr

/-- one iteration of the attribute loop of ParseBytes (the first-character switches only pre-select which
    caseInsensitiveCompare runs; a successful compare implies the switch case) -/
def ckApplyAttr (D : DateCodec) (c : Cookie) (kv : Bytes × Bytes) : Except CkErr Cookie :=
  let k := kv.1
  let v := kv.2
  if !k.isEmpty then
    if ckCiEq Gen.strCookieMaxAge k then
      match parseUint 64 v with
      | .ok n => .ok { c with maxAge := n }
      | .error _ => .error .maxAge
    else if ckCiEq Gen.strCookieExpires k then
      match D.parse v with
      | some t => .ok { c with expire := if t = 0 then none else some t }
      | none => .error .expires
    else if ckCiEq Gen.strCookieDomain k then
      if validCookieValue v then .ok { c with domain := removeNewLines v } else .error .invalidValue
    else if ckCiEq Gen.strCookiePath k then
      if validCookiePathValue v then .ok { c with path := removeNewLines v } else .error .invalidValue
    else if ckCiEq Gen.strCookieSameSite k then
      if ckCiEq Gen.strCookieSameSiteLax v then .ok { c with sameSite := .lax }
      else if ckCiEq Gen.strCookieSameSiteStrict v then .ok { c with sameSite := .strict }
      else if ckCiEq Gen.strCookieSameSiteNone v then .ok { c with sameSite := .none }
      else .ok c
    else .ok c
  else if !v.isEmpty then
    if ckCiEq Gen.strCookieHTTPOnly v then .ok { c with httpOnly := true }
    else if ckCiEq Gen.strCookieSecure v then .ok { c with secure := true }
    else if ckCiEq Gen.strCookieSameSite v then .ok { c with sameSite := .default }
    else if ckCiEq Gen.strCookiePartitioned v then .ok { c with partitioned := true }
    else .ok c
  else .ok c

def ckApplyAttrs (D : DateCodec) : Cookie → List (Bytes × Bytes) → Except CkErr Cookie
  | c, [] => .ok c
  | c, kv :: rest =>
    match ckApplyAttr D c kv with
    | .ok c' => ckApplyAttrs D c' rest
    | .error e => .error e

/-- Cookie.ParseBytes -/
def Cookie.parseBytes (D : DateCodec) (src : Bytes) : Except CkErr Cookie :=
  match ckPieces src with
  | [] => .error .noCookies
  | p :: ps =>
    let kv := ckSplitKV p
    if !validCookieValue kv.2 then .error .invalidValue
    else ckApplyAttrs D { key := removeNewLines kv.1, value := removeNewLines kv.2 } (ps.map ckSplitKV)

/-! ### a Cookie OBJECT over its life time (reuse, pooling): what every mutator leaves behind

The Go struct also has scratch buffers (bufK, bufV); the model has none: every observable result is a function of the
ten value fields above.  `parseInto` is ParseBytes as a state transformer — the object is Reset first, and on an error
the fields assigned so far stay. -/

def ckApplyAttrsSt (D : DateCodec) : Cookie → List (Bytes × Bytes) → Cookie × Option CkErr
  | c, [] => (c, none)
  | c, kv :: rest =>
    match ckApplyAttr D c kv with
    | .ok c' => ckApplyAttrsSt D c' rest
    | .error e => (c, some e)

/-- Cookie.ParseBytes on an existing object: resulting fields and the error, if any -/
def Cookie.parseInto (D : DateCodec) (src : Bytes) : Cookie × Option CkErr :=
  match ckPieces src with
  | [] => ({}, some .noCookies)
  | p :: ps =>
    let kv := ckSplitKV p
    if !validCookieValue kv.2 then ({}, some .invalidValue)
    else ckApplyAttrsSt D { key := removeNewLines kv.1, value := removeNewLines kv.2 } (ps.map ckSplitKV)

/-- operations on one Cookie object -/
inductive CkObjOp
  | setKey (b : Bytes) | setValue (b : Bytes) | setDomain (b : Bytes) | setPath (b : Bytes)
  | setMaxAge (n : Int) | setExpire (t : Option Nat) | setHTTPOnly (b : Bool) | setSecure (b : Bool)
  | setSameSite (m : SameSite) | setPartitioned (b : Bool)
  | reset                       -- Reset, ReleaseCookie + AcquireCookie
  | parse (src : Bytes)         -- Parse / ParseBytes / ResponseHeader.Cookie
  | copyFrom (src : Cookie)     -- CopyTo(src)
  | serialise                   -- Cookie / String / AppendBytes / WriteTo: no effect on the fields

def Cookie.applyObj (D : DateCodec) (c : Cookie) : CkObjOp → Cookie
  | .setKey b => c.setKey b
  | .setValue b => c.setValue b
  | .setDomain b => c.setDomain b
  | .setPath b => c.setPath b
  | .setMaxAge n => c.setMaxAge n
  | .setExpire t => c.setExpire t
  | .setHTTPOnly b => c.setHTTPOnly b
  | .setSecure b => c.setSecure b
  | .setSameSite m => c.setSameSite m
  | .setPartitioned b => c.setPartitioned b
  | .reset => {}
  | .parse src => (Cookie.parseInto D src).1
  | .copyFrom src => src
  | .serialise => c

def Cookie.runObj (D : DateCodec) (c : Cookie) (ops : List CkObjOp) : Cookie := ops.foldl (Cookie.applyObj D) c

/-! ### request cookies -/

/-- RequestHeader.SetCookie: key and value go through initHeaderValueString and (since the fix) removeSemicolons,
    then setArgBytes on h.cookies -/
def reqSetCookie (cs : ArgList) (k v : Bytes) : ArgList := setArg cs (ckSanitize k) (some (ckSanitize v))

/-- RequestHeader.SetCookie before the fix (no removeSemicolons): kept for the counterexample theorem -/
def reqSetCookieUnfixed (cs : ArgList) (k v : Bytes) : ArgList := setArg cs (removeNewLines k) (some (removeNewLines v))

def ckItem (e : KV) : Bytes := (if e.key.isEmpty then [] else e.key ++ [61]) ++ e.val

def ckJoin : List Bytes → Bytes
  | [] => []
  | [x] => x
  | x :: rest => x ++ 59 :: 32 :: ckJoin rest

/-- cookie.go appendRequestCookieBytes -/
def appendRequestCookieBytes (cs : ArgList) : Bytes := ckJoin (cs.map ckItem)

def ckKeep (kv : Bytes × Bytes) : Bool := (!kv.1.isEmpty || !kv.2.isEmpty) && validCookieValue kv.2

/-- cookie.go parseRequestCookies (appending to an empty slice) -/
def parseRequestCookies (src : Bytes) : List (Bytes × Bytes) := ((ckPieces src).map ckSplitKV).filter ckKeep

/-! ### executable date codec for the driver (proleptic Gregorian, years 1..9999) -/

def ckIsLeap (y : Nat) : Bool := (y % 4 == 0 && y % 100 != 0) || y % 400 == 0

def ckDaysInMonth (y m : Nat) : Nat :=
  if m == 2 then (if ckIsLeap y then 29 else 28)
  else if m == 4 || m == 6 || m == 9 || m == 11 then 30 else 31

/-- days since 0001-01-01 of a civil date -/
def ckDaysFromCivil (y m d : Nat) : Nat :=
  let y' := if m ≤ 2 then y - 1 else y
  let era := y' / 400
  let yoe := y' % 400
  let mp := (m + 9) % 12
  let doy := (153 * mp + 2) / 5 + d - 1
  let doe := yoe * 365 + yoe / 4 - yoe / 100 + doy
  era * 146097 + doe - 306

/-- civil date (y, m, d) of a day count since 0001-01-01 -/
def ckCivilFromDays (days : Nat) : Nat × Nat × Nat :=
  let z := days + 306
  let era := z / 146097
  let doe := z % 146097
  let yoe := (doe - doe / 1460 + doe / 36524 - doe / 146096) / 365
  let y := yoe + era * 400
  let doy := doe - (365 * yoe + yoe / 4 - yoe / 100)
  let mp := (5 * doy + 2) / 153
  let d := doy - (153 * mp + 2) / 5 + 1
  let m := if mp < 10 then mp + 3 else mp - 9
  (if m ≤ 2 then y + 1 else y, m, d)

def ckWeekdays : List Bytes := ["Mon", "Tue", "Wed", "Thu", "Fri", "Sat", "Sun"].map ofString
def ckMonths : List Bytes :=
  ["Jan", "Feb", "Mar", "Apr", "May", "Jun", "Jul", "Aug", "Sep", "Oct", "Nov", "Dec"].map ofString

def ckDigit (n : Nat) : UInt8 := UInt8.ofNat (48 + n % 10)
def ck2 (n : Nat) : Bytes := [ckDigit (n / 10), ckDigit n]
def ck4 (n : Nat) : Bytes := [ckDigit (n / 1000), ckDigit (n / 100), ckDigit (n / 10), ckDigit n]

/-- AppendHTTPDate: "Mon, 02 Jan 2006 15:04:05 GMT" -/
def ckFmtDate (t : Nat) : Bytes :=
  let days := t / 86400
  let s := t % 86400
  let (y, m, d) := ckCivilFromDays days
  ckWeekdays.getD (days % 7) [] ++ [44, 32] ++ ck2 d ++ [32] ++ ckMonths.getD (m - 1) [] ++ [32] ++ ck4 y ++ [32] ++
    ck2 (s / 3600) ++ [58] ++ ck2 (s / 60 % 60) ++ [58] ++ ck2 (s % 60) ++ [32, 71, 77, 84]

def ckDigVal (c : UInt8) : Option Nat := if 48 ≤ c && c ≤ 57 then some (c.toNat - 48) else none
def ckNum : Bytes → Option Nat
  | [] => some 0
  | cs => cs.foldlM (fun a c => (ckDigVal c).map (a * 10 + ·)) 0

def ckIdx (tbl : List Bytes) (x : Bytes) : Option Nat :=
  let i := tbl.findIdx (fun w => ckCiEq w x)
  if i < tbl.length then some i else none

/-- bytesconv.go parseRFC1123DateGMT (the fast path of parseCookieExpires): exact layout, weekday name only checked to be
    a weekday, calendar-valid date.  The two time.Parse fall-backs of parseCookieExpires are not modelled. -/
def ckParseDate (b : Bytes) : Option Nat :=
  match b with
  | [w1, w2, w3, 44, 32, d1, d2, 32, m1, m2, m3, 32, y1, y2, y3, y4, 32, h1, h2, 58, i1, i2, 58, s1, s2, 32, 71, 77, 84] => do
    let _ ← ckIdx ckWeekdays [w1, w2, w3]
    let d ← ckNum [d1, d2]
    let m ← ckIdx ckMonths [m1, m2, m3]
    let y ← ckNum [y1, y2, y3, y4]
    let h ← ckNum [h1, h2]
    let mi ← ckNum [i1, i2]
    let s ← ckNum [s1, s2]
    if d < 1 || d > 31 || h > 23 || mi > 59 || s > 59 then none
    else if y < 1 || d > ckDaysInMonth y (m + 1) then none
    else some (ckDaysFromCivil y (m + 1) d * 86400 + h * 3600 + mi * 60 + s)
  | _ => none

def ckDate : DateCodec := ⟨ckFmtDate, ckParseDate⟩

end Fh.Model
