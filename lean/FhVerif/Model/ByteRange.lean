/-
Model of fs.go ParseByteRange (with the zero-length-suffix rejection of commit
"fix: ParseByteRange rejects a zero-length suffix range").
-/
import FhVerif.Model.IntCodec

namespace Fh.Model

inductive BRErr | units | missingEq | missingDash | badInt | emptyContent | zeroSuffix | startTooLarge | startAfterEnd
  deriving DecidableEq, Repr

def strBytes : Bytes := [98, 121, 116, 101, 115]  -- "bytes"

def hasPrefix : Bytes → Bytes → Bool
  | _, [] => true
  | [], _ :: _ => false
  | a :: as, p :: ps => a == p && hasPrefix as ps

/-- ParseByteRange(byteRange, contentLength) for an int of width w -/
def parseByteRange (w : Nat) (br : Bytes) (cl : Int) : Except BRErr (Int × Int) :=
  if !hasPrefix br strBytes then .error .units else
  match br.drop strBytes.length with
  | [] => .error .missingEq
  | c :: b =>
    if c != 61 then .error .missingEq else
    let before := b.takeWhile (· != 45)
    let rest := b.dropWhile (· != 45)
    match rest with
    | [] => .error .missingDash
    | _ :: after =>
      if before.isEmpty then
        match parseUint w after with
        | .error _ => .error .badInt
        | .ok v =>
          if cl ≤ 0 then .error .emptyContent
          else if v = 0 then .error .zeroSuffix
          else .ok (max (cl - v) 0, cl - 1)
      else
        match parseUint w before with
        | .error _ => .error .badInt
        | .ok s =>
          if s ≥ cl then .error .startTooLarge
          else if after.isEmpty then .ok (s, cl - 1)
          else match parseUint w after with
            | .error _ => .error .badInt
            | .ok e =>
              let e := if e ≥ cl then cl - 1 else e
              if e < s then .error .startAfterEnd else .ok (s, e)

end Fh.Model

namespace Fh.Model

/-- fs.go handleRequest after the file is open (AcceptByteRange on): which response is produced.
    `imsNotNewer` = If-Modified-Since present, parsed, and not before the file's mtime truncated to the second. -/
structure FsResp where
  status : Nat
  slice : Option (Int × Int)   -- body = file[s..e]; none = no body (304/416 have their own)
  full : Bool                  -- body is the full content
  deriving DecidableEq, Repr

def fsDecision (w : Nat) (cl : Int) (imsNotNewer : Bool) (range : Bytes) : FsResp :=
  if imsNotNewer then ⟨304, none, false⟩
  else if range.isEmpty then ⟨200, none, true⟩
  else match parseByteRange w range cl with
    | .error _ => ⟨416, none, false⟩
    | .ok (s, e) => ⟨206, some (s, e), false⟩

end Fh.Model
