/-
Model of fasthttputil/pipeconns.go (PipeConns, pipeConn.Write/Read/readNextByteBuffer/Close) and of
fasthttputil/inmemory_listener.go (InmemoryListener.Accept/DialWithLocalAddr/Close).

## Pipe

A `PipeConns` is two directions that share one `stopCh`.  One direction (writer end -> reader end):

  chan      content of the Go channel (`wCh` of the writer = `rCh` of the reader), oldest buffer first,
            capacity `cap` (4 in NewPipeConns; the theorems hold for every capacity)
  bb        the reader's `c.bb`: the unread rest of the buffer it took last
  written   GHOST: concatenation of the payloads of all successful Write calls
  readAcc   GHOST: concatenation of the bytes returned by all Read calls
Ghost fields are written, never read by an enabling condition or a result.

Events are whole calls (PipeConns is documented as not safe for concurrent use of ONE end; the two ends and
Close are the actors):  `write e p`, `read e n`, `close`.  A call that would wait (Write on a full channel,
Read on an empty one, both while not stopped) is the outcome `block` with the state unchanged: in the Go code the
call then waits for another actor or returns ErrTimeout under an expired deadline, in both cases without effect.

## Listener

Events are the individual channel operations / lock sections of Dial, Accept and Close, so that the
theorems cover the real races between them (see the event list at `Lsn.Event`).
-/
import FhVerif.Base.Bytes

namespace Fh.Model.Pipe
open Fh

/-- one direction of the pipe -/
structure Dir where
  chan : List Bytes
  bb : Bytes
  written : Bytes
  readAcc : Bytes
  deriving DecidableEq, Repr

def Dir.init : Dir := ⟨[], [], [], []⟩

/-- result of Write: `ok n` = (n, nil); `closed` = (0, ErrConnectionClosed); `block` = would wait / (0, ErrTimeout) -/
inductive WRes
  | ok (n : Nat)
  | closed
  | block
  deriving DecidableEq, Repr

/-- error of Read: nil, io.EOF, `block` = would wait / ErrTimeout -/
inductive RErr
  | nil
  | eof
  | block
  deriving DecidableEq, Repr

structure RRes where
  data : Bytes
  err : RErr
  deriving DecidableEq, Repr

/-- pipeConn.Write.  First the `stopCh` check, then the send.  A zero-length write still enqueues a buffer. -/
def Dir.write (cap : Nat) (stopped : Bool) (s : Dir) (p : Bytes) : WRes × Dir :=
  if stopped then (.closed, s)
  else if cap ≤ s.chan.length then (.block, s)
  else (.ok p.length, { s with chan := s.chan ++ [p], written := s.written ++ p })

/-- NOT an event of `step` (documentation of the residue, used by one `example` in Props/C33.lean): the second half
    of a Write that overlaps Close in real time — the `stopCh` check was passed before Close, the send
    `c.wCh <- b` happens after it (Go: the first `select` of Write saw stopCh open, the second one sends). -/
def Dir.sendLate (cap : Nat) (s : Dir) (p : Bytes) : WRes × Dir :=
  if cap ≤ s.chan.length then (.block, s)
  else (.ok p.length, { s with chan := s.chan ++ [p], written := s.written ++ p })

/-- The iterations of Read's loop from the point where a buffer has to be delivered: `l` is the list of
    buffers still to come (current one first), `n = len(p)` bytes are still wanted.
    Returns (bytes copied, channel afterwards, c.bb afterwards).
      `[]`              readNextByteBuffer(false) finds the channel empty: errWouldBlock, swallowed, loop ends
      `n = 0`           loop condition `len(p) > 0` fails
      `n ≤ len(b)`      `copy` fills p: c.bb = b[n:], loop ends
      otherwise         `copy` takes all of b (c.bb = empty), p = p[len(b):], mayBlock = false, next iteration
                        takes the next buffer without blocking -/
def readMore : Nat → List Bytes → Bytes × List Bytes × Bytes
  | _, [] => ([], [], [])
  | n, b :: rest =>
    if n = 0 then ([], b :: rest, [])
    else if n ≤ b.length then (b.take n, rest, b.drop n)
    else
      let r := readMore (n - b.length) rest
      (b ++ r.1, r.2.1, r.2.2)

/-- pipeConn.Read(p) with len(p) = n.
    n = 0: the loop body never runs, (0, nil).
    First iteration (mayBlock = true): if c.bb is empty and the channel is empty the call waits, unless
    stopCh is closed, then io.EOF (the Go code re-checks the channel after seeing stopCh: still empty here).
    Otherwise the current buffer (c.bb, or the head of the channel) is delivered and the loop continues
    without blocking (`readMore`). -/
def Dir.read (stopped : Bool) (s : Dir) (n : Nat) : RRes × Dir :=
  if n = 0 then (⟨[], .nil⟩, s)
  else if s.bb = [] ∧ s.chan = [] then (⟨[], if stopped then .eof else .block⟩, s)
  else
    let r := readMore n (if s.bb = [] then s.chan else s.bb :: s.chan)
    (⟨r.1, .nil⟩, { s with chan := r.2.1, bb := r.2.2, readAcc := s.readAcc ++ r.1 })

/-! ### the literal loop (fuel version), proved equal to `Dir.read` in `Proofs/Pipe.lean` -/

/-- pipeConn.Read's `for len(p) > 0` loop, statement by statement.
    State: n = len(p), mayBlock, channel, c.bb, bytes copied so far.  One unit of fuel per iteration. -/
def readLoop (stopped : Bool) : Nat → Nat → Bool → List Bytes → Bytes → Bytes → Bytes × RErr × List Bytes × Bytes
  | 0, _, _, ch, bb, acc => (acc, .nil, ch, bb)
  | fuel + 1, n, mayBlock, ch, bb, acc =>
    if n = 0 then (acc, .nil, ch, bb)                         -- loop condition
    else if bb = [] then                                       -- c.read: len(c.bb) == 0 → readNextByteBuffer
      match ch with
      | b :: rest =>                                           -- `case c.b = <-c.rCh`
        readLoop stopped fuel (n - min n b.length) false rest (b.drop n) (acc ++ b.take n)
      | [] =>
        if !mayBlock then (acc, .nil, [], bb)                  -- errWouldBlock → err = nil
        else if stopped then (acc, .eof, [], bb)               -- `case <-c.pc.stopCh` (channel still empty)
        else (acc, .block, [], bb)                             -- waits (ErrTimeout under an expired deadline)
    else
      readLoop stopped fuel (n - min n bb.length) false ch (bb.drop n) (acc ++ bb.take n)

/-- Read via the literal loop; fuel `n + chan.length + 1` (every iteration consumes a byte of p or a buffer) -/
def Dir.readViaLoop (stopped : Bool) (s : Dir) (n : Nat) : RRes × Dir :=
  let r := readLoop stopped (n + s.chan.length + 1) n true s.chan s.bb []
  (⟨r.1, r.2.1⟩, { s with chan := r.2.2.1, bb := r.2.2.2, readAcc := s.readAcc ++ r.1 })

/-! ### the two-way pipe -/

inductive End
  | e1
  | e2
  deriving DecidableEq, Repr

structure Duplex where
  d12 : Dir          -- written by Conn1, read by Conn2
  d21 : Dir          -- written by Conn2, read by Conn1
  stopped : Bool     -- pc.stopCh closed
  deriving DecidableEq, Repr

def Duplex.init : Duplex := ⟨Dir.init, Dir.init, false⟩

/-- the direction end `e` writes into -/
def Duplex.wdir (s : Duplex) : End → Dir
  | .e1 => s.d12
  | .e2 => s.d21

/-- the direction end `e` reads from -/
def Duplex.rdir (s : Duplex) : End → Dir
  | .e1 => s.d21
  | .e2 => s.d12

def Duplex.setW (s : Duplex) (e : End) (d : Dir) : Duplex :=
  match e with
  | .e1 => { s with d12 := d }
  | .e2 => { s with d21 := d }

def Duplex.setR (s : Duplex) (e : End) (d : Dir) : Duplex :=
  match e with
  | .e1 => { s with d21 := d }
  | .e2 => { s with d12 := d }

inductive Ev
  | write (e : End) (p : Bytes)
  | read (e : End) (n : Nat)
  | close                                 -- pc.Close() = Conn1().Close() = Conn2().Close(); idempotent
  deriving DecidableEq, Repr

inductive Obs
  | w (r : WRes)
  | r (r : RRes)
  | c
  deriving DecidableEq, Repr

def step (cap : Nat) (s : Duplex) : Ev → Obs × Duplex
  | .write e p =>
    let r := (s.wdir e).write cap s.stopped p
    (.w r.1, s.setW e r.2)
  | .read e n =>
    let r := (s.rdir e).read s.stopped n
    (.r r.1, s.setR e r.2)
  | .close => (.c, { s with stopped := true })

/-- run an event list: observations and final state -/
def run (cap : Nat) : Duplex → List Ev → List Obs × Duplex
  | s, [] => ([], s)
  | s, e :: es =>
    let r := step cap s e
    let q := run cap r.2 es
    (r.1 :: q.1, q.2)

/-- state reached from the initial state -/
def reach (cap : Nat) (es : List Ev) : Duplex := (run cap Duplex.init es).2

/-- a sequence of reads on one direction -/
def readSeq (stopped : Bool) : Dir → List Nat → List RRes × Dir
  | s, [] => ([], s)
  | s, n :: ns =>
    let r := s.read stopped n
    let q := readSeq stopped r.2 ns
    (r.1 :: q.1, q.2)

/-! ### what an observer of a run sees (no ghost fields involved) -/

/-- payload of a successful Write of end `e` (else nothing) -/
def wbytes (e : End) : Ev × Obs → Bytes
  | (.write e' p, .w (.ok _)) => if e' = e then p else []
  | _ => []

/-- bytes returned by a Read of end `e` (else nothing) -/
def rbytes (e : End) : Ev × Obs → Bytes
  | (.read e' _, .r r) => if e' = e then r.data else []
  | _ => []

/-- concatenation of the payloads of the successful writes of end `e` in a run -/
def writesOf (e : End) (es : List Ev) (os : List Obs) : Bytes := ((es.zip os).map (wbytes e)).flatten

/-- concatenation of everything the reads of end `e` returned in a run -/
def readsOf (e : End) (es : List Ev) (os : List Obs) : Bytes := ((es.zip os).map (rbytes e)).flatten

def rres (e : End) : Ev × Obs → Option RRes
  | (.read e' _, .r r) => if e' = e then some r else none
  | _ => none

def rsize (e : End) : Ev → Option Nat
  | .read e' n => if e' = e then some n else none
  | _ => none

/-- the results of the reads of end `e` in a run, and their sizes -/
def readResults (e : End) (es : List Ev) (os : List Obs) : List RRes := (es.zip os).filterMap (rres e)
def readSizes (e : End) (es : List Ev) : List Nat := es.filterMap (rsize e)

def End.other : End → End
  | .e1 => .e2
  | .e2 => .e1

/-- what is still to be delivered, and the measure that every successful read after Close decreases -/
def Dir.pending (s : Dir) : Bytes := s.bb ++ s.chan.flatten
def Dir.measure (s : Dir) : Nat := s.bb.length + s.chan.flatten.length + s.chan.length

end Fh.Model.Pipe

/-! ## InmemoryListener -/
namespace Fh.Model.Lsn

abbrev Did := Nat   -- identity of a Dial call (and of its PipeConns / acceptConn)
abbrev Aid := Nat   -- identity of an Accept call

inductive DStatus
  | fresh                -- not started
  | checked              -- passed `ln.lock; if ln.closed` (holds `done`)
  | queued               -- `ln.conns <- acceptConn{sConn, accepted}` done, waiting for `accepted`
  | success              -- returned (cConn, nil)
  | failed               -- returned ErrInmemoryListenerClosed (both conns closed)
  deriving DecidableEq, Repr

inductive AStatus
  | fresh
  | started              -- passed the first non-blocking `<-ln.done` check
  | took (d : Did)       -- received acceptConn of dial d and saw `done` still open
  | returned (d : Did)   -- close(c.accepted); return c.conn (the server end of dial d)
  | failed               -- returned ErrInmemoryListenerClosed
  deriving DecidableEq, Repr

structure State where
  queue : List Did               -- ln.conns, oldest first
  closed : Bool                  -- ln.closed / ln.done closed (set together under ln.lock)
  dial : Did → DStatus
  accFlag : Did → Bool           -- the `accepted` channel of dial d is closed
  acc : Aid → AStatus
  lateD : Did → Bool             -- GHOST: the Dial took the lock after Close
  lateA : Aid → Bool             -- GHOST: the Accept made its first check after Close
  takenBy : Did → Option Aid     -- GHOST: which Accept received dial d's acceptConn with `done` open

def init : State :=
  { queue := [], closed := false, dial := fun _ => .fresh, accFlag := fun _ => false, acc := fun _ => .fresh,
    lateD := fun _ => false, lateA := fun _ => false, takenBy := fun _ => none }

def upd {α : Type} (f : Nat → α) (i : Nat) (x : α) : Nat → α := fun j => if j = i then x else f j

/-- One event = one lock section or channel operation:

  dialLock d      `ln.lock.Lock(); if ln.closed {fail}; done := ln.done`
  dialEnqueue d   `case ln.conns <- acceptConn{…}` (needs room; may be chosen by `select` even when `done` is closed)
  dialAbort d     any of the `<-done` cases of Dial (the non-blocking one before the send, the one in the send
                  select, the one in the wait select after re-checking `accepted`): needs closed and `accepted` open
  dialEnd d       `<-accepted`: return (cConn, nil)
  acceptBegin a   the first non-blocking `<-ln.done` of Accept
  acceptTake a    `case c := <-ln.conns` followed by the non-blocking `<-ln.done`: closed → c.conn.Close(), fail;
                  with an empty queue: closed → `case <-ln.done`, fail; open → not enabled (Accept waits)
  acceptAbort a   `case <-ln.done` of the blocking select (may be chosen by `select` although conns is non-empty)
  acceptCommit a  `close(c.accepted); return c.conn`
  close           Close: first call closes `done` and sets `closed`; later calls return an error, no effect
  closeDrain      one iteration of closePendingConns: `case c := <-ln.conns: c.conn.Close()` -/
inductive Event
  | dialLock (d : Did)
  | dialEnqueue (d : Did)
  | dialAbort (d : Did)
  | dialEnd (d : Did)
  | acceptBegin (a : Aid)
  | acceptTake (a : Aid)
  | acceptAbort (a : Aid)
  | acceptCommit (a : Aid)
  | close
  | closeDrain
  deriving DecidableEq, Repr

def step (cap : Nat) (s : State) : Event → Option State
  | .dialLock d =>
    if s.dial d = .fresh then
      if s.closed then some { s with dial := upd s.dial d .failed, lateD := upd s.lateD d true }
      else some { s with dial := upd s.dial d .checked }
    else none
  | .dialEnqueue d =>
    if s.dial d = .checked ∧ s.queue.length < cap then
      some { s with dial := upd s.dial d .queued, queue := s.queue ++ [d] }
    else none
  | .dialAbort d =>
    if (s.dial d = .checked ∨ s.dial d = .queued) ∧ s.closed = true ∧ s.accFlag d = false then
      some { s with dial := upd s.dial d .failed }
    else none
  | .dialEnd d =>
    if s.dial d = .queued ∧ s.accFlag d = true then some { s with dial := upd s.dial d .success }
    else none
  | .acceptBegin a =>
    if s.acc a = .fresh then
      if s.closed then some { s with acc := upd s.acc a .failed, lateA := upd s.lateA a true }
      else some { s with acc := upd s.acc a .started }
    else none
  | .acceptTake a =>
    if s.acc a = .started then
      match s.queue with
      | d :: rest =>
        if s.closed then some { s with queue := rest, acc := upd s.acc a .failed }
        else some { s with queue := rest, acc := upd s.acc a (.took d), takenBy := upd s.takenBy d (some a) }
      | [] => if s.closed then some { s with acc := upd s.acc a .failed } else none
    else none
  | .acceptAbort a =>
    if s.acc a = .started ∧ s.closed = true then some { s with acc := upd s.acc a .failed } else none
  | .acceptCommit a =>
    match s.acc a with
    | .took d => some { s with acc := upd s.acc a (.returned d), accFlag := upd s.accFlag d true }
    | _ => none
  | .close => some { s with closed := true }
  | .closeDrain =>
    if s.closed then
      match s.queue with
      | _ :: rest => some { s with queue := rest }
      | [] => none
    else none

def run (cap : Nat) (s : State) : List Event → Option State
  | [] => some s
  | e :: es => (step cap s e).bind (fun s' => run cap s' es)

end Fh.Model.Lsn
