/-
Model of how header.go finds the end of a request/response head in the read buffer:
parseFirstLine's `nextLine` loop (leading empty lines are skipped), readRawHeaders / rawHeadersEnd (first blank line),
and the header scanner's decision to trust that end only when the blank line is a CRLF
(commit "fix: the header block ends at its own blank line").
The fields parser applied to the block is a parameter: C09 is about what it is applied to.
-/
import FhVerif.Base.Bytes

namespace Fh.Model

/-- scan for the end of the first non-empty line: `cur` = bytes of the current line seen so far (reversed), `off` = offset.
    Returns (line content without terminator, offset just past its LF). -/
def lineOf (cur : Bytes) : Bytes :=
  match cur with
  | 13 :: r => r.reverse
  | _ => cur.reverse

def firstLineGo : Bytes → Bytes → Nat → Option (Bytes × Nat)
  | [], _, _ => none
  | c :: t, cur, off =>
    if c == 10 then
      if (lineOf cur).isEmpty then firstLineGo t [] (off + 1) else some (lineOf cur, off + 1)
    else firstLineGo t (c :: cur) (off + 1)

/-- readRawHeaders / rawHeadersEnd: offset just past the first blank line ("\n" or "\r\n" on its own) -/
def rawEndGo : Bytes → Bytes → Nat → Option Nat
  | [], _, _ => none
  | c :: t, cur, off =>
    if c == 10 then
      if cur == [] || cur == [13] then some (off + 1) else rawEndGo t [] (off + 1)
    else rawEndGo t (c :: cur) (off + 1)

def rawEnd (b : Bytes) : Option Nat := rawEndGo b [] 0

/-- the scanner trusts the block end only if the blank line is a CRLF -/
def blockOK (b : Bytes) (n : Nat) : Bool :=
  decide (n ≥ 2) && b.getD (n - 2) 0 == 13 && b.getD (n - 1) 0 == 10

def startsCRLF (b : Bytes) : Bool := b.getD 0 0 == 13 && b.getD 1 0 == 10

inductive HeadRes (α : Type)
  | needMore
  | parsed (a : α) (consumed : Nat)

/-- head parsing: `parse firstLine block` is whatever the fields parser makes of the block -/
def parseHead {α : Type} (parse : Bytes → Bytes → α) (buf : Bytes) : HeadRes α :=
  match firstLineGo buf [] 0 with
  | none => .needMore
  | some (line, m) =>
    let rest := buf.drop m
    -- a block that starts with CRLF is empty (scanner fast path)
    if startsCRLF rest then .parsed (parse line []) (m + 2)
    else
      match rawEnd rest with
      | none => .needMore
      | some n => if blockOK rest n then .parsed (parse line (rest.take n)) (m + n) else .needMore

end Fh.Model
