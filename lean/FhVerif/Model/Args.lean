/-
Model of args.go: the argsKV slice operations (appendArg, setArg, delAllArgsStable, delAllArgs, peek*, hasArg),
Args.AppendBytes / ParseBytes (argsScanner.next), decodeArgAppend, AppendQuotedArg.
An entry is (key, value) with `value = none` for noValue entries (Go: noValue = true, value emptied).
-/
import FhVerif.Model.ByteClass

namespace Fh.Model

structure KV where
  key : Bytes
  value : Option Bytes
  deriving DecidableEq, Repr

abbrev ArgList := List KV

def KV.val (e : KV) : Bytes := e.value.getD []

/-- appendArg -/
def appendArg (l : ArgList) (k : Bytes) (v : Option Bytes) : ArgList := l ++ [⟨k, v⟩]

/-- setArg: first entry with that key is overwritten, else append -/
def setArg : ArgList → Bytes → Option Bytes → ArgList
  | [], k, v => [⟨k, v⟩]
  | e :: rest, k, v => if e.key = k then ⟨e.key, v⟩ :: rest else e :: setArg rest k v

/-- delAllArgsStable: the shifting loop removes every matching entry and keeps the order of the rest -/
def delAllArgsStable : ArgList → Bytes → ArgList
  | [], _ => []
  | e :: rest, k => if e.key = k then delAllArgsStable rest k else e :: delAllArgsStable rest k

/-- delAllArgs (swap-delete; used by nothing order-sensitive after the header fix).
    `go i n l`: Go's loop on the array prefix l[:n] at index i, with fuel. -/
def delAllArgsSwap (l : ArgList) (k : Bytes) : ArgList :=
  let rec go : Nat → Nat → Nat → Array KV → Array KV
    | 0, _, n, a => a.extract 0 n
    | fuel + 1, i, n, a =>
      if i < n then
        if (a.getD i ⟨[], none⟩).key = k then
          let a' := (a.setIfInBounds i (a.getD (n - 1) ⟨[], none⟩)).setIfInBounds (n - 1) (a.getD i ⟨[], none⟩)
          go fuel i (n - 1) a'
        else go fuel (i + 1) n a
      else a.extract 0 n
  (go (2 * l.length + 1) 0 l.length l.toArray).toList

def peekArg : ArgList → Bytes → Option Bytes
  | [], _ => none
  | e :: rest, k => if e.key = k then some e.val else peekArg rest k

def peekAll : ArgList → Bytes → List Bytes
  | [], _ => []
  | e :: rest, k => if e.key = k then e.val :: peekAll rest k else peekAll rest k

def hasArg : ArgList → Bytes → Bool
  | [], _ => false
  | e :: rest, k => e.key = k || hasArg rest k

/-! ### percent coding -/

def upperHexDigit (d : UInt8) : UInt8 := if d < 10 then 48 + d else 55 + d

/-- AppendQuotedArg for one byte -/
def quoteArgByte (c : UInt8) : Bytes :=
  if c == 32 then [43]
  else if quotedArgShouldEscape c then [37, upperHexDigit (c >>> 4), upperHexDigit (c &&& 15)]
  else [c]

def appendQuotedArg (s : Bytes) : Bytes := s.flatMap quoteArgByte

/-- decodeArgAppend: %XX → byte, '+' → space, malformed '%' stays -/
def decodeArg : Bytes → Bytes
  | [] => []
  | 37 :: c1 :: c2 :: rest =>
    let x1 := hex2int c1
    let x2 := hex2int c2
    if x1 == 16 || x2 == 16 then 37 :: decodeArg (c1 :: c2 :: rest)
    else (x1 <<< 4 ||| x2) :: decodeArg rest
  | [37, c1] => [37, c1]          -- `end > len(src)`: the rest is appended verbatim (no '+' decoding)
  | [37] => [37]
  | 43 :: rest => 32 :: decodeArg rest
  | c :: rest => c :: decodeArg rest

/-! ### serialise / parse -/

def encEntry (e : KV) : Bytes :=
  match e.value with
  | none => appendQuotedArg e.key
  | some v => appendQuotedArg e.key ++ 61 :: appendQuotedArg v

def joinAmp : List Bytes → Bytes
  | [] => []
  | [x] => x
  | x :: rest => x ++ 38 :: joinAmp rest

/-- Args.AppendBytes / QueryString -/
def argsAppendBytes (l : ArgList) : Bytes := joinAmp (l.map encEntry)

def splitAmp : Bytes → List Bytes
  | [] => [[]]
  | c :: t =>
    if c == 38 then [] :: splitAmp t
    else match splitAmp t with
      | s :: r => (c :: s) :: r
      | [] => [[c]]

/-- one `argsScanner.next` item: first '=' splits key and value; no '=' ⇒ noValue -/
def parseEntry (s : Bytes) : KV :=
  let k := s.takeWhile (· != 61)
  match s.dropWhile (· != 61) with
  | [] => ⟨decodeArg k, none⟩
  | _ :: v => ⟨decodeArg k, some (decodeArg v)⟩

def KV.isBlank (e : KV) : Bool := e.key.isEmpty && e.val.isEmpty

/-- Args.ParseBytes: entries whose key and value are both empty are skipped -/
def parseArgs (b : Bytes) : ArgList := ((splitAmp b).map parseEntry).filter (fun e => !e.isBlank)

end Fh.Model
