/-
Model of the size limiting of http.go body readers (readBody, readBodyChunked, readBodyIdentity with its growth policy,
copyZeroAllocWithLimit) with a ghost counter of the body bytes held in the buffer, and of the small-buffer decision.
`L = 0` means "no limit" as in the Go code (`maxBodySize > 0 && …`).
-/
import FhVerif.Gen.Consts
import FhVerif.Base.Bytes

namespace Fh.Model

inductive LimRes
  | ok (buffered : Nat)
  | tooLarge (buffered : Nat)     -- ErrBodyTooLarge with that many body bytes in the buffer
  deriving DecidableEq, Repr

/-- readBody: Content-Length bodies are refused before a byte is read -/
def limFixed (L cl : Nat) : LimRes := if L > 0 ∧ cl > L then .tooLarge 0 else .ok cl

/-- readBodyChunked: `if maxBodySize > 0 && len(dst)+chunkSize > maxBodySize` before each chunk is read;
    the input is the list of chunk sizes up to (excluding) the terminating 0 -/
def limChunked (L : Nat) : Nat → List Nat → LimRes
  | have_, [] => .ok have_
  | have_, c :: rest => if L > 0 ∧ have_ + c > L then .tooLarge have_ else limChunked L (have_ + c) rest

/-- readBodyIdentity: reads go into the free part of a buffer of capacity `cap`; when full the buffer grows to
    min(roundUp(2·offset), L+1).  `reads` are the byte counts the connection delivers (each capped by the free space);
    `grow` abstracts roundUpForSliceCap(2·offset) ≥ 2·offset. -/
def limIdentity (L : Nat) (grow : Nat → Nat) : Nat → Nat → List Nat → LimRes
  | _, offset, [] => .ok offset
  | cap, offset, r :: rest =>
    let nn := min r (cap - offset)
    let offset' := offset + nn
    if L > 0 ∧ offset' > L then .tooLarge offset'
    else
      let cap' := if cap = offset' then (let n := grow offset'; if L > 0 ∧ n > L then L + 1 else n) else cap
      limIdentity L grow cap' offset' rest

/-- copyZeroAllocWithLimit: an io.LimitedReader of N = L+1 in front of the source -/
def limCopy (L total : Nat) : LimRes :=
  if L = 0 then .ok total
  else
    let n := min total (L + 1)
    if n > L then .tooLarge n else .ok n

/-- what the *WithLimit helpers hand back to the caller -/
def limReturned : LimRes → Option Nat
  | .ok n => some n
  | .tooLarge _ => none

/-- MaxRequestBodySize as the server uses it -/
def effectiveMaxBody (configured : Int) : Nat := if configured ≤ 0 then Gen.defaultMaxRequestBodySize else configured.toNat

/-- the read loop's verdict on a head that does not fit the read buffer -/
inductive HeadFit | fits | smallBuffer
  deriving DecidableEq, Repr

def headFit (bufSize headLen : Nat) : HeadFit := if headLen ≤ bufSize then .fits else .smallBuffer

/-- (status, connection closed) for a head verdict -/
def headFitResponse : HeadFit → Option (Nat × Bool)
  | .fits => none
  | .smallBuffer => some (431, true)

end Fh.Model
