/-
Model of bytesconv.go ParseIPv4 / parseIPv4Octet / AppendIPv4 and ipv6.go validateIPv6Literal /
parseIPv6Hextets / validIPv4.

Index loops become structural recursion on the remaining bytes; the Go loop state that depends on the index
(`i == 0`, `justSawDouble`, digit count of the current group) is an explicit automaton state.
-/
import FhVerif.Model.IntCodec

namespace Fh.Model

/-! ### IPv4 -/

inductive IPErr | emptyStr | noDot | emptyPart | firstChar | trailing | tooLarge
  deriving DecidableEq, Repr

/-- result of parseIPv4Octet: (octet, parsed, err) -/
structure OctRes where
  octet : Nat
  parsed : Nat
  err : Option IPErr
  deriving DecidableEq, Repr

/-- the loop of parseIPv4Octet; `first` = (i == 0) -/
def octetLoop (octet parsed : Nat) (first : Bool) : Bytes → OctRes
  | [] => ⟨octet, parsed, none⟩
  | c :: rest =>
    let k := (c - 48).toNat
    if k > 9 then
      if first then ⟨0, parsed, some .firstChar⟩ else ⟨0, parsed, some .trailing⟩
    else
      let parsed := parsed * 10 + k
      if octet > 25 || (octet == 25 && k > 5) then ⟨0, parsed, some .tooLarge⟩
      else octetLoop (octet * 10 + k) parsed false rest

def parseIPv4Octet (b : Bytes) : OctRes :=
  if b.isEmpty then ⟨0, 0, some .emptyPart⟩ else octetLoop 0 0 true b

/-- the `for i := range 3` loop of ParseIPv4 followed by the last octet -/
def parseIPv4Loop : Nat → Bytes → List Nat → Except IPErr (List Nat)
  | 0, b, acc =>
    let r := parseIPv4Octet b
    match r.err with
    | some e => .error e
    | none => .ok (acc ++ [r.octet])
  | n + 1, b, acc =>
    if !b.contains 46 then .error .noDot
    else
      let r := parseIPv4Octet (b.takeWhile (· != 46))
      match r.err with
      | some e => .error e
      | none => parseIPv4Loop n ((b.dropWhile (· != 46)).drop 1) (acc ++ [r.octet])

/-- ParseIPv4: the four octets -/
def parseIPv4 (s : Bytes) : Except IPErr (List Nat) :=
  if s.isEmpty then .error .emptyStr else parseIPv4Loop 3 s []

/-- AppendIPv4 for a 4-byte address -/
def appendIPv4 (ip : List Nat) : Bytes :=
  match ip with
  | [a, b, c, d] => appendUint a ++ 46 :: appendUint b ++ 46 :: appendUint c ++ 46 :: appendUint d
  | _ => ofString "non-v4 ip passed to AppendIPv4"

/-! ### IPv6 literal validation -/

def ishex (c : UInt8) : Bool := hex2int c < 16

/-- where the scanner of parseIPv6Hextets stands -/
inductive HxSt
  | start                 -- i == 0
  | afterDouble           -- justSawDouble
  | afterColon            -- a single ':' was skipped; s[i] is known to be a hex digit
  | inGroup (cnt : Nat)   -- inside the digit loop, cnt digits taken
  deriving DecidableEq, Repr

/-- parseIPv6Hextets(s, allowTrailingColon): `some (groups, seenDouble)` = ok -/
def hextetsLoop (atc : Bool) : HxSt → Nat → Bool → Bytes → Option (Nat × Bool)
  | _, g, sd, [] => some (g, sd)
  | st, g, sd, c :: rest =>
    if c == 58 then
      match rest with
      | c2 :: rest2 =>
        if c2 == 58 then
          -- "::"
          if sd || st == .afterDouble then none
          else hextetsLoop atc .afterDouble g true rest2
        else
          -- single ':' followed by something
          if st == .start || st == .afterDouble then none
          else if !ishex c2 then none
          else hextetsLoop atc .afterColon g sd (c2 :: rest2)
      | [] =>
        -- single ':' at the end
        if st == .start || st == .afterDouble then none
        else if atc then some (g, sd) else none
    else if !ishex c then none
    else
      match st with
      | .inGroup cnt => if cnt < 4 then hextetsLoop atc (.inGroup (cnt + 1)) g sd rest else none
      | _ => hextetsLoop atc (.inGroup 1) (g + 1) sd rest

def parseIPv6Hextets (s : Bytes) (atc : Bool) : Option (Nat × Bool) := hextetsLoop atc .start 0 false s

/-- one part of validIPv4: up to three digits, value ≤ 255, no leading zero; returns the rest -/
def v4Digits : Nat → Nat → Bytes → Option (Nat × Bytes)
  | val, digits, c :: rest =>
    if c < 48 || c > 57 then some (digits, c :: rest)
    else
      let val := val * 10 + (c - 48).toNat
      if val > 255 then none
      else if digits + 1 > 3 then none
      else v4Digits val (digits + 1) rest
  | _, digits, [] => some (digits, [])

/-- validIPv4 with `parts` parts already read -/
def validIPv4Loop : Nat → Bytes → Bool
  | 0, _ => false
  | n + 1, s =>
    match s with
    | [] => false
    | c0 :: _ =>
      match v4Digits 0 0 s with
      | none => false
      | some (digits, rest) =>
        if digits == 0 then false
        else if digits > 1 && c0 == 48 then false
        else if n == 0 then rest.isEmpty
        else match rest with
          | 46 :: rest' => validIPv4Loop n rest'
          | _ => false

def validIPv4 (s : Bytes) : Bool := validIPv4Loop 4 s

inductive V6Err | host | zone | address
  deriving DecidableEq, Repr

/-- bytes.LastIndexByte -/
def lastIndexOf (c : UInt8) : Bytes → Option Nat
  | [] => none
  | a :: t =>
    match lastIndexOf c t with
    | some i => some (i + 1)
    | none => if a == c then some 0 else none

def groupsOK (seenDouble : Bool) (hextets : Nat) : Bool :=
  !((!seenDouble && hextets != 8) || (seenDouble && hextets ≥ 8))

/-- the address checks of validateIPv6Literal (after the zone has been cut off) -/
def validIPv6Addr (addr : Bytes) : Bool :=
  if !addr.contains 58 then false
  else if addr.contains 46 then
    match lastIndexOf 58 addr with
    | none => false
    | some lastColon =>
      if lastColon == addr.length - 1 then false
      else if !validIPv4 (addr.drop (lastColon + 1)) then false
      else
        -- addr[:lastColon]; `lastColon > 0 && addr[lastColon-1] == ':'` says it ends with ':'
        let before := addr.take lastColon
        let atSplit := before.getLast? == some 58
        let head := if atSplit then before.dropLast else before
        match parseIPv6Hextets head false with
        | none => false
        | some (hextets, seenDoubleHead) =>
          if seenDoubleHead && atSplit then false
          else groupsOK (seenDoubleHead || atSplit) (hextets + 2)
  else
    match parseIPv6Hextets addr false with
    | none => false
    | some (hextets, seenDouble) => groupsOK seenDouble hextets

/-- validateIPv6Literal: `none` = nil error -/
def validateIPv6Literal (host : Bytes) : Option V6Err :=
  match host with
  | 91 :: t =>
    if !t.contains 93 then some .host
    else
      let addr := t.takeWhile (· != 93)
      if addr.isEmpty then some .host
      else
        let zoned := addr.contains 37
        let a := addr.takeWhile (· != 37)
        if zoned && a.length == addr.length - 1 then some .zone
        else if validIPv6Addr a then none else some .address
  | _ => none

end Fh.Model
