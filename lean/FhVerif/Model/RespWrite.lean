/-
Model of http.go Response.Write for a buffered body on top of the ResponseHeader model (Model.HeaderSet, C05), and of
writeBodyFixedSize's byte accounting for body streams with a declared size.
-/
import FhVerif.Model.HeaderSet

namespace Fh.Model

/-- Response.Write (no body stream): Content-Length is set from the body unless the body is skipped and empty -/
def respWrite (s : C05Resp) (body : Bytes) (skipBody : Bool) : Bytes :=
  let sendBody := !(skipBody || s.mustSkipCL)
  let s' := if sendBody || !body.isEmpty then s.setContentLength body.length else s
  s'.appendBytes ++ (if sendBody then body else [])

/-- writeBodyFixedSize as it is: the whole stream is copied, the size is compared afterwards.
    Returns (bytes put into the write buffer after the head, error?) -/
def writeBodyFixedSize (declared : Nat) (stream : Bytes) : Bytes × Bool :=
  (stream, stream.length != declared)

end Fh.Model
