/-
Model of the body state of http.go's Response as a handler builds it in several steps: the pooled buffer `body`,
the uncopied slice `bodyRaw` and the reader `bodyStream`, and of what Response.Write sends for it
(bodyStream if there is one, else bodyBytes(): bodyRaw if non-nil, else the buffer).

  SetBody / SetBodyString   closeBodyStream; bodyBuffer() (bodyRaw = nil); Reset; Write
  AppendBody / ctx.Write    closeBodyStream; bodyBuffer() (bodyRaw = nil); Write
  SetBodyRaw(b)             ResetBody(); bodyRaw = b           (b = nil: no raw body)
  ResetBody                 bodyRaw = nil; closeBodyStream; buffer reset or returned to the pool
  SetBodyStream(r, n)       ResetBody(); bodyStream = r
-/
import FhVerif.Base.Bytes

namespace Fh.Model.BodyOps

inductive Op where
  | set (b : Bytes)      -- SetBody, SetBodyString
  | app (b : Bytes)      -- AppendBody, AppendBodyString, ctx.Write, ctx.WriteString, BodyWriter().Write
  | raw (b : Bytes)      -- SetBodyRaw(b), b non-nil
  | rawNil               -- SetBodyRaw(nil)
  | reset                -- ResetBody
  | stream (b : Bytes)   -- SetBodyStream(reader delivering b, len b)
  deriving DecidableEq, Repr

structure RB where
  body : Bytes
  raw : Option Bytes
  stream : Option Bytes
  deriving DecidableEq, Repr

def init : RB := ⟨[], none, none⟩

def resetBody (_ : RB) : RB := ⟨[], none, none⟩

def step (s : RB) : Op → RB
  | .set b => { body := b, raw := none, stream := none }
  | .app b => { body := s.body ++ b, raw := none, stream := none }
  | .raw b => { resetBody s with raw := some b }
  | .rawNil => resetBody s
  | .reset => resetBody s
  | .stream b => { resetBody s with stream := some b }

def run (s : RB) (ops : List Op) : RB := ops.foldl step s

/-- what Response.Write puts on the wire as the body -/
def sent (s : RB) : Bytes :=
  match s.stream with
  | some b => b
  | none => match s.raw with
    | some r => r
    | none => s.body

/-! The abstract reading a handler author has: one current body; `Set*` replaces it, `Append`/`Write` extend it —
    starting afresh when the current body is not the handler's own buffer (a raw slice or a stream) — and the
    resets empty it. -/
structure Abs where
  cur : Bytes
  own : Bool          -- the current body is the response's own buffer (appends extend it)
  deriving DecidableEq, Repr

def absInit : Abs := ⟨[], true⟩

def absStep (a : Abs) : Op → Abs
  | .set b => ⟨b, true⟩
  | .app b => if a.own then ⟨a.cur ++ b, true⟩ else ⟨b, true⟩
  | .raw b => ⟨b, false⟩
  | .rawNil => ⟨[], false⟩
  | .reset => ⟨[], true⟩
  | .stream b => ⟨b, false⟩

def absRun (a : Abs) (ops : List Op) : Abs := ops.foldl absStep a

end Fh.Model.BodyOps
