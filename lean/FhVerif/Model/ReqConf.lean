/-
Model of the connection-scoped variables of server.go serveConnCounted that carry a request's own RequestConfig
(the value Server.HeaderReceived returns): `maxRequestBodySize`, `writeTimeout`, `previousWriteTimeout`, the write
deadline in force on the connection, the read deadline in force and who set it, and `requestReadDeadline`
(fix "read deadline set through HeaderReceived no longer applies to later requests").
One iteration = the loop body for one request, in the order of the code: loop top (first-byte / idle deadline),
first byte arrived, header read + HeaderReceived, response written.
-/
namespace Fh.Model.ReqConf

structure SrvCfg where
  maxBody : Nat          -- Server.MaxRequestBodySize (0 = default)
  writeTimeout : Nat     -- Server.WriteTimeout
  readTimeout : Nat      -- Server.ReadTimeout
  idleTimeout : Nat      -- Server.IdleTimeout
  hasHook : Bool         -- Server.HeaderReceived != nil
  deriving DecidableEq, Repr

/-- RequestConfig returned for one request (all zero = "no override") -/
structure Conf where
  rt : Nat
  wt : Nat
  mb : Nat
  deriving DecidableEq, Repr

/-- who set the read deadline currently in force on the connection -/
inductive RDL | none | server | request
  deriving DecidableEq, Repr

structure Vars where
  maxBody : Nat
  writeTimeout : Nat
  prevWriteTimeout : Nat
  wdlSet : Bool
  rdl : RDL
  reqRdl : Bool          -- requestReadDeadline
  deriving DecidableEq, Repr

def defaultMaxBody : Nat := 4 * 1024 * 1024

def srvMax (c : SrvCfg) : Nat := if c.maxBody > 0 then c.maxBody else defaultMaxBody

def init (c : SrvCfg) : Vars := ⟨srvMax c, c.writeTimeout, 0, false, .none, false⟩

/-- Server.idleTimeout(): IdleTimeout, or ReadTimeout when it is zero -/
def idle (c : SrvCfg) : Nat := if c.idleTimeout > 0 then c.idleTimeout else c.readTimeout

/-- loop top for request number `n` (1-based) -/
def top (c : SrvCfg) (n : Nat) (v : Vars) : Vars :=
  if n = 1 then (if c.readTimeout > 0 then { v with rdl := .server } else v)
  else
    let v' := if idle c > 0 then { v with rdl := .server }
              else if v.reqRdl then { v with rdl := .none } else v
    { v' with reqRdl := false }

/-- the first byte of the request arrived -/
def firstByte (c : SrvCfg) (n : Nat) (v : Vars) : Vars :=
  if c.readTimeout > 0 then { v with rdl := .server }
  else if c.idleTimeout > 0 ∧ n > 1 then { v with rdl := .none } else v

/-- header read, HeaderReceived consulted -/
def hook (c : SrvCfg) (k : Conf) (v : Vars) : Vars :=
  if c.hasHook then
    let v1 := if k.rt > 0 then { v with rdl := .request, reqRdl := true } else v
    { v1 with maxBody := (if k.mb > 0 then k.mb else srvMax c),
              writeTimeout := (if k.wt > 0 then k.wt else c.writeTimeout) }
  else v

/-- just before the response is written -/
def beforeWrite (v : Vars) : Vars :=
  if v.writeTimeout > 0 then { v with wdlSet := true, prevWriteTimeout := v.writeTimeout }
  else if v.prevWriteTimeout > 0 then { v with wdlSet := false, prevWriteTimeout := 0 } else v

/-- what one request experiences -/
structure Seen where
  rdlWaiting : RDL       -- who set the read deadline under which the server waits for this request's first byte
  maxBody : Nat          -- body limit applied to this request
  wdl : Bool             -- a write deadline is in force when its response is written
  deriving DecidableEq, Repr

def iter (c : SrvCfg) (n : Nat) (k : Conf) (v : Vars) : Vars × Seen :=
  let v1 := top c n v
  let v2 := hook c k (firstByte c n v1)
  let v3 := beforeWrite v2
  (v3, ⟨v1.rdl, v2.maxBody, v3.wdlSet⟩)

def run (c : SrvCfg) : Nat → Vars → List Conf → List Seen
  | _, _, [] => []
  | n, v, k :: rest => let r := iter c n k v; r.2 :: run c (n + 1) r.1 rest

/-- what a request is entitled to, from the server's settings and ITS OWN configuration only -/
def ownMax (c : SrvCfg) (k : Conf) : Nat := if c.hasHook ∧ k.mb > 0 then k.mb else srvMax c
def ownWdl (c : SrvCfg) (k : Conf) : Bool := if c.hasHook ∧ k.wt > 0 then true else decide (c.writeTimeout > 0)

end Fh.Model.ReqConf
