/-
Lockset model for C37 (the weakest claim of the framework — see Props/C37.lean).

Part 1: traces of lock and access events under mutual exclusion (sync.Mutex / sync.RWMutex semantics) and the generic
        theorem: if every access to a field holds the field's lock (write accesses exclusively, read accesses at least
        shared), two conflicting accesses by different threads are separated by a release of that lock by the first
        thread followed by an acquisition by the second — the release→acquire edge of the Go memory model; there is
        no data race on the field in any trace that respects mutual exclusion.
Part 2: the discipline check over the access table regenerated from /repo by extract/locks.go (Gen/Locks.lean).
What is NOT modelled: that the Go program's executions are such traces with the table's locks held (the syntactic
lock analysis is trusted), atomics (taken as synchronising by the memory model), aliasing of slices/maps.
-/
namespace Fh.Model.Lockset

abbrev Tid := Nat
abbrev Lock := Nat
abbrev Field := Nat

inductive Ev
  | acq (l : Lock) (t : Tid)     -- Lock()
  | rel (l : Lock) (t : Tid)     -- Unlock()
  | racq (l : Lock) (t : Tid)    -- RLock()
  | rrel (l : Lock) (t : Tid)    -- RUnlock()
  | acc (f : Field) (t : Tid) (w : Bool)   -- access to field f (w: write)
deriving DecidableEq, Repr

/-- state of one RWMutex: the writer, and the multiset of readers -/
structure LS where
  writer : Option Tid := none
  readers : List Tid := []
deriving DecidableEq, Repr

/-- mutual exclusion: one step of lock `l`; `none` = the event is not enabled (the trace is not an execution) -/
def stepL (l : Lock) (s : LS) : Ev → Option LS
  | .acq l' t => if l' = l then (if s.writer = none ∧ s.readers = [] then some { s with writer := some t } else none) else some s
  | .rel l' t => if l' = l then (if s.writer = some t then some { s with writer := none } else none) else some s
  | .racq l' t => if l' = l then (if s.writer = none then some { s with readers := t :: s.readers } else none) else some s
  | .rrel l' t => if l' = l then (if t ∈ s.readers then some { s with readers := s.readers.erase t } else none) else some s
  | .acc _ _ _ => some s

def runL (l : Lock) : LS → List Ev → Option LS
  | s, [] => some s
  | s, e :: rest => match stepL l s e with
    | some s' => runL l s' rest
    | none => none

/-- the trace respects mutual exclusion for every lock -/
def WF (tr : List Ev) : Prop := ∀ l, (runL l {} tr).isSome

/-- thread t holds the lock well enough for an access of kind w -/
def Holds (s : LS) (t : Tid) (w : Bool) : Prop :=
  if w then s.writer = some t else (s.writer = some t ∨ t ∈ s.readers)

/-- lockset discipline: every access to f happens while its thread holds L f (exclusively for writes) -/
def Disciplined (L : Field → Lock) (tr : List Ev) : Prop :=
  ∀ pre f t w post, tr = pre ++ Ev.acc f t w :: post → ∃ s, runL (L f) {} pre = some s ∧ Holds s t w

def isRelease (l : Lock) (t : Tid) (e : Ev) : Prop := e = .rel l t ∨ e = .rrel l t
def isAcquire (l : Lock) (t : Tid) (e : Ev) : Prop := e = .acq l t ∨ e = .racq l t

/-! ### Part 2: the regenerated table -/

/-- (type, field, function, kind, class, locks held) -/
abbrev Row := String × String × String × String × String × List String
/-- (type, field, mode) -/
abbrev Spec := String × String × String

def Row.ty (r : Row) : String := r.1
def Row.field (r : Row) : String := r.2.1
def Row.kind (r : Row) : String := r.2.2.2.1
def Row.cls (r : Row) : String := r.2.2.2.2.1
def Row.locks (r : Row) : List String := r.2.2.2.2.2

/-- the field itself is assigned only during initialisation: bare reads of the handle need no lock -/
def frozen (rows : List Row) (ty f : String) : Bool :=
  rows.all fun r => !(r.ty == ty && r.field == f && r.kind == "w" && r.cls != "init")

def isWrite (k : String) : Bool := k == "w" || k == "cw" || k == "cm"

/-- one access site obeys the discipline its field's mode demands -/
def rowOK (rows : List Row) (mode : String) (r : Row) : Bool :=
  if r.cls == "unknown" then false
  else if r.cls == "init" || r.cls == "exempt" then true
  else if mode == "atomic" then r.cls == "atomic"
  else if mode == "immutable" then !isWrite r.kind
  else if mode.startsWith "lock:" then
    let l := (mode.drop 5).toString
    if r.cls != "locked" then false
    else if isWrite r.kind then r.locks.contains l
    else r.locks.contains l || r.locks.contains ("R:" ++ l) || (r.kind == "r" && frozen rows r.ty r.field)
  else false

/-- every row of a listed field obeys its mode, no access is unclassified, and every listed field still has rows
    (a renamed/removed field makes the fact disappear: the check must fail, not pass vacuously) -/
def tableOK (spec : List Spec) (rows : List Row) : Bool :=
  rows.all (fun r => r.cls != "unknown") &&
  spec.all (fun sp =>
    let mine := rows.filter (fun r => r.ty == sp.1 && r.field == sp.2.1)
    !mine.isEmpty && mine.all (rowOK rows sp.2.2))

end Fh.Model.Lockset
