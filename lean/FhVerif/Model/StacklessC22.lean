/-
Model of stackless.NewFunc (stackless/func.go) and of its call sites (compress.go stacklessWriteGzip/Deflate,
brotli.go stacklessWriteBrotli, zstd.go stacklessWriteZstd, stackless/writer.go (*writer).do) — C22.

NewFunc(f) returns a wrapper around a bounded channel (`cap = GOMAXPROCS * Gen.stacklessQueueFactor`) served by
`workers` goroutines:

    select { case ch <- fw: default: return false }      -- submit / full
    <-fw.done; return true                               -- ret
    worker: for fw := range ch { f(fw.ctx); fw.done <- struct{}{} }   -- take / done

Calls are identified by numbers. The call SITE decides what happens when the wrapper returns false:
`inlineOnFull = false` : the result is dropped (the code before the repair) — nothing was written, the call returns;
`inlineOnFull = true`  : the job is run on the caller's goroutine (`if !fn(ctx) { nonblockingWriteX(ctx) }`).
Core Lean only.
-/
import FhVerif.Base.Bytes

namespace Fh.Model.C22

structure QSt where
  queue : List Nat := []      -- submitted, waiting in the channel (FIFO)
  running : List Nat := []    -- taken by a worker, f running
  finished : List Nat := []   -- f completed on a worker, `done` signalled, caller not yet resumed
  executed : List Nat := []   -- every completed run of f (by a worker or inline), one entry per run
  returned : List Nat := []   -- calls that returned to their caller
  deriving DecidableEq, Repr

inductive QEv
  | submit (id : Nat)   -- the select's send case: enqueue, the caller blocks on fw.done
  | full (id : Nat)     -- the select's default case: queue full, wrapper returns false; the call site reacts and returns
  | take (id : Nat)     -- a free worker receives the head of the queue and starts f
  | done (id : Nat)     -- f returns on the worker, fw.done is signalled
  | ret (id : Nat)      -- the caller receives from fw.done; wrapper returns true; the call returns
  deriving DecidableEq, Repr

def QSt.known (s : QSt) (id : Nat) : Prop :=
  id ∈ s.queue ∨ id ∈ s.running ∨ id ∈ s.finished ∨ id ∈ s.returned

instance (s : QSt) (id : Nat) : Decidable (s.known id) := by unfold QSt.known; exact inferInstance

/-- one step; `none` = the event is not enabled in this state -/
def qstep (inlineOnFull : Bool) (cap workers : Nat) (s : QSt) : QEv → Option QSt
  | .submit id =>
    if ¬ s.known id ∧ s.queue.length < cap then some { s with queue := s.queue ++ [id] } else none
  | .full id =>
    if ¬ s.known id ∧ s.queue.length ≥ cap then
      some { s with returned := id :: s.returned,
                    executed := if inlineOnFull then id :: s.executed else s.executed }
    else none
  | .take id =>
    match s.queue with
    | h :: t => if h = id ∧ s.running.length < workers then some { s with queue := t, running := id :: s.running } else none
    | [] => none
  | .done id =>
    if id ∈ s.running then
      some { s with running := s.running.erase id, finished := id :: s.finished, executed := id :: s.executed }
    else none
  | .ret id =>
    if id ∈ s.finished then
      some { s with finished := s.finished.erase id, returned := id :: s.returned }
    else none

def qrun (inlineOnFull : Bool) (cap workers : Nat) : QSt → List QEv → Option QSt
  | s, [] => some s
  | s, e :: rest =>
    match qstep inlineOnFull cap workers s e with
    | some s' => qrun inlineOnFull cap workers s' rest
    | none => none

def hasFull : List QEv → Bool
  | [] => false
  | .full _ :: _ => true
  | _ :: rest => hasFull rest

/-- what call `id` left in its destination when it returned: the job `f` = "append enc(p) to dst" ran once per entry
    of `executed` -/
def output (enc : Bytes → Bytes) (p : Bytes) (s : QSt) (id : Nat) : Bytes :=
  (List.replicate (s.executed.count id) (enc p)).flatten

/-! ### the staging buffer of a stackless writer (stackless/writer.go)

The wrapped compressor writes into `w.xw` (a pooled byte buffer); `do` then copies it to the destination `dstW` and
empties it — on BOTH outcomes of the destination write; `Reset(dstW)` empties it as well before re-targeting. -/

structure SWSt where
  staging : Bytes := []   -- w.xw.bb.B
  dst : Bytes := []       -- what reached the current destination
  deriving DecidableEq, Repr

inductive SWOp
  | run (produced : Bytes) (dstOk : Bool)   -- Write / Flush / Close: the compressor emitted `produced`; the destination write succeeded or failed
  | reset                                    -- Reset(newDst): a pooled writer is re-acquired for another destination
  deriving DecidableEq, Repr

def swStep (s : SWSt) : SWOp → SWSt
  | .run produced dstOk =>
    let buf := s.staging ++ produced
    { staging := [], dst := if dstOk then s.dst ++ buf else s.dst }
  | .reset => { staging := [], dst := [] }

def swRun (ops : List SWOp) : SWSt := ops.foldl swStep {}

end Fh.Model.C22
