/-
Model of the transparent-compression decision logic (C22):
  header.go  RequestHeader.HasAcceptEncodingBytes, ResponseHeader.isCompressibleContentType, addVaryBytes
  http.go    Response.gzipBody / deflateBody / brotliBody / zstdBody
  server.go  CompressHandlerLevel, CompressHandlerBrotliLevel
The codecs (klauspost/compress, andybalholm/brotli) are a parameter structure carrying their round-trip law as a field.
Constants and the handler's preference order come from Gen (regenerated from /repo).  Core Lean only.
-/
import FhVerif.Base.Bytes
import FhVerif.Gen.Consts
import FhVerif.Gen.Compress

namespace Fh.Model.C22

/-- bytes.Index(s, pat) as a split at the FIRST occurrence: `s = pre ++ pat ++ post` -/
def splitFirst (pat : Bytes) : Bytes → Option (Bytes × Bytes)
  | [] => if pat.isEmpty then some ([], []) else none
  | c :: t =>
    if pat.isPrefixOf (c :: t) then some ([], (c :: t).drop pat.length)
    else (splitFirst pat t).map fun r => (c :: r.1, r.2)

def containsBytes (s pat : Bytes) : Bool := (splitFirst pat s).isSome

/-- header.go HasAcceptEncodingBytes: first occurrence of the name in the Accept-Encoding value; what follows must be
    nothing or ','; what precedes must be nothing or ' ' -/
def hasAcceptEncoding (ae name : Bytes) : Bool :=
  match splitFirst name ae with
  | none => false
  | some (pre, post) =>
    (post.isEmpty || post.head? == some 44) && (pre.isEmpty || pre.getLast? == some 32)

/-- header.go isCompressibleContentType -/
def isCompressibleContentType (ct : Bytes) : Bool :=
  Gen.compressibleTypePrefixes.any fun p => p.isPrefixOf ct

def isOWS (c : UInt8) : Bool := c == 32 || c == 9

def trimOWS (b : Bytes) : Bytes := ((b.dropWhile isOWS).reverse.dropWhile isOWS).reverse

def lowerAscii (c : UInt8) : UInt8 := if 65 ≤ c && c ≤ 90 then c + 32 else c

/-- bytes.EqualFold restricted to ASCII (header names are ASCII) -/
def eqFold (a b : Bytes) : Bool := a.map lowerAscii == b.map lowerAscii

/-- split on ',' (every list has at least one element) -/
def splitComma : Bytes → List Bytes
  | [] => [[]]
  | c :: t =>
    if c == 44 then [] :: splitComma t
    else match splitComma t with
      | s :: r => (c :: s) :: r
      | [] => [[c]]

/-- header.go varyContains: is `value` a member of the comma-separated list `v` (OWS trimmed, case-insensitive) -/
def listHasMember (v value : Bytes) : Bool := (splitComma v).any fun m => eqFold (trimOWS m) value

/-- header.go addVaryBytes(strAcceptEncoding); `v` = current Vary value ([] = not set) -/
def addVary (v : Bytes) : Bytes :=
  if v.isEmpty then Gen.strAcceptEncoding
  else if listHasMember v Gen.strAcceptEncoding then v
  else v ++ [44] ++ Gen.strAcceptEncoding

inductive Kind | gzip | deflate | br | zstd
  deriving DecidableEq, Repr

def Kind.name : Kind → Bytes
  | .gzip => Gen.strGzip | .deflate => Gen.strDeflate | .br => Gen.strBr | .zstd => Gen.strZstd

def kindOfName (n : Bytes) : Option Kind :=
  if n = Gen.strGzip then some .gzip else if n = Gen.strDeflate then some .deflate
  else if n = Gen.strBr then some .br else if n = Gen.strZstd then some .zstd else none

/-- the third-party codecs: one-shot (Append*Bytes) and streaming (stackless writer fed chunk by chunk with flushes)
    encoders, the decoders, and the ASSUMED round-trip laws (structure fields, not axioms) -/
structure Codecs where
  enc : Kind → Int → Bytes → Bytes
  encStream : Kind → Int → List Bytes → Bytes
  dec : Kind → Bytes → Option Bytes
  roundtrip : ∀ k l x, dec k (enc k l x) = some x
  roundtripStream : ∀ k l xs, dec k (encStream k l xs) = some xs.flatten

/-- a response body: buffered bytes, or a stream given by its Read results -/
inductive Body
  | buf (b : Bytes)              -- resp.body (SetBody, SetBodyString, AppendBody, Write, BodyWriter): bodyRaw = nil
  | raw (b : Bytes)              -- resp.bodyRaw (SetBodyRaw): bodyBytes() PREFERS it over resp.body
  | stream (reads : List Bytes)
  deriving DecidableEq, Repr

def Body.bytes : Body → Bytes
  | .buf b => b
  | .raw b => b
  | .stream r => r.flatten

structure Resp where
  ce : Bytes        -- Content-Encoding ([] = none)
  ct : Bytes        -- Content-Type
  vary : Bytes      -- Vary ([] = not set)
  clen : Int        -- declared Content-Length of a stream body (-1 = chunked); ignored for buffered bodies
  body : Body
  deriving DecidableEq, Repr

/-- http.go gzipBody/deflateBody/brotliBody/zstdBody (identical up to the codec) -/
def compressBody (c : Codecs) (k : Kind) (level : Int) (r : Resp) : Resp :=
  if !r.ce.isEmpty then r
  else if !isCompressibleContentType r.ct then r
  else
    match r.body with
    | .stream reads =>
      { r with clen := -1, body := .stream [c.encStream k level reads], ce := k.name, vary := addVary r.vary }
    | .buf b =>
      if b.length < Gen.minCompressLen then r
      else { r with body := .buf (c.enc k level b), ce := k.name, vary := addVary r.vary }
    | .raw b =>
      -- bodyBytes := resp.bodyBytes() (= bodyRaw); the compressed buffer becomes resp.body AND resp.bodyRaw = nil,
      -- so that every accessor (Body, bodyBytes, Write) yields the compressed bytes afterwards
      if b.length < Gen.minCompressLen then r
      else { r with body := .buf (c.enc k level b), ce := k.name, vary := addVary r.vary }

def kindOfConst : String → Option Kind
  | "strGzip" => some .gzip | "strDeflate" => some .deflate | "strBr" => some .br | "strZstd" => some .zstd
  | _ => none

/-- the `switch` of the handler wrappers: the first accepted coding in the regenerated order wins -/
def pickKind (order : List String) (ae : Bytes) : Option Kind :=
  match order.filterMap kindOfConst |>.find? (fun k => hasAcceptEncoding ae k.name) with
  | some k => some k
  | none => none

/-- server.go CompressHandlerLevel: runs after the wrapped handler produced `r` -/
def compressHandlerLevel (c : Codecs) (level : Int) (ae : Bytes) (r : Resp) : Resp :=
  match pickKind Gen.compressHandlerOrder ae with
  | some k => compressBody c k level r
  | none => r

/-- server.go CompressHandlerBrotliLevel -/
def compressHandlerBrotliLevel (c : Codecs) (brotliLevel otherLevel : Int) (ae : Bytes) (r : Resp) : Resp :=
  match pickKind Gen.compressHandlerBrotliOrder ae with
  | some .br => compressBody c .br brotliLevel r
  | some k => compressBody c k otherLevel r
  | none => r

/-- what a peer obtains from a response: the body, decoded according to the Content-Encoding it declares when that is
    one of the four codings; any other value (identity, custom) leaves the bytes as they are -/
def decodeResp (c : Codecs) (r : Resp) : Option Bytes :=
  match kindOfName r.ce with
  | some k => c.dec k r.body.bytes
  | none => some r.body.bytes

/-! ### the copy loop behind the streamed compressors

`compress{Gzip,Deflate,Brotli,Zstd}BodyStream` hand the body stream to `copyBodyStream`, whose Read loop is `copyBuffer`
(io.WriterTo streams are delegated to their WriteTo). A stream is the list of its Read results `(bytes, err)`. -/

inductive RdErr | none | eof | fail
  deriving DecidableEq, Repr

/-- http.go copyBuffer: `nr, er := src.Read(buf); if nr > 0 { dst.Write(buf[:nr]) }; if er != nil { … break }` — the bytes of a
    Read are consumed BEFORE its error is looked at. Result: what reached the compressor, and whether an error is returned
    (io.EOF is not an error). -/
def copyBuffer : List (Bytes × RdErr) → Bytes × Bool
  | [] => ([], false)
  | (d, .none) :: rest => let r := copyBuffer rest; (d ++ r.1, r.2)
  | (d, .eof) :: _ => (d, false)
  | (d, .fail) :: _ => (d, true)

/-- compress.go normalizeCompressLevel (index into the pool maps) -/
def normalizeCompressLevel (level : Int) : Int := (if level < -2 ∨ level > 9 then 6 else level) + 2
/-- brotli.go normalizeBrotliCompressLevel (CompressBrotliDefaultCompression = 4) -/
def normalizeBrotliCompressLevel (level : Int) : Int := if level < 0 ∨ level > 11 then 4 else level
/-- zstd.go normalizeZstdCompressLevel: CompressZstdSpeedNotSet (0) is not a level the encoder accepts, it selects the
    default (CompressZstdDefault = 2) like every out-of-range value; CompressZstdBestCompression = 4 -/
def normalizeZstdCompressLevel (level : Int) : Int := if level ≤ 0 ∨ level > 4 then 2 else level

end Fh.Model.C22
