/-
Concrete URL engine for the redirect loop: uri.go URI.parse / URI.updateBytes / URI.String as far as scheme, host,
userinfo and "does it parse" go.  Path, query and fragment are abstracted to one bit (does the rest contain a control
byte), because nothing else about them can influence which host a request goes to: URI.String prints
`Scheme() "://" host RequestURI ["#" hash]` and RequestURI always starts with '/'.

Domain: hosts that start with '[' (IP literals: validateIPv6Literal, zones, in-place unescaping) or contain '%'
(escapes) are NOT modelled; such states are marked `unk` and the driver answers "unmodelled".
-/
import FhVerif.Model.Redirect

namespace Fh.Model.Redir
open Fh.Model

def isCTL (c : UInt8) : Bool := c < 32 || c == 127
def hasCTL (b : Bytes) : Bool := b.any isCTL

def isAlphaB (c : UInt8) : Bool := (97 ≤ c && c ≤ 122) || (65 ≤ c && c ≤ 90)
def isDigitB (c : UInt8) : Bool := 48 ≤ c && c ≤ 57

/-- uri.go isValidScheme -/
def isValidScheme (s : Bytes) : Bool :=
  match s with
  | [] => false
  | c :: rest => isAlphaB c && rest.all (fun c => isAlphaB c || isDigitB c || c == 43 || c == 45 || c == 46)

/-- uri.go validUserinfo -/
def validUserinfoByte (c : UInt8) : Bool :=
  isAlphaB c || isDigitB c ||
  c == 45 || c == 46 || c == 95 || c == 58 || c == 126 || c == 33 || c == 36 || c == 38 || c == 39 || c == 40 ||
  c == 41 || c == 42 || c == 43 || c == 44 || c == 59 || c == 61 || c == 37 || c == 64
def validUserinfo (s : Bytes) : Bool := s.all validUserinfoByte

/-- uri.go shouldEscape(c, encodeHost) -/
def shouldEscapeHost (c : UInt8) : Bool :=
  !(isAlphaB c || isDigitB c ||
    c == 33 || c == 36 || c == 38 || c == 39 || c == 40 || c == 41 || c == 42 || c == 43 || c == 44 || c == 59 ||
    c == 61 || c == 58 || c == 91 || c == 93 || c == 60 || c == 62 || c == 34 ||
    c == 45 || c == 95 || c == 46 || c == 126)

/-- uri.go validOptionalPort on the part from the colon on -/
def validOptionalPort (p : Bytes) : Bool :=
  match p with
  | [] => true
  | c :: rest => c == 58 && rest.all isDigitB

inductive HostRes
  | ok (h : Bytes)
  | err
  | unmodelled
  deriving DecidableEq, Repr

/-- LastIndexByte(':') = i ≥ 0 implies host[:i] has no ':' and host[i:] is a valid optional port:
    there is at most one colon and only digits follow it -/
def portOk (h : Bytes) : Bool :=
  match h.dropWhile (· != 58) with
  | [] => true
  | _ :: after => !after.contains 58 && after.all isDigitB

def startsWithBracket (h : Bytes) : Bool :=
  match h with
  | 91 :: _ => true
  | _ => false

/-- uri.go parseHost for hosts without '[' at the start and without '%' -/
def parseHostLite (h : Bytes) : HostRes :=
  if startsWithBracket h || h.contains 37 then .unmodelled
  else if h.contains 91 || h.contains 93 || !portOk h || h.any (fun c => c < 128 && shouldEscapeHost c) then .err
  else .ok h

/-- the part of a URI value the redirect logic depends on -/
structure PU where
  scheme : Bytes := []     -- as stored (lower case; empty = "http" when printed)
  host : Bytes := []
  user : Bool := false     -- username non-empty
  ctl : Bool := false      -- path / query / fragment contain a control byte (only via the '?' and '#' updates)
  unk : Bool := false      -- left the modelled domain
  deriving DecidableEq, Repr

inductive PRes
  | ok (u : PU)
  | fail (u : PU)     -- parse error; `u` is the state left behind in the URI value
  deriving DecidableEq, Repr

def PRes.state : PRes → PU
  | .ok u => u
  | .fail u => u

/-- the end of URI.parse: what parseHost says about the host after the last '@' -/
def hostResult (scheme hostOnly : Bytes) (user : Bool) : HostRes → PRes
  | .unmodelled => .fail { scheme := scheme, host := hostOnly, user := user, unk := true }
  | .err => .fail { scheme := scheme, host := hostOnly, user := user }
  | .ok h => .ok { scheme := scheme, host := lowercaseBytes h, user := user }

/-- up to and including the last '@' ([] if there is none) -/
def authPart (host : Bytes) : Bytes := (host.reverse.dropWhile (· != 64)).reverse

/-- URI.parse from the '@' handling on (scheme already validated and lower-cased) -/
def parseAuthority (scheme host : Bytes) : PRes :=
  if !(authPart host).isEmpty && !validUserinfo (authPart host).dropLast then .fail { scheme := scheme }
  else
    hostResult scheme (afterLast 64 host)
      (!(authPart host).isEmpty && !((authPart host).dropLast.takeWhile (· != 58)).isEmpty)
      (parseHostLite (afterLast 64 host))

/-- URI.parse after splitHostURI -/
def parseSplit (scheme host : Bytes) : PRes :=
  if !scheme.isEmpty && !isValidScheme scheme then .fail {}
  else parseAuthority (lowercaseBytes scheme) host

/-- uri.go URI.parse(nil, uri, false) -/
def parseURL (uri : Bytes) : PRes :=
  if hasCTL uri then .fail {}
  else parseSplit (splitHostURI [] uri).1 (splitHostURI [] uri).2.1

def PU.schemeOrHTTP (u : PU) : Bytes := if u.scheme.isEmpty then strHTTPb else u.scheme

def strColonSlashSlash : Bytes := [58, 47, 47]

/-- `Scheme() "://" host` -/
def PU.schemeHost (u : PU) : Bytes := u.schemeOrHTTP ++ strColonSlashSlash ++ u.host

/-- uri.go isAuthorityDelimiter(uri, n) where `pre` = uri[:n] -/
def isAuthorityDelimiter (pre : Bytes) : Bool :=
  match pre.reverse with
  | [] => true
  | 58 :: r => r.isEmpty || isValidScheme r.reverse
  | _ => false

/-- the "//" of newURI introduces an authority -/
def isAbsoluteRef (newURI : Bytes) : Bool :=
  match cutSlashSlash newURI with
  | some (pre, _) => isAuthorityDelimiter pre
  | none => false

/-- the absolute branch: a successful parse keeps the old scheme when the reference has none -/
def mergeAbsolute (u : PU) : PRes → PU
  | .fail s => s
  | .ok s => if !u.scheme.isEmpty && s.scheme.isEmpty then { s with scheme := u.scheme } else s

/-- uri.go URI.updateBytes -/
def updateBytes (u : PU) (newURI : Bytes) : PU :=
  if u.unk || newURI.isEmpty then u
  else if isAbsoluteRef newURI then mergeAbsolute u (parseURL newURI)
  else if newURI.head? == some 47 then (parseURL (u.schemeHost ++ newURI)).state
  else if newURI.head? == some 63 || newURI.head? == some 35 then { u with ctl := u.ctl || hasCTL newURI.tail }
  else (parseURL (u.schemeHost ++ [47] ++ newURI)).state     -- the quoted directory is abstracted to "/"

/-- a URL handed from one loop iteration to the next -/
inductive UrlV
  | raw (s : Bytes)                         -- the caller's URL string
  | built (scheme host : Bytes) (ctl unk : Bool)   -- URI.String() of a resolved redirect target
  deriving DecidableEq, Repr

/-- a string with the same scheme, host and parse outcome as the URL (for `built`: the rest is "/" plus a control
    byte when the real rest contains one) -/
def UrlV.str : UrlV → Bytes
  | .raw s => s
  | .built scheme host ctl _ =>
    (if scheme.isEmpty then strHTTPb else scheme) ++ strColonSlashSlash ++ host ++ [47] ++ (if ctl then [1] else [])

def UrlV.unk : UrlV → Bool
  | .raw _ => false
  | .built _ _ _ k => k

/-- getRedirectURL: Update(base); UpdateBytes(location); String() -/
def getRedirect (base : UrlV) (location : Bytes) : PU :=
  updateBytes (updateBytes {} base.str) location

def urlEngine : Engine UrlV where
  parseOk u := match parseURL u.str with | .ok _ => true | .fail _ => false
  userinfo u := match parseURL u.str with | .ok s => s.user | .fail _ => false
  resolve u loc :=
    let s := getRedirect u loc
    (.built s.scheme s.host s.ctl (s.unk || u.unk), s.host)

/-- what Client.Do acts on: scheme and host of the parsed URL -/
def contacted (u : UrlV) : Option (Bytes × Bytes) :=
  match parseURL u.str with
  | .ok s => some (s.schemeOrHTTP, s.host)
  | .fail _ => none

end Fh.Model.Redir
