/-
Model of the path pipeline of fs.go up to the calls into the file system (C23):

  fsHandler.handleRequest   rewriter or ctx.Path(); NUL test; hasDotDotPathSegment when a rewriter is set
  NewVHostPathRewriter / NewPathSlashesStripper / NewPathPrefixStripper, stripLeadingSlashes
  hasDotDotPathSegment      (unix build: '/' is the only separator)
  pathToFilePath            osFS branch and fs.FS branch (roots "", ".", "dir")
  filePathToCompressed, openFSFile / compressAndOpenFSFile / compressFileNolock / openIndexFile / createDirIndex:
                            only the NAMES they hand to Open / Stat / Remove / MkdirAll / CreateTemp / ReadDir
                            (a superset over all file-system states: which of them are really issued depends on
                            what exists; the harness checks the issued ones are among these).

ctx.Path() is Model.normalizePath of the original request path (C26).  Strip counts are naturals (a negative
count makes the Go strippers the identity / panic in the slice expression; configuration, not input).
Windows branches (backslash separator, reserved colon) are not compiled here and not modelled.
-/
import FhVerif.Model.NormPath

namespace Fh.Model

inductive Rewriter where
  | none
  | vhost (n : Nat)
  | slashes (n : Nat)
  | pfx (n : Nat)
deriving DecidableEq, Repr

/-- `path[1:][bytes.IndexByte(path[1:], '/'):]` — the suffix starting at the first '/', `none` if there is none -/
def dropToSlash : Bytes → Option Bytes
  | [] => none
  | c :: t => if c == 47 then some (c :: t) else dropToSlash t

/-- fs.go stripLeadingSlashes; `none` = the "BUG: path must start with slash" panic -/
def stripLeadingSlashes : Nat → Bytes → Option Bytes
  | 0, p => some p
  | _ + 1, [] => some []
  | n + 1, c :: t =>
    if c != 47 then none
    else match dropToSlash t with
      | none => some []
      | some r => stripLeadingSlashes n r

/-- "invalid-host" -/
def strInvalidHost : Bytes := [105, 110, 118, 97, 108, 105, 100, 45, 104, 111, 115, 116]

def vhostHost (host : Bytes) : Bytes :=
  if host.contains 47 || host.isEmpty then strInvalidHost else host

/-- what `h.pathRewrite(ctx)` / `ctx.Path()` returns for the original request path `orig` and host `host` -/
def rewritePath (rw : Rewriter) (host orig : Bytes) : Option Bytes :=
  let p := normalizePath orig
  match rw with
  | .none => some p
  | .slashes n => stripLeadingSlashes n p
  | .pfx n => some (if p.length ≥ n then p.drop n else p)
  | .vhost n =>
    match stripLeadingSlashes n p with
    | none => none
    | some q => some (normalizePath (47 :: (vhostHost host ++ q)))   -- ctx.URI().SetPathBytes(b.B); ctx.Path()

/-- uri.go URI.parse for an origin-form request target: pathOriginal is the target up to the first '?' or '#'
    (a '?' behind the first '#' belongs to the fragment).  u.path = normalizePath(pathOriginal) on every branch:
    regenerated fact `Gen.assigns_URI_parse_path`, used in `Props.C23.uri_parse_always_normalises`. -/
def requestPath (target : Bytes) : Bytes := target.takeWhile (fun c => c != 63 && c != 35)

/-- fs.go hasDotDotPathSegment on the unix build: some '/'-separated segment is ".." -/
def hasDotDot (path : Bytes) : Bool := (splitSlash path).any isDD

def hasTrailingSlash (path : Bytes) : Bool := path.getLast? == some 47
def hasLeadingSlash (path : Bytes) : Bool := path.head? == some 47

def dotRoot : Bytes := [46]

/-- fs.go pathToFilePath (filepath.FromSlash is the identity on unix) -/
def pathToFilePath (osfs : Bool) (root path : Bytes) : Bytes :=
  let path := if hasTrailingSlash path then path.dropLast else path
  let lead := hasLeadingSlash path
  if osfs then
    root ++ (if lead then path else (if root != [] && path != [] then [47] else []) ++ path)
  else
    let root' := if root == dotRoot then [] else root
    if path == [] || (lead && path.length == 1) then
      (if root == dotRoot then dotRoot else root')
    else
      let q := if lead then path.drop 1 else path
      if root' == [] then q else root' ++ 47 :: q

structure FsCfg where
  osfs : Bool
  root : Bytes            -- fsHandler.root (after normalizeRoot)
  croot : Bytes           -- fsHandler.compressRoot (= root when CompressRoot is unset)
  rw : Rewriter
  suffix : Bytes          -- compressedFileSuffixes[fileEncoding] of the request's encoding
  indexNames : List Bytes
  genIndex : Bool

inductive Outcome where
  | panic                               -- stripLeadingSlashes panicked (never: `strip_no_panic`)
  | badRequest                          -- NUL byte: 400
  | dotdot                              -- ".." segment after rewriting: 500
  | serve (path filePath : Bytes)       -- goes on to the cache / openFSFile with this file path
deriving DecidableEq, Repr

/-- fsHandler.handleRequest up to `h.pathToFilePath` -/
def handlePath (cfg : FsCfg) (host orig : Bytes) : Outcome :=
  match rewritePath cfg.rw host orig with
  | none => .panic
  | some path =>
    if path.contains 0 then .badRequest
    else if cfg.rw != .none && hasDotDot path then .dotdot
    else .serve path (pathToFilePath cfg.osfs cfg.root path)

/-- the same, from the raw request target of the request line -/
def handleTarget (cfg : FsCfg) (host target : Bytes) : Outcome := handlePath cfg host (requestPath target)

inductive FsOp where
  | open_ | stat | remove | mkdirAll | createTemp | readDir
deriving DecidableEq, Repr

/-- fs.go filePathToCompressed -/
def filePathToCompressed (cfg : FsCfg) (fp : Bytes) : Bytes :=
  if cfg.root == cfg.croot then fp
  else if !(cfg.root.isPrefixOf fp) then fp
  else cfg.croot ++ fp.drop cfg.root.length

/-- everything before the last '/' (filepath.Dir before its Clean; the whole string has no '/' ⇒ empty) -/
def dirOf : Bytes → Bytes
  | [] => []
  | c :: t => if t.contains 47 then c :: dirOf t else []

/-- ".tmp-" : os.CreateTemp(dir, base + ".tmp-*") creates dir/base.tmp-<decimal digits> -/
def tmpMark : Bytes := [46, 116, 109, 112, 45]

/-- os.MkdirAll(filepath.Dir(compressedFilePath)) when the compressed copy lives elsewhere -/
def mkdirNames (c fp : Bytes) : List (FsOp × Bytes) :=
  if c != fp then [(.mkdirAll, dirOf c)] else []

/-- compressFileNolock + newCompressedFSFile on the compressed file path `cz` = c ++ suffix -/
def tmpNames (cz : Bytes) : List (FsOp × Bytes) :=
  [(.stat, cz), (.createTemp, cz ++ tmpMark), (.remove, cz ++ tmpMark), (.open_, cz)]

/-- names used by compressAndOpenFSFile + compressFileNolock + newCompressedFSFile for original file `fp` -/
def compressNames (cfg : FsCfg) (fp : Bytes) : List (FsOp × Bytes) :=
  (.open_, fp) ::
  (if cfg.osfs then
    mkdirNames (filePathToCompressed cfg fp) fp ++ tmpNames (filePathToCompressed cfg fp ++ cfg.suffix)
   else [])

/-- the compressed-suffix probe of openFSFile: Open(fp+suffix), fs.Stat(fp), os.Remove(fp+suffix) when stale,
    then compressAndOpenFSFile -/
def probeNames (cfg : FsCfg) (fp : Bytes) : List (FsOp × Bytes) :=
  (.open_, fp ++ cfg.suffix) :: (.stat, fp) :: (.remove, fp ++ cfg.suffix) :: compressNames cfg fp

/-- names used by openFSFile(fp, mustCompress) including the uncompressed retry of its callers.
    The root directory itself is opened without the compressed suffix
    (fix: "FS does not probe <root><compressed suffix>"). -/
def openNames (cfg : FsCfg) (mc : Bool) (fp : Bytes) : List (FsOp × Bytes) :=
  (if mc && fp != cfg.root then probeNames cfg fp else []) ++ [(.open_, fp)]

def readDirNames (cfg : FsCfg) (dp : Bytes) : List (FsOp × Bytes) :=
  if cfg.genIndex then [(.readDir, if dp == [] then dotRoot else dp)] else []

/-- openIndexFile + createDirIndex for directory `dp` -/
def indexNamesOf (cfg : FsCfg) (mc : Bool) (dp : Bytes) : List (FsOp × Bytes) :=
  (cfg.indexNames.flatMap fun ix => openNames cfg mc (if dp != [] then dp ++ 47 :: ix else ix)) ++
  readDirNames cfg dp

/-- every (operation, name) the handler may hand to the file system for this request -/
def fsNames (cfg : FsCfg) (mc : Bool) (host orig : Bytes) : List (FsOp × Bytes) :=
  match handlePath cfg host orig with
  | .serve _ fp => openNames cfg mc fp ++ indexNamesOf cfg mc fp
  | _ => []

end Fh.Model
