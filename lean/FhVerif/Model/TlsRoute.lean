/-
Model of the decision logic that routes a client request to a connection (client.go): Client.Do (scheme test, the
`m` / `ms` maps keyed by host, HostClient construction with AddMissingPort and IsTLS), HostClient.doNonNilReqResp
(the IsTLS / scheme check), AcquireConn (idle pool or dialHostHard), dialAddr (TLS wrapping iff IsTLS), the release of
the connection after the response, and LBClient (pass-through to the chosen HostClient).

Not modelled (residue of C21): the TLS handshake itself - `Conn.tls` records that dialAddr took the
tls.Client / tlsClientHandshake path for this connection, not what the handshake negotiated.
-/
import FhVerif.Base.Bytes

namespace Fh.Model.TlsRoute

def strHTTP : Bytes := [104, 116, 116, 112]
def strHTTPS : Bytes := [104, 116, 116, 112, 115]

/-- URI.isHTTPS on the stored (lower-cased) scheme -/
def isHTTPS (scheme : Bytes) : Bool := scheme == strHTTPS
/-- URI.isHTTP -/
def isHTTP (scheme : Bytes) : Bool := scheme.isEmpty || scheme == strHTTP

def port80 : Bytes := [58, 56, 48]
def port443 : Bytes := [58, 52, 52, 51]

/-- strings.LastIndexByte(addr, ':') > 0 -/
def colonAfterFirst (addr : Bytes) : Bool :=
  match addr with
  | [] => false
  | _ :: rest => rest.contains 58

/-- client.go AddMissingPort -/
def addMissingPort (addr : Bytes) (isTLS : Bool) : Bytes :=
  match addr with
  | [] => addr
  | c :: _ =>
    let port := if isTLS then port443 else port80
    if c == 91 then
      (if addr.getLast? == some 93 then addr ++ port else addr)
    else if colonAfterFirst addr then addr
    else addr ++ port

/-- a connection as dialAddr returned it -/
structure Conn where
  addr : Bytes     -- the address it was dialled for
  tls : Bool       -- dialAddr wrapped it with tls.Client
  owner : Nat      -- the HostClient that dialled it
  deriving DecidableEq, Repr

structure HC where
  addr : Bytes
  isTLS : Bool
  pool : List Nat   -- idle connections, most recently released last (LIFO)
  /-- cachedTLSConfig(addr) succeeds: a TLS server name can be derived from the address, or TLSConfig names one, or
      InsecureSkipVerify is set.  A property of the address and the configuration, NOT of earlier calls: a failed
      lookup is not cached, so it fails on every call. -/
  cfgOk : Bool := true
  deriving DecidableEq, Repr

structure St where
  m : List (Bytes × Nat) := []      -- Client.m  : host -> HostClient (plaintext)
  ms : List (Bytes × Nat) := []     -- Client.ms : host -> HostClient (TLS)
  hcs : List HC := []               -- every HostClient (made by the Client or by the caller)
  conns : List Conn := []           -- every connection ever dialled; the id is the index
  deriving Repr

inductive Res
  | err                -- any other error (unsupported protocol, invalid host, dial error)
  | mismatch           -- ErrHostClientRedirectToDifferentScheme
  | wrote (conn : Nat) -- the request was written to this connection
  deriving DecidableEq, Repr

/-- HostClient.Do for one attempt: scheme check, AcquireConn, write, then ReleaseConn (`keep`) or CloseConn.
    `dialOk` is the environment: does dialling this address succeed. -/
def hcDo (dialOk : Bytes → Bool) (s : St) (i : Nat) (scheme : Bytes) (keep : Bool) : St × Res :=
  match s.hcs[i]? with
  | none => (s, .err)
  | some hc =>
    if hc.isTLS != isHTTPS scheme then (s, .mismatch)
    else
      match hc.pool.getLast? with
      | some id =>
        let pool := if keep then hc.pool else hc.pool.dropLast
        ({ s with hcs := s.hcs.set i { hc with pool := pool } }, .wrote id)
      | none =>
        -- dialHostHard: for IsTLS the config lookup comes first; its failure is an error and nothing is dialled.
        -- dialAddr then wraps the dialled connection in TLS iff isTLS - the config plays no part in that decision.
        if (hc.isTLS && !hc.cfgOk) || !dialOk hc.addr then (s, .err)
        else
          let id := s.conns.length
          let pool := if keep then [id] else []
          ({ s with hcs := s.hcs.set i { hc with pool := pool },
                    conns := s.conns ++ [⟨hc.addr, hc.isTLS, i⟩] }, .wrote id)

def lookup (k : Bytes) : List (Bytes × Nat) → Option Nat
  | [] => none
  | (k', v) :: rest => if k' == k then some v else lookup k rest

/-- Client.Do: scheme test, choice of `m` / `ms`, HostClient creation, then HostClient.Do -/
def clientDo (dialOk : Bytes → Bool) (s : St) (scheme host : Bytes) (keep : Bool) (cfgOk : Bool := true) : St × Res :=
  if host.contains 44 then (s, .err)
  else if !isHTTPS scheme && !isHTTP scheme then (s, .err)
  else
    let isTLS := isHTTPS scheme
    match lookup host (if isTLS then s.ms else s.m) with
    | some i => hcDo dialOk s i scheme keep
    | none =>
      let i := s.hcs.length
      let hc : HC := ⟨addMissingPort host isTLS, isTLS, [], cfgOk⟩
      let s' : St := if isTLS then { s with hcs := s.hcs ++ [hc], ms := (host, i) :: s.ms }
                     else { s with hcs := s.hcs ++ [hc], m := (host, i) :: s.m }
      hcDo dialOk s' i scheme keep

/-- what the harness does -/
inductive Op
  | newHC (addr : Bytes) (isTLS : Bool) (cfgOk : Bool := true)  -- a caller-made HostClient
  | client (scheme host : Bytes) (keep : Bool) (cfgOk : Bool := true)   -- Client.Do (also every hop of Client.DoRedirects); cfgOk: of the HostClient it may create
  | closeIdle (i : Nat)                                         -- HostClient.CloseIdleConnections on hcs[i]: its idle list is emptied (the connections are closed, never handed to anyone else)
  | host (i : Nat) (scheme : Bytes) (keep : Bool)               -- HostClient.Do on hcs[i] (also every hop of HostClient.DoRedirects, and LBClient after its choice of i)
  deriving DecidableEq, Repr

def step (dialOk : Bytes → Bool) (s : St) : Op → St × Option Res
  | .newHC addr isTLS cfgOk => ({ s with hcs := s.hcs ++ [⟨addr, isTLS, [], cfgOk⟩] }, none)
  | .client scheme host keep cfgOk => let r := clientDo dialOk s scheme host keep cfgOk; (r.1, some r.2)
  | .closeIdle i =>
    match s.hcs[i]? with
    | some hc => ({ s with hcs := s.hcs.set i { hc with pool := [] } }, none)
    | none => (s, none)
  | .host i scheme keep => let r := hcDo dialOk s i scheme keep; (r.1, some r.2)

/-- run a list of operations, collecting (operation, result, state after) -/
def run (dialOk : Bytes → Bool) : St → List Op → List (Op × Option Res × St)
  | _, [] => []
  | s, op :: rest => let r := step dialOk s op; (op, r.2, r.1) :: run dialOk r.1 rest

end Fh.Model.TlsRoute

namespace Fh.Model.TlsRoute

/-- HostClient.Do's retry loop.  `hcDo` is ONE ATTEMPT (doNonNilReqResp: scheme check, AcquireConn, write, read).
    Between attempts the retry hooks (RetryIf / RetryIfErr / RetryIfErrUpstream) run with the request in hand and
    may rewrite it: the script gives, per attempt, the scheme the request has when the attempt starts and whether the
    attempt fails retriably after the write (peer closes before answering; the connection is then closed).
    Another attempt happens only after such a failure. -/
def retryOn (dialOk : Bytes → Bool) (s : St) (i : Nat) : List (Bytes × Bool × Bool) → St × List Res
  | [] => (s, [])
  | (scheme, keep, fails) :: rest =>
    let r := hcDo dialOk s i scheme (keep && !fails)
    match r.2 with
    | .wrote id =>
      if fails then
        let t := retryOn dialOk r.1 i rest
        (t.1, .wrote id :: t.2)
      else (r.1, [.wrote id])
    | x => (r.1, [x])

end Fh.Model.TlsRoute
