/-
Model of graceful shutdown (server.go Serve / serveConn / ShutdownWithContext / closeIdleConns):
the `open` gauge = 1 per running Serve + 1 per connection being served; connections move through the loop positions;
Shutdown sets `stop`, closes the listeners and the Done channel, closes idle connections on every tick and returns nil
only when it reads `open = 0`.
-/
import FhVerif.Base.Bytes

namespace Fh.Model

inductive ConnPhase
  | idle          -- between requests / waiting for the first byte (idle stamp set)
  | reading       -- a request is being read
  | inHandler
  | writing       -- the handler returned, the response is being written
  | buffered      -- the response sits in the write buffer and a further pipelined request was already read: the loop goes
                  -- on at once; NO idle stamp (server.go sets it only when `br == nil || br.Buffered() == 0`, Gen fact)
  | done          -- serveConn returned (connection closed or hijacked away)
  deriving DecidableEq, Repr

structure SDState where
  listenerOpen : Bool := true
  serveRunning : Bool := true
  stop : Bool := false
  doneClosed : Bool := false
  conns : List ConnPhase := []
  open_ : Nat := 1            -- s.open
  answered : Nat := 0         -- responses written for handlers that ran
  started : Nat := 0          -- handlers started
  returnedNil : Bool := false
  deriving Repr

inductive SDEvent
  | accept                       -- Serve accepts a connection: open++
  | firstByte (i : Nat)          -- idle → reading
  | headerDone (i : Nat)         -- reading → inHandler
  | handlerReturn (i : Nat)      -- inHandler → writing
  | responseWritten (i : Nat)    -- writing → idle, or → done when stop is set / close requested
  | responseBuffered (i : Nat)   -- writing → buffered (not flushed: more requests are already buffered)
  | bufferedNext (i : Nat)       -- buffered → done when stop is set (flush, then the loop ends), else → reading (the
                                 -- buffered response leaves with the next flush)
  | connError (i : Nat)          -- reading → done (EOF, timeout, parse error)
  | shutdownBegin                -- stop := 1, listeners closed, Done closed
  | closeIdleTick                -- closeIdleConns: every idle connection is closed and its loop ends
  | serveReturn                  -- Serve notices the closed listener and returns: open--
  | shutdownPoll                 -- reads open; returns nil iff 0

def closeIdle (p : ConnPhase) : ConnPhase := if p = .idle then .done else p

def setPhase (l : List ConnPhase) (i : Nat) (p : ConnPhase) : List ConnPhase := l.set i p

/-- `none` = the event is not enabled in this state -/
def sdStep (s : SDState) : SDEvent → Option SDState
  | .accept =>
    if s.listenerOpen && s.serveRunning then some { s with conns := s.conns ++ [.idle], open_ := s.open_ + 1 } else none
  | .firstByte i =>
    if s.conns[i]? = some .idle then some { s with conns := setPhase s.conns i .reading } else none
  | .headerDone i =>
    if s.conns[i]? = some .reading then some { s with conns := setPhase s.conns i .inHandler, started := s.started + 1 } else none
  | .handlerReturn i =>
    if s.conns[i]? = some .inHandler then some { s with conns := setPhase s.conns i .writing } else none
  | .responseWritten i =>
    if s.conns[i]? = some .writing then
      if s.stop then some { s with conns := setPhase s.conns i .done, open_ := s.open_ - 1, answered := s.answered + 1 }
      else some { s with conns := setPhase s.conns i .idle, answered := s.answered + 1 }
    else none
  | .responseBuffered i =>
    if s.conns[i]? = some .writing then some { s with conns := setPhase s.conns i .buffered } else none
  | .bufferedNext i =>
    if s.conns[i]? = some .buffered then
      if s.stop then some { s with conns := setPhase s.conns i .done, open_ := s.open_ - 1, answered := s.answered + 1 }
      else some { s with conns := setPhase s.conns i .reading, answered := s.answered + 1 }
    else none
  | .connError i =>
    if s.conns[i]? = some .reading then some { s with conns := setPhase s.conns i .done, open_ := s.open_ - 1 } else none
  | .shutdownBegin =>
    some { s with stop := true, listenerOpen := false, doneClosed := true }
  | .closeIdleTick =>
    if s.stop then
      let nIdle := (s.conns.filter (· == .idle)).length
      some { s with conns := s.conns.map closeIdle, open_ := s.open_ - nIdle }
    else none
  | .serveReturn =>
    if s.serveRunning && !s.listenerOpen then some { s with serveRunning := false, open_ := s.open_ - 1 } else none
  | .shutdownPoll =>
    if s.stop && s.open_ = 0 then some { s with returnedNil := true } else if s.stop then some s else none

def sdRun : SDState → List SDEvent → Option SDState
  | s, [] => some s
  | s, e :: rest => match sdStep s e with
    | none => none
    | some s' => sdRun s' rest

def live (l : List ConnPhase) : Nat := (l.filter (· != .done)).length

end Fh.Model
