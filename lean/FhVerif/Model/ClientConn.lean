/-
Model of one client round trip on a pooled connection (client.go transport.RoundTrip, the streamed-response close
callback; http.go Response.ReadLimitBody / ReadBody; streaming.go requestStream) and of the pool of idle connections.

A connection is its unread server→client bytes (`wire`).  Bytes that sit in the client's bufio.Reader when the reader
goes back to its pool are dropped (`AcquireReader` resets it): that is the `ahead` parameter of a call.

The response head parser is a parameter (`Framing.parseHead`: what `ResponseHeader.Read` does — DESIGN §4, external
calls are parameters with recorded assumptions): on a byte stream it returns the length of the head, the declared
body length and the `Connection: close` flag, or `none` (needs more bytes / malformed).  `wfResp` says what a
well-behaved server sends for one request: a head the parser recognises whatever follows it, followed by exactly the
declared body (no body for a HEAD request).

One exchange, as the environment determines it: the server produces `resp`, of which `arrive` bytes reach the client
before it stops waiting (read deadline / EOF); the remainder arrives later (`later = true`: the server stalled) or
never (the server closed the connection).

`Cfg.requireDrained` = the release-vs-close decision of the stream close callback also requires the stream to have
reached its end (the repaired tree); `Cfg.headSkips` = the reader skips the body of the response to a HEAD request
(HostClient always did; pipelineConnClient does in the repaired tree).
-/
import FhVerif.Base.Bytes

namespace Fh.Model.CC
open Fh

structure Framing where
  parseHead : Bytes → Option (Nat × Nat × Bool)

structure Cfg where
  maxBody : Nat              -- MaxResponseBodySize (0 = unlimited)
  requireDrained : Bool
  headSkips : Bool
  deriving DecidableEq, Repr

structure Call where
  isHead : Bool              -- the request is HEAD
  reqClose : Bool            -- the request carries Connection: close (or MaxConnDuration forced it)
  stream : Bool              -- resp.StreamBody / StreamResponseBody
  readK : Nat                -- bytes the caller reads from the body stream before closing it
  ahead : Nat                -- read-ahead sitting in the bufio.Reader when it is released
  wErr : Bool                -- the stream is closed with an error (closeBodyStream(wErr ≠ nil))
  writeFails : Bool          -- req.Write(bw) / Flush fails (a request body stream that breaks, a write error): part of the
                             -- request may be on the connection — it is dirty and must never be pooled
  deriving DecidableEq, Repr

inductive Outcome
  | ok (hd body : Bytes)     -- the call succeeded: head bytes parsed, body bytes delivered to the caller
  | err
  deriving DecidableEq, Repr

structure RT where
  out : Outcome
  release : Bool             -- ReleaseConn (true) or CloseConn (false)
  rest : Bytes               -- unread bytes left in the connection
  deriving DecidableEq, Repr

/-- transport.RoundTrip after the request was written: read the response from `wire ++ (what arrives in time)`,
    decide release-vs-close -/
def roundTrip (F : Framing) (cfg : Cfg) (wire : Bytes) (c : Call) (resp : Bytes) (arrive : Nat) (later : Bool) : RT :=
  if c.writeFails then ⟨.err, false, []⟩ else                   -- request write error → CloseConn
  let seen := wire ++ resp.take arrive
  let late := if later then resp.drop arrive else []
  match F.parseHead seen with
  | none => ⟨.err, false, []⟩                                  -- ReadLimitBody error → CloseConn
  | some (hl, bl, cl) =>
    let hd := seen.take hl
    let after := seen.drop hl
    let tooLarge := decide (0 < cfg.maxBody ∧ cfg.maxBody < bl)
    if c.isHead && cfg.headSkips then
      ⟨.ok hd [], !(c.reqClose || cl), after ++ late⟩          -- SkipBody: nothing after the head is consumed
    else if !c.stream then
      if tooLarge then ⟨.err, false, []⟩                        -- ErrBodyTooLarge → CloseConn
      else if after.length < bl then ⟨.err, false, []⟩          -- EOF / timeout inside the body → CloseConn
      else ⟨.ok hd (after.take bl), !(c.reqClose || cl), after.drop bl ++ late⟩
    else if !tooLarge then
      -- StreamBody, but the body fits MaxResponseBodySize: read completely, then offered as a bytes.Reader
      if after.length < bl then ⟨.err, false, []⟩
      else ⟨.ok hd ((after.take bl).take c.readK), !(c.reqClose || cl || c.wErr), after.drop bl ++ late⟩
    else
      -- really streamed (requestStream): the caller reads k bytes, then closes the stream
      let k := min c.readK (min bl after.length)
      let drained := k == bl
      ⟨.ok hd (after.take k), !(c.reqClose || cl || c.wErr) && (drained || !cfg.requireDrained),
        after.drop (k + c.ahead) ++ late⟩

/-- what a well-behaved server sends for one request -/
def wfResp (F : Framing) (isHead : Bool) (resp : Bytes) : Prop :=
  ∃ hl bl cl, (if isHead then hl = resp.length else hl + bl = resp.length) ∧
    (∀ st, resp.take hl <+: st → F.parseHead st = some (hl, bl, cl)) ∧
    (∀ n, n < hl → F.parseHead (resp.take n) = none)

/-! ## the pool -/

structure Conn where
  id : Nat
  wire : Bytes
  deriving DecidableEq, Repr

structure LogEntry where
  tag : Nat
  resp : Bytes               -- what the server produced for this request
  out : Outcome
  deriving DecidableEq, Repr

structure State where
  pool : List Conn
  nextId : Nat
  log : List LogEntry
  deriving DecidableEq, Repr

def init : State := ⟨[], 0, []⟩

/-- one call: take idle connection number `pick` (any — LIFO/FIFO/concurrent callers all are some choice) or dial a
    new one, do the round trip, release or close -/
structure Event where
  tag : Nat
  pick : Option Nat
  call : Call
  resp : Bytes
  arrive : Nat
  later : Bool
  deriving DecidableEq, Repr

def step (F : Framing) (cfg : Cfg) (s : State) (e : Event) : Option State :=
  match e.pick with
  | none =>
    let r := roundTrip F cfg [] e.call e.resp e.arrive e.later
    some { pool := if r.release then s.pool ++ [⟨s.nextId, r.rest⟩] else s.pool,
           nextId := s.nextId + 1, log := s.log ++ [⟨e.tag, e.resp, r.out⟩] }
  | some i =>
    match s.pool[i]? with
    | none => none
    | some c =>
      let r := roundTrip F cfg c.wire e.call e.resp e.arrive e.later
      some { pool := if r.release then s.pool.eraseIdx i ++ [⟨c.id, r.rest⟩] else s.pool.eraseIdx i,
             nextId := s.nextId, log := s.log ++ [⟨e.tag, e.resp, r.out⟩] }

def run (F : Framing) (cfg : Cfg) (s : State) : List Event → Option State
  | [] => some s
  | e :: es => (step F cfg s e).bind fun s' => run F cfg s' es

/-! ## pipelined reading: consecutive responses on one stream -/

/-- `Response.Read` of the pipeline reader on the stream of everything the server sent: (outcome, bytes consumed) -/
def readOne (F : Framing) (cfg : Cfg) (st : Bytes) (isHead : Bool) : Outcome × Nat :=
  match F.parseHead st with
  | none => (.err, 0)
  | some (hl, bl, _) =>
    if isHead && cfg.headSkips then (.ok (st.take hl) [], hl)
    else if (st.drop hl).length < bl then (.err, 0)
    else (.ok (st.take hl) ((st.drop hl).take bl), hl + bl)

/-- read the responses for the requests `heads` (isHead flags in the order written) off the stream -/
def readAll (F : Framing) (cfg : Cfg) : Bytes → List Bool → List Outcome
  | _, [] => []
  | st, h :: hs =>
    match readOne F cfg st h with
    | (.err, _) => [.err]                       -- the reader returns; the rest is answered by the worker
    | (o, n) => o :: readAll F cfg (st.drop n) hs

/-- everything the server sends on one connection for the requests `rs` (isHead flag, response), in order -/
def streamOf : List (Bool × Bytes) → Bytes
  | [] => []
  | r :: rs => r.2 ++ streamOf rs

/-! ## a toy framing for the driver and the non-vacuity examples: head = [tag, lenHi, lenLo, close] -/

def toyParse : Bytes → Option (Nat × Nat × Bool)
  | _ :: hi :: lo :: c :: _ => some (4, hi.toNat * 256 + lo.toNat, c != 0)
  | _ => none

def toy : Framing := ⟨toyParse⟩

def toyBody (tag : Nat) (n : Nat) : Bytes := (List.range n).map fun i => UInt8.ofNat ((tag * 7 + i) % 251)

/-- the toy response for `tag`: head, and the body unless the request was HEAD -/
def toyResp (tag bodyLen : Nat) (close isHead : Bool) : Bytes :=
  [UInt8.ofNat tag, UInt8.ofNat (bodyLen / 256), UInt8.ofNat (bodyLen % 256), if close then 1 else 0] ++
    (if isHead then [] else toyBody tag bodyLen)

end Fh.Model.CC
