/-
RFC 3986 §5.2.4 remove_dot_segments on an absolute path, written as the stack machine of the RFC over the
path's segments ("/s1/…/sn"): a complete segment "." is dropped, ".." drops it and the last output segment;
when either is the final segment the output keeps a trailing "/".
-/
import FhVerif.Base.Bytes
namespace Fh.Spec

def dot : List UInt8 := [46]
def dotdot : List UInt8 := [46, 46]

/-- `st` = output segments so far, most recent first -/
def rds : List (List UInt8) → List (List UInt8) → List (List UInt8)
  | st, [] => st.reverse
  | st, [s] =>
    if s == dot then st.reverse ++ [[]]
    else if s == dotdot then st.tail.reverse ++ [[]]
    else (s :: st).reverse
  | st, s :: t =>
    if s == dot then rds st t
    else if s == dotdot then rds st.tail t
    else rds (s :: st) t

def removeDotSegments (segs : List (List UInt8)) : List (List UInt8) := rds [] segs

end Fh.Spec
