/-
Reference: an ordered multimap of (key, value, has '=') entries with the textbook operations (C28).
-/
import FhVerif.Base.Bytes
namespace Fh.Spec

structure Entry where
  key : List UInt8
  value : Option (List UInt8)   -- none = entry without '='
  deriving DecidableEq, Repr

abbrev MM := List Entry

def MM.add (m : MM) (k : List UInt8) (v : Option (List UInt8)) : MM := m ++ [⟨k, v⟩]

/-- Set replaces the first entry with that key (appending when there is none) -/
def MM.set (m : MM) (k : List UInt8) (v : Option (List UInt8)) : MM :=
  match m.findIdx? (·.key = k) with
  | some i => List.set m i ⟨k, v⟩
  | none => m ++ [⟨k, v⟩]

/-- Del removes every entry with that key while keeping the order of the rest -/
def MM.del (m : MM) (k : List UInt8) : MM := m.filter (·.key ≠ k)

def MM.peek (m : MM) (k : List UInt8) : Option (List UInt8) := (m.find? (·.key = k)).map (·.value.getD [])
def MM.peekMulti (m : MM) (k : List UInt8) : List (List UInt8) := (m.filter (·.key = k)).map (·.value.getD [])
def MM.has (m : MM) (k : List UInt8) : Bool := m.any (·.key = k)

end Fh.Spec
