/-
Reference HTTP/1.1 response reader (RFC 9112 §6.3 rules for responses), on top of the line-level head reader:
no body for responses to HEAD and for 1xx / 204 / 304; otherwise `Content-Length: n` ⇒ exactly n bytes;
(chunked bodies are the subject of C34; "until close" bodies end the connection).  Independent of fasthttp's writer.
-/
import FhVerif.Spec.HeadLines

namespace Fh.Spec

def rpLower (c : UInt8) : UInt8 := if 65 ≤ c && c ≤ 90 then c + 32 else c
def rpIsDigit (c : UInt8) : Bool := 48 ≤ c && c ≤ 57
def rpNat (b : List UInt8) : Nat := b.foldl (fun a c => 10 * a + (c.toNat - 48)) 0

/-- status code of a status line `HTTP/x.y SP 3DIGIT ...` -/
def rpStatus (first : List UInt8) : Option Nat :=
  match first.drop 8 with
  | 32 :: a :: b :: c :: _ => if rpIsDigit a && rpIsDigit b && rpIsDigit c then some (rpNat [a, b, c]) else none
  | _ => none

/-- value of the first Content-Length field, if it is a decimal number -/
def rpContentLength : List (List UInt8 × List UInt8) → Option Nat
  | [] => none
  | (k, v) :: rest =>
    if k.map rpLower == Fh.ofString "content-length" then
      (if !v.isEmpty && v.all rpIsDigit then some (rpNat v) else none)
    else rpContentLength rest

def rpNoBody (method : List UInt8) (status : Nat) : Bool :=
  method == Fh.ofString "HEAD" || status < 200 || status == 204 || status == 304

structure Resp where
  first : List UInt8
  fields : List (List UInt8 × List UInt8)
  body : List UInt8
  rest : List UInt8      -- what follows the message on the connection
  deriving DecidableEq, Repr

/-- one response with a Content-Length (or bodiless) framing from the front of `b`; none = cannot be framed that way -/
def parseResponse (method : List UInt8) (b : List UInt8) : Option Resp :=
  match parseHead b with
  | none => none
  | some h =>
    match rpStatus h.first with
    | none => none
    | some st =>
      if rpNoBody method st then some ⟨h.first, h.fields, [], h.rest⟩
      else match rpContentLength h.fields with
        | none => none
        | some n => if h.rest.length < n then none else some ⟨h.first, h.fields, h.rest.take n, h.rest.drop n⟩

end Fh.Spec
