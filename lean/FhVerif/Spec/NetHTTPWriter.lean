/-
Reference for C36, written from the documentation of net/http (http.ResponseWriter, http.Flusher, http.Request,
http.ReadRequest) — NOT from fasthttpadaptor.  Validated against net/http's real server on every run (harness c36).

Part 1: the ResponseWriter contract over handler programs.
  * WriteHeader(1xx), except 101, sends an informational response and does NOT fix the status.
  * The first WriteHeader with a final code, or the first Write, or the first Flush fixes the status
    (200 for Write/Flush) AND snapshots the header map; WriteHeader calls after that are superfluous and
    changes to the header map after that are ignored (trailers are outside C36).
  * A handler that returns without any of them gets status 200 with the header map as it is then.
  * Bodies are dropped for 1xx/204/304.
Part 2: what http.ReadRequest makes of a (tokenised) request: Host lives in r.Host (URL authority for
  absolute-form targets), is removed from r.Header; Transfer-Encoding is removed from r.Header; ProtoMajor/Minor
  come from the request line; a lone `Pragma: no-cache` adds `Cache-Control: no-cache`.
Header names are taken as already canonical (the driver canonicalises with Spec.canonicalMIMEHeaderKey, C32).
-/
import FhVerif.Base.Bytes

namespace Fh.Spec.NH
open Fh

/-- header map as an ordered list of (name, value); only the per-name value order is observable -/
abbrev Hdr := List (Bytes × Bytes)

def Hdr.add (h : Hdr) (k v : Bytes) : Hdr := h ++ [(k, v)]
def Hdr.del (h : Hdr) (k : Bytes) : Hdr := h.filter (fun e => e.1 ≠ k)
def Hdr.set (h : Hdr) (k v : Bytes) : Hdr := (Hdr.del h k) ++ [(k, v)]
/-- the values of one field, in order (http.Header.Values) -/
def Hdr.values (h : Hdr) (k : Bytes) : List Bytes := (h.filter (fun e => e.1 = k)).map (·.2)

/-- one step of a handler -/
inductive HOp
  | writeHeader (c : Nat)
  | add (k v : Bytes)
  | set (k v : Bytes)
  | del (k : Bytes)
  | write (b : Bytes)
  | flush
deriving DecidableEq, Repr

/-- codes WriteHeader accepts (others panic: not a handler behaviour) -/
def validCode (c : Nat) : Bool := 100 ≤ c && c ≤ 999
/-- informational codes: sent at once, do not fix the status (101 Switching Protocols is final) -/
def informational (c : Nat) : Bool := 100 ≤ c && c ≤ 199 && c != 101
def bodyAllowed (c : Nat) : Bool := !(100 ≤ c && c ≤ 199) && c != 204 && c != 304

structure Resp where
  status : Nat
  header : Hdr
  body : Bytes
deriving DecidableEq, Repr

structure St where
  hdr : Hdr := []                       -- the live map returned by Header()
  fixed : Option (Nat × Hdr) := none    -- status and header snapshot once fixed
  interim : List (Nat × Hdr) := []      -- informational responses sent so far
  body : Bytes := []
  panicked : Bool := false
deriving Repr

def St.fix (s : St) (c : Nat) : St :=
  match s.fixed with
  | some _ => s
  | none => { s with fixed := some (c, s.hdr) }

def St.status (s : St) : Nat := match s.fixed with | some (c, _) => c | none => 200

def step (s : St) : HOp → St
  | .writeHeader c =>
    match s.fixed with
    | some _ => s                                              -- superfluous WriteHeader: logged, ignored
    | none =>
      if !validCode c then { s with panicked := true }
      else if informational c then { s with interim := s.interim ++ [(c, s.hdr)] }
      else s.fix c
  | .add k v => { s with hdr := Hdr.add s.hdr k v }
  | .set k v => { s with hdr := Hdr.set s.hdr k v }
  | .del k => { s with hdr := Hdr.del s.hdr k }
  | .write b =>
    let s' := s.fix 200
    if bodyAllowed s'.status then { s' with body := s'.body ++ b } else s'
  | .flush => s.fix 200

def run (p : List HOp) : St := p.foldl step {}

def St.final (s : St) : Resp :=
  match s.fixed with
  | some (c, h) => ⟨c, h, s.body⟩
  | none => ⟨200, s.hdr, s.body⟩

/-- the final response net/http sends for the handler program (none: the handler panicked) -/
def reference (p : List HOp) : Option Resp :=
  let s := run p
  if s.panicked then none else some s.final

/-- the informational responses sent before it -/
def referenceInterim (p : List HOp) : List Nat := (run p).interim.map (·.1)

/-! ### Part 2: requests -/

/-- a request as both parsers tokenise it: request line, field lines (name canonical, value trimmed), de-framed body -/
structure TokReq where
  method : Bytes
  target : Bytes
  proto : Bytes
  fields : List (Bytes × Bytes)
  body : Bytes
deriving DecidableEq, Repr

/-- what C36 compares of an http.Request (URL = url.ParseRequestURI(requestURI) on both sides, so it is represented
    by requestURI) -/
structure HReq where
  method : Bytes
  requestURI : Bytes
  proto : Bytes
  major : Nat
  minor : Nat
  host : Bytes
  header : Hdr
  body : Bytes
deriving DecidableEq, Repr

def digit? (c : UInt8) : Option Nat := if 48 ≤ c && c ≤ 57 then some (c.toNat - 48) else none

/-- http.ParseHTTPVersion for the "HTTP/x.y" shape -/
def parseHTTPVersion (p : Bytes) : Option (Nat × Nat) :=
  match p with
  | [72, 84, 84, 80, 47, a, 46, b] =>            -- "HTTP/" a "." b
    match digit? a, digit? b with
    | some x, some y => some (x, y)
    | _, _ => none
  | _ => none

def sHost : Bytes := ofString "Host"
def sTransferEncoding : Bytes := ofString "Transfer-Encoding"
def sPragma : Bytes := ofString "Pragma"
def sCacheControl : Bytes := ofString "Cache-Control"
def sNoCache : Bytes := ofString "no-cache"
def sHttp : Bytes := ofString "http://"
def sHttps : Bytes := ofString "https://"

def stripPrefix? (pre s : Bytes) : Option Bytes := if pre.isPrefixOf s then some (s.drop pre.length) else none

/-- what follows the last '@' (the host[:port] of an authority with userinfo) -/
def afterLastAt : Bytes → Bytes → Bytes
  | [], acc => acc
  | c :: rest, acc => if c = 64 then afterLastAt rest rest else afterLastAt rest acc

/-- host[:port] of an absolute-form target (userinfo dropped), else none -/
def authority? (target : Bytes) : Option Bytes :=
  match (stripPrefix? sHttp target).orElse (fun _ => stripPrefix? sHttps target) with
  | some rest =>
    let auth := rest.takeWhile (fun c => c != 47 && c != 63 && c != 35)   -- up to '/', '?', '#'
    some (afterLastAt auth auth)
  | none => none

def firstValue (fields : Hdr) (k : Bytes) : Bytes := ((Hdr.values fields k).head?).getD []

/-- r.Host: the URL's authority for absolute-form targets, else the Host field -/
def hostOf (q : TokReq) : Bytes :=
  match authority? q.target with
  | some a => if a.isEmpty then firstValue q.fields sHost else a
  | none => firstValue q.fields sHost

/-- a lone `Pragma: no-cache` implies `Cache-Control: no-cache` (net/http fixPragmaCacheControl) -/
def pragmaFix (h : Hdr) : Hdr :=
  if (Hdr.values h sPragma).head? = some sNoCache && (Hdr.values h sCacheControl).isEmpty then
    h ++ [(sCacheControl, sNoCache)]
  else h

/-- http.ReadRequest on the tokenised request -/
def referenceParse (q : TokReq) : HReq :=
  let (maj, min) := (parseHTTPVersion q.proto).getD (1, 1)
  { method := q.method, requestURI := q.target, proto := q.proto, major := maj, minor := min,
    host := hostOf q,
    header := pragmaFix (q.fields.filter (fun e => e.1 ≠ sHost && e.1 ≠ sTransferEncoding)),
    body := q.body }

end Fh.Spec.NH
