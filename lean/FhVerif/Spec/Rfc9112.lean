/-
Reference request framer written from RFC 9112 (§2.2, §3, §5, §6, §7) and RFC 9110 §5 — NOT from fasthttp.
`frame input` lists the messages RFC 9112 framing assigns to the byte stream a client sent on one connection.

Leniencies the RFC permits a recipient are taken (so that the monitor is one-directional: the server may reject
more, it must never dispatch something else): bare LF accepted as line terminator (§2.2), empty lines before the
request-line ignored (§2.2), obs-fold replaced by SP (§5.2), any HTTP/d.d version.
What the RFC calls faulty or ambiguous framing is reported as such: CL together with TE, TE on a non-1.1 message,
TE whose final coding is not chunked (a lone `identity` is reported `ambiguous`, the message is framed by CL / no body),
duplicate / malformed Content-Length, malformed chunks.
-/
import FhVerif.Base.Bytes

namespace Fh.Spec.Rfc

inductive Kind | accept | ambiguous
  deriving DecidableEq, Repr

structure Msg where
  method : Bytes
  target : Bytes
  http11 : Bool
  body : Bytes
  endOff : Nat         -- offset just past the message, relative to the start of the connection's byte stream
  kind : Kind
  deriving Repr

inductive Stop | clean | incomplete | invalid
  deriving DecidableEq, Repr

def isWs (c : UInt8) : Bool := c == 32 || c == 9

/-- split at the first LF; the line loses the LF and one preceding CR.  none = no LF yet -/
def splitLine (b : Bytes) : Option (Bytes × Bytes) :=
  let l := b.takeWhile (· != 10)
  match b.dropWhile (· != 10) with
  | [] => none
  | _ :: rest => some (if l.getLast? == some 13 then l.dropLast else l, rest)

def trimWs (b : Bytes) : Bytes := ((b.dropWhile isWs).reverse.dropWhile isWs).reverse

def lower (c : UInt8) : UInt8 := if 65 ≤ c && c ≤ 90 then c + 32 else c
def lowerB (b : Bytes) : Bytes := b.map lower

def isTchar (c : UInt8) : Bool :=
  (48 ≤ c && c ≤ 57) || (65 ≤ c && c ≤ 90) || (97 ≤ c && c ≤ 122) ||
  c == 33 || c == 35 || c == 36 || c == 37 || c == 38 || c == 39 || c == 42 || c == 43 ||
  c == 45 || c == 46 || c == 94 || c == 95 || c == 96 || c == 124 || c == 126

def isDigit (c : UInt8) : Bool := 48 ≤ c && c ≤ 57

def splitOnByte (sep : UInt8) : Bytes → List Bytes
  | [] => [[]]
  | c :: t =>
    if c == sep then [] :: splitOnByte sep t
    else match splitOnByte sep t with
      | s :: r => (c :: s) :: r
      | [] => [[c]]

/-- "HTTP/" DIGIT "." DIGIT -/
def parseVersion (v : Bytes) : Option Bool :=
  match v with
  | [72, 84, 84, 80, 47, a, 46, b] => if isDigit a && isDigit b then some (a == 49 && b == 49) else none
  | _ => none

/-- request-line = method SP request-target SP HTTP-version -/
def parseRequestLine (l : Bytes) : Option (Bytes × Bytes × Bool) :=
  match splitOnByte 32 l with
  | [m, t, v] =>
    if m.isEmpty || !m.all isTchar || t.isEmpty || t.any (fun c => c < 33 || c == 127) then none
    else (parseVersion v).map fun h11 => (m, t, h11)
  | _ => none

/-- field lines up to the empty line.  Returns (fields, rest) ; none = incomplete ; error = invalid.
    obs-fold lines are joined to the previous field with one SP. -/
inductive FieldsRes
  | ok (fs : List (Bytes × Bytes)) (rest : Bytes)
  | incomplete
  | invalid

def fieldOfLine (l : Bytes) : Option (Bytes × Bytes) :=
  let name := l.takeWhile (· != 58)
  match l.dropWhile (· != 58) with
  | [] => none
  | _ :: v =>
    if name.isEmpty || isWs (name.getLast?.getD 0) || isWs (name.head?.getD 0) then none
    else some (name, v)

def readFields : Nat → Bytes → List (Bytes × Bytes) → FieldsRes
  | 0, _, _ => .incomplete
  | fuel + 1, b, acc =>
    match splitLine b with
    | none => .incomplete
    | some (l, rest) =>
      if l.isEmpty then .ok acc.reverse rest
      else if isWs (l.head?.getD 0) then
        match acc with
        | [] => .invalid
        | (n, v) :: acc' => readFields fuel rest ((n, v ++ [32] ++ trimWs l) :: acc')
      else match fieldOfLine l with
        | none => .invalid
        | some (n, v) => readFields fuel rest ((n, v) :: acc)

def badValueByte (c : UInt8) : Bool := (c < 32 && c != 9) || c == 127

def fieldsNamed (fs : List (Bytes × Bytes)) (name : Bytes) : List Bytes :=
  (fs.filter fun f => lowerB f.1 == name).map fun f => trimWs f.2

def natOfDigits (b : Bytes) : Nat := b.foldl (fun a c => 10 * a + (c.toNat - 48)) 0

/-- Content-Length = 1*DIGIT ; a comma list of identical values is tolerated by §6.3 -/
def parseCL (vals : List Bytes) : Option Nat :=
  let items := (vals.flatMap fun v => (splitOnByte 44 v).map trimWs)
  match items with
  | [] => none
  | x :: rest =>
    if x.isEmpty || !x.all isDigit then none
    else if rest.all (fun y => !y.isEmpty && y.all isDigit && natOfDigits y == natOfDigits x) then some (natOfDigits x)
    else none

/-- transfer codings, lower-cased, parameters dropped -/
def codings (vals : List Bytes) : List Bytes :=
  (vals.flatMap fun v => (splitOnByte 44 v).map fun it => lowerB (trimWs (it.takeWhile (· != 59))))

def hexVal (c : UInt8) : Option Nat :=
  if 48 ≤ c && c ≤ 57 then some (c.toNat - 48)
  else if 97 ≤ c && c ≤ 102 then some (c.toNat - 87)
  else if 65 ≤ c && c ≤ 70 then some (c.toNat - 55)
  else none

inductive BodyRes
  | ok (body : Bytes) (rest : Bytes)
  | incomplete
  | invalid

/-- chunk-size line: 1*HEXDIG [BWS] [";" ext]  -/
def parseChunkLine (l : Bytes) : Option Nat :=
  let hs := l.takeWhile (fun c => (hexVal c).isSome)
  let rest := (l.dropWhile (fun c => (hexVal c).isSome)).dropWhile isWs
  if hs.isEmpty then none
  else if !(rest.isEmpty || rest.head? == some 59) then none
  else if rest.any (fun c => c == 13 || c == 10 || c == 0) then none
  else some (hs.foldl (fun a c => 16 * a + (hexVal c).getD 0) 0)

def readChunks : Nat → Bytes → Bytes → BodyRes
  | 0, _, _ => .incomplete
  | fuel + 1, b, acc =>
    match splitLine b with
    | none => .incomplete
    | some (l, rest) =>
      match parseChunkLine l with
      | none => .invalid
      | some 0 =>
        -- trailer section: field lines up to the empty line
        match readFields (rest.length + 1) rest [] with
        | .ok _ rest' => .ok acc rest'
        | .incomplete => .incomplete
        | .invalid => .invalid
      | some n =>
        if rest.length < n then .incomplete
        else
          let data := rest.take n
          match rest.drop n with
          | 13 :: 10 :: rest' => readChunks fuel rest' (acc ++ data)
          | 10 :: rest' => readChunks fuel rest' (acc ++ data)
          | [] => .incomplete
          | [13] => .incomplete
          | _ => .invalid

/-- RFC 9112 §6.3 applied to the parsed field lines of a request head: how the body is framed -/
inductive Framing
  | invalid
  | noBody
  | length (n : Nat) (ambiguous : Bool)
  | chunked (ambiguous : Bool)
  deriving DecidableEq, Repr

def framingOf (h11 : Bool) (fs : List (Bytes × Bytes)) : Framing :=
  let cls := fieldsNamed fs (ofString "content-length")
  let tes := fieldsNamed fs (ofString "transfer-encoding")
  if !tes.isEmpty then
    if !h11 then .invalid
    else
      let cs := codings tes
      if cs == [ofString "identity"] then
        -- tolerated but ambiguous: framed as if the field were absent
        match (if cls.isEmpty then some 0 else parseCL cls) with
        | none => .invalid
        | some n => .length n true
      else if cs.getLast? != some (ofString "chunked") || (cs.dropLast.any (· == ofString "chunked")) then .invalid
      else .chunked (!cls.isEmpty)
  else if !cls.isEmpty then
    match parseCL cls with
    | none => .invalid
    -- several Content-Length field lines (even equal ones) are reported ambiguous: a recipient may
    -- collapse them, but nothing may follow on the connection (property C01)
    | some n => .length n (decide (cls.length > 1))
  else .noBody

inductive OneRes
  | msg (m : Msg) (rest : Bytes)
  | stop (s : Stop)

def dropEmptyLines : Nat → Bytes → Bytes
  | 0, b => b
  | fuel + 1, b =>
    match b with
    | 13 :: 10 :: r => dropEmptyLines fuel r
    | 10 :: r => dropEmptyLines fuel r
    | _ => b

def kindOf (amb : Bool) : Kind := if amb then .ambiguous else .accept

/-- one message starting at offset `off` of the stream -/
def frameOne (off : Nat) (input : Bytes) : OneRes :=
  let b := dropEmptyLines input.length input
  if b.isEmpty then .stop .clean else
  match splitLine b with
  | none => .stop .incomplete
  | some (rl, afterRL) =>
    match parseRequestLine rl with
    | none => .stop .invalid
    | some (m, t, h11) =>
      match readFields (afterRL.length + 1) afterRL [] with
      | .incomplete => .stop .incomplete
      | .invalid => .stop .invalid
      | .ok fs rest =>
        if fs.any (fun f => f.2.any badValueByte) then .stop .invalid else
        let consumed := fun (r : Bytes) => off + (input.length - r.length)
        match framingOf h11 fs with
        | .invalid => .stop .invalid
        | .noBody => .msg ⟨m, t, h11, [], consumed rest, .accept⟩ rest
        | .length n amb =>
          if rest.length < n then .stop .incomplete
          else .msg ⟨m, t, h11, rest.take n, consumed (rest.drop n), kindOf amb⟩ (rest.drop n)
        | .chunked amb =>
          match readChunks (rest.length + 1) rest [] with
          | .incomplete => .stop .incomplete
          | .invalid => .stop .invalid
          | .ok body rest' => .msg ⟨m, t, h11, body, consumed rest', kindOf amb⟩ rest'

/-- all messages of the stream, up to the first non-accept -/
def frameLoop : Nat → Nat → Bytes → List Msg → List Msg × Stop
  | 0, _, _, acc => (acc.reverse, .incomplete)
  | fuel + 1, off, input, acc =>
    match frameOne off input with
    | .stop s => (acc.reverse, s)
    | .msg m rest => frameLoop fuel m.endOff rest (m :: acc)

def frame (input : Bytes) : List Msg × Stop := frameLoop (input.length + 1) 0 input []

end Fh.Spec.Rfc
