/-
Reference predicates, written from the RFCs / Go documentation (not from fasthttp's tables).
-/
import FhVerif.Base.Bytes

namespace Fh.Spec

def isDigit (c : Nat) : Bool := 48 ≤ c && c ≤ 57
def isUpper (c : Nat) : Bool := 65 ≤ c && c ≤ 90
def isLower (c : Nat) : Bool := 97 ≤ c && c ≤ 122
def isAlpha (c : Nat) : Bool := isUpper c || isLower c

/-- value of a hex digit, 16 for non-hex bytes -/
def hexVal (c : Nat) : Nat :=
  if isDigit c then c - 48
  else if 97 ≤ c && c ≤ 102 then c - 97 + 10
  else if 65 ≤ c && c ≤ 70 then c - 65 + 10
  else 16

def lowerOf (c : Nat) : Nat := if isUpper c then c + 32 else c
def upperOf (c : Nat) : Nat := if isLower c then c - 32 else c

/-- RFC 3986 §2.3 unreserved = ALPHA / DIGIT / "-" / "." / "_" / "~" -/
def unreserved (c : Nat) : Bool := isAlpha c || isDigit c || c == 45 || c == 46 || c == 95 || c == 126

/-- query-component escaping: everything but unreserved is escaped -/
def argShouldEscape (c : Nat) : Bool := !unreserved c

/-- net/url shouldEscape(c, encodePath): unreserved and `$&+,/:;=@` stay -/
def pathShouldEscape (c : Nat) : Bool :=
  !(unreserved c || c == 36 || c == 38 || c == 43 || c == 44 || c == 47 || c == 58 || c == 59 || c == 61 || c == 64)

/-- RFC 9110 §5.6.2 tchar -/
def tchar (c : Nat) : Bool :=
  isAlpha c || isDigit c ||
  c == 33 || c == 35 || c == 36 || c == 37 || c == 38 || c == 39 || c == 42 || c == 43 ||
  c == 45 || c == 46 || c == 94 || c == 95 || c == 96 || c == 124 || c == 126

/-- RFC 9110 §5.5 field-vchar / obs-text plus SP / HTAB -/
def fieldValueByte (c : Nat) : Bool := (0x21 ≤ c && c ≤ 0x7e) || c == 0x20 || c == 0x09 || 0x80 ≤ c

/-- net/textproto.CanonicalMIMEHeaderKey restricted to what the property states:
    for a token (all tchar): upper-case the first letter and every letter after '-', lower-case the rest;
    a non-token is returned unchanged -/
def canonLoop : Bool → List UInt8 → List UInt8
  | _, [] => []
  | up, c :: rest =>
    let c' : UInt8 := if up then UInt8.ofNat (upperOf c.toNat) else UInt8.ofNat (lowerOf c.toNat)
    c' :: canonLoop (c == 45) rest

def canonicalMIMEHeaderKey (b : List UInt8) : List UInt8 :=
  if b.all (fun c => tchar c.toNat) then canonLoop true b else b

/-- html.EscapeString: the five replacements -/
def htmlEscape : List UInt8 → List UInt8
  | [] => []
  | c :: rest =>
    (if c == 38 then Fh.ofString "&amp;"
     else if c == 60 then Fh.ofString "&lt;"
     else if c == 62 then Fh.ofString "&gt;"
     else if c == 34 then Fh.ofString "&#34;"
     else if c == 39 then Fh.ofString "&#39;"
     else [c]) ++ htmlEscape rest

end Fh.Spec
