/-
Reference: a line-level reader of an HTTP/1.x message head, as lenient as RFC 9112 §2.2 allows a recipient to be
(a line ends at LF, a CR directly before it is dropped; a bare CR stays inside the line).  Fields are `name ":" value`
with optional whitespace around the value trimmed (RFC 9112 §5).  The head ends at the first empty line; everything
after it is `rest` (body or further messages).  Independent of the model of header.go.
-/
import FhVerif.Base.Bytes

namespace Fh.Spec

/-- one line and what follows it; `none` when no LF is left -/
def hlReadLine : List UInt8 → Option (List UInt8 × List UInt8)
  | [] => none
  | c :: rest =>
    if c == 10 then some ([], rest)
    else if c == 13 && rest.head? == some 10 then some ([], rest.drop 1)
    else (hlReadLine rest).map fun lr => (c :: lr.1, lr.2)

def hlOWS (c : UInt8) : Bool := c == 32 || c == 9
def hlTrim (b : List UInt8) : List UInt8 := ((b.dropWhile hlOWS).reverse.dropWhile hlOWS).reverse

/-- field-line = field-name ":" OWS field-value OWS; a line without ':' is not a field -/
def hlField (l : List UInt8) : Option (List UInt8 × List UInt8) :=
  match l.dropWhile (· != 58) with
  | [] => none
  | _ :: v => some (l.takeWhile (· != 58), hlTrim v)

/-- field lines up to the empty line; fuel bounds the number of lines -/
def hlFields : Nat → List UInt8 → Option (List (List UInt8 × List UInt8) × List UInt8)
  | 0, _ => none
  | f + 1, b =>
    match hlReadLine b with
    | none => none
    | some (l, r) =>
      if l.isEmpty then some ([], r)
      else match hlField l with
        | none => none
        | some kv => (hlFields f r).map fun fr => (kv :: fr.1, fr.2)

structure Head where
  first : List UInt8
  fields : List (List UInt8 × List UInt8)
  rest : List UInt8
  deriving DecidableEq, Repr

/-- start line, fields, and the bytes after the head; `none` = malformed or incomplete head -/
def parseHead (b : List UInt8) : Option Head :=
  match hlReadLine b with
  | none => none
  | some (first, r) => (hlFields (r.length + 1) r).map fun fr => ⟨first, fr.1, fr.2⟩

end Fh.Spec
