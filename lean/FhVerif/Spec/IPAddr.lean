/-
Reference grammars for C31, written from the property statement and RFC 4291 §2.2 (not from fasthttp):

* dotted quad (ParseIPv4's contract): four '.'-separated non-empty fields of ASCII digits, each of value ≤ 255;
* RFC 4291 §2.2 text representation of an IPv6 address:
    1. x:x:x:x:x:x:x:x, each x one to four hex digits;
    2. one "::" stands for one or more groups of zeros (so at most 7 groups are written), also leading/trailing;
    3. the last two groups may be written as a dotted-quad IPv4 address d.d.d.d (decimal octets as in
       net/netip: 1–3 digits, value ≤ 255, no leading zero).
-/
import FhVerif.Spec.IntCodec

namespace Fh.Spec

/-- strings.Split semantics -/
def splitOn (sep : UInt8) : Bytes → List Bytes
  | [] => [[]]
  | c :: t =>
    if c == sep then [] :: splitOn sep t
    else match splitOn sep t with
      | s :: r => (c :: s) :: r
      | [] => [[c]]

/-! ### dotted quad -/

def isDecField (f : Bytes) : Bool := !f.isEmpty && f.all isDigitB && decide (decVal f ≤ 255)

/-- ParseIPv4's contract -/
def dottedQuadSpec (s : Bytes) : Option (List Nat) :=
  let fs := splitOn 46 s
  if fs.length == 4 && fs.all isDecField then some (fs.map decVal) else none

/-! ### RFC 4291 §2.2 -/

def isHexDigit (c : UInt8) : Bool :=
  (48 ≤ c && c ≤ 57) || (97 ≤ c && c ≤ 102) || (65 ≤ c && c ≤ 70)

/-- one 16-bit piece: one to four hex digits -/
def isHextet (f : Bytes) : Bool := 1 ≤ f.length && f.length ≤ 4 && f.all isHexDigit

/-- decimal octet of the embedded IPv4 form: no leading zero -/
def isStrictOctet (f : Bytes) : Bool := isDecField f && (f.length == 1 || f.head? != some 48)

def isStrictQuad (f : Bytes) : Bool :=
  let p := splitOn 46 f
  p.length == 4 && p.all isStrictOctet

/-- number of 16-bit pieces denoted by a ':'-separated run of groups (`tail`: the run ends the address, so its
    last field may be an embedded IPv4 address, which stands for two pieces); the empty run has none -/
def pieces (tail : Bool) (s : Bytes) : Option Nat :=
  if s.isEmpty then some 0
  else
    let fs := splitOn 58 s
    if fs.all isHextet then some fs.length
    else if tail && fs.dropLast.all isHextet && (fs.getLast?.map isStrictQuad).getD false then some (fs.length + 1)
    else none

/-- split at the first "::" -/
def splitDouble : Bytes → Option (Bytes × Bytes)
  | [] => none
  | [_] => none
  | a :: b :: rest =>
    if a == 58 && b == 58 then some ([], rest)
    else (splitDouble (b :: rest)).map fun (l, r) => (a :: l, r)

/-- RFC 4291 §2.2 text form of an IPv6 address (zone-less) -/
def ipv6TextSpec (s : Bytes) : Bool :=
  match splitDouble s with
  | none => pieces true s == some 8
  | some (l, r) =>
    match pieces false l, pieces true r with
    | some a, some b => decide (a + b ≤ 7)
    | _, _ => false

end Fh.Spec
