/-
Reference semantics for C30: the value of an ASCII decimal string and the largest int of width w.
-/
import FhVerif.Base.Bytes
namespace Fh.Spec

def isDigitB (c : UInt8) : Bool := decide (48 ≤ c.toNat ∧ c.toNat ≤ 57)
def dstep (a : Nat) (c : UInt8) : Nat := 10 * a + (c.toNat - 48)
/-- value of a decimal digit string (spec) -/
def decFrom (v : Nat) (b : Bytes) : Nat := b.foldl dstep v
def decVal (b : Bytes) : Nat := decFrom 0 b
def maxInt (w : Nat) : Nat := 2 ^ (w - 1) - 1


/-- ParseUint's contract: `some v` exactly for non-empty ASCII decimal strings whose value fits in an int -/
def parseUintSpec (w : Nat) (b : Bytes) : Option Nat :=
  if b ≠ [] ∧ b.all isDigitB = true ∧ decVal b ≤ maxInt w then some (decVal b) else none

end Fh.Spec
