/-
Reference semantics of the HTTP date layout `Mon, 02 Jan 2006 15:04:05 GMT` (http.TimeFormat; RFC 9110 §5.6.7
IMF-fixdate), written from the layout and the Go `time` documentation, not from fasthttp:

  day-name "," SP 2DIGIT SP month SP 4DIGIT SP 2DIGIT ":" 2DIGIT ":" 2DIGIT SP "GMT"

* day and month names are the three-letter English abbreviations, letter case ignored (time.Parse ignores case);
  the day name is not checked against the date (time.Parse does not check it either);
* the day of month must exist in that month of that year (proleptic Gregorian calendar), hour ≤ 23, minute ≤ 59,
  second ≤ 59 (no leap second);
* the value is the Unix second: 86400 · (days from 1970-01-01 to the date) + seconds into the day, where days are
  *counted* (year by year, month by month) — `daysBefore`, `monthDaysBefore`.

Only strings of exactly this fixed 29-byte shape are accepted by the spec; time.Parse additionally accepts a few
other 29-byte spellings (one-digit hour with a fractional second), for which the fast parser declines.
-/
import FhVerif.Base.Bytes

namespace Fh.Spec

def leapYear (y : Nat) : Bool := (y % 4 == 0 && y % 100 != 0) || y % 400 == 0

def yearLen (y : Nat) : Nat := if leapYear y then 366 else 365

def monthLen (y m : Nat) : Nat :=
  if m == 2 then (if leapYear y then 29 else 28)
  else if m == 4 || m == 6 || m == 9 || m == 11 then 30 else 31

/-- days in the years 0 .. y-1 -/
def daysBefore : Nat → Nat
  | 0 => 0
  | y + 1 => daysBefore y + yearLen y

/-- days in the months 1 .. m-1 of year y -/
def monthDaysBefore (y : Nat) : Nat → Nat
  | 0 => 0
  | 1 => 0
  | m + 1 => monthDaysBefore y m + monthLen y m

/-- Unix second of y-m-d h:mi:s UTC; 1970-01-01 is day `daysBefore 1970` -/
def unixSecond (y m d h mi s : Nat) : Int :=
  ((daysBefore y + monthDaysBefore y m + (d - 1) : Nat) - (daysBefore 1970 : Nat) : Int) * 86400 + h * 3600 + mi * 60 + s

def asciiLower (c : UInt8) : UInt8 := if 65 ≤ c && c ≤ 90 then c + 32 else c

def eqFold (a b : Bytes) : Bool := a.map asciiLower == b.map asciiLower

def dayNameList : List Bytes :=
  [ofString "Mon", ofString "Tue", ofString "Wed", ofString "Thu", ofString "Fri", ofString "Sat", ofString "Sun"]

def monthNameList : List Bytes :=
  [ofString "Jan", ofString "Feb", ofString "Mar", ofString "Apr", ofString "May", ofString "Jun",
   ofString "Jul", ofString "Aug", ofString "Sep", ofString "Oct", ofString "Nov", ofString "Dec"]

/-- 1-based index of the first name equal to `w` ignoring case -/
def lookupName (names : List Bytes) (w : Bytes) : Option Nat :=
  (names.findIdx? (eqFold w)).map (· + 1)

def isDig (c : UInt8) : Bool := 48 ≤ c && c ≤ 57

/-- value of a string of ASCII digits -/
def digitsVal (b : Bytes) : Option Nat :=
  if b.all isDig then some (b.foldl (fun a c => 10 * a + (c.toNat - 48)) 0) else none

/-- take exactly n bytes -/
def takeN (n : Nat) (b : Bytes) : Option (Bytes × Bytes) :=
  if b.length < n then none else some (b.take n, b.drop n)

/-- consume a literal -/
def lit (l : Bytes) (b : Bytes) : Option Bytes :=
  if b.take l.length == l && l.length ≤ b.length then some (b.drop l.length) else none

/-- the accepted fields (year, month, day, hour, minute, second) of a string in the fixed layout -/
def httpDateFields (b : Bytes) : Option (Nat × Nat × Nat × Nat × Nat × Nat) := do
  let (wd, r) ← takeN 3 b
  let _ ← lookupName dayNameList wd
  let r ← lit [44, 32] r
  let (dd, r) ← takeN 2 r
  let day ← digitsVal dd
  let r ← lit [32] r
  let (mn, r) ← takeN 3 r
  let month ← lookupName monthNameList mn
  let r ← lit [32] r
  let (yy, r) ← takeN 4 r
  let year ← digitsVal yy
  let r ← lit [32] r
  let (hh, r) ← takeN 2 r
  let hour ← digitsVal hh
  let r ← lit [58] r
  let (mi, r) ← takeN 2 r
  let minute ← digitsVal mi
  let r ← lit [58] r
  let (ss, r) ← takeN 2 r
  let second ← digitsVal ss
  let r ← lit [32, 71, 77, 84] r
  if r != [] then none
  else if day < 1 || day > monthLen year month then none
  else if hour > 23 || minute > 59 || second > 59 then none
  else some (year, month, day, hour, minute, second)

/-- the Unix second denoted by a string in the fixed layout -/
def fieldsUnix : Nat × Nat × Nat × Nat × Nat × Nat → Int
  | (y, m, d, h, mi, s) => unixSecond y m d h mi s

def httpDateSpec (b : Bytes) : Option Int := (httpDateFields b).map fieldsUnix

end Fh.Spec
