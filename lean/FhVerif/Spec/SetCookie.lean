/-
Reference: what a user agent makes of a Set-Cookie string, RFC 6265 §5.2 (attribute names Expires, Max-Age, Domain,
Path, Secure, HttpOnly) extended with SameSite (RFC 6265bis) and Partitioned (CHIPS).  Independent of the model of
cookie.go: its own splitting, its own (SP / HT) trimming, its own case folding.
-/
import FhVerif.Base.Bytes

namespace Fh.Spec

/-- the set-cookie-string cut at every ';' (RFC 6265 §5.2 steps 1 and 3 of the attribute loop) -/
def scSplit : List UInt8 → List (List UInt8)
  | [] => [[]]
  | c :: t =>
    if c == 59 then [] :: scSplit t
    else match scSplit t with
      | s :: r => (c :: s) :: r
      | [] => [[c]]

def isWsp (c : UInt8) : Bool := c == 32 || c == 9

/-- "Remove any leading or trailing WSP characters" -/
def scTrim (b : List UInt8) : List UInt8 := ((b.dropWhile isWsp).reverse.dropWhile isWsp).reverse

def scLowerByte (c : UInt8) : UInt8 := if 65 ≤ c && c ≤ 90 then c + 32 else c
def scLower (b : List UInt8) : List UInt8 := b.map scLowerByte

/-- one cookie-av: name and value around the first '=', or the whole string as the name -/
def scAv (p : List UInt8) : List UInt8 × List UInt8 :=
  match p.dropWhile (· != 61) with
  | [] => (scTrim p, [])
  | _ :: v => (scTrim (p.takeWhile (· != 61)), scTrim v)

inductive AttrName | expires | maxAge | domain | path | secure | httpOnly | sameSite | partitioned
  deriving DecidableEq, Repr

/-- attribute names are matched case-insensitively; anything else is ignored by the user agent -/
def scRecognise (n : List UInt8) : Option AttrName :=
  let l := scLower n
  if l = ofString "expires" then some .expires
  else if l = ofString "max-age" then some .maxAge
  else if l = ofString "domain" then some .domain
  else if l = ofString "path" then some .path
  else if l = ofString "secure" then some .secure
  else if l = ofString "httponly" then some .httpOnly
  else if l = ofString "samesite" then some .sameSite
  else if l = ofString "partitioned" then some .partitioned
  else none

/-- the recognised attributes of a set-cookie-string, in order, with their (trimmed) values -/
def rfcAttrs (b : List UInt8) : List (AttrName × List UInt8) :=
  match scSplit b with
  | [] => []
  | _ :: avs => avs.filterMap fun p => (scRecognise (scAv p).1).map fun a => (a, (scAv p).2)

/-- the name-value-pair (RFC 6265 §5.2 step 2-4: ignored when it has no '=') -/
def rfcNameValue (b : List UInt8) : Option (List UInt8 × List UInt8) :=
  match scSplit b with
  | [] => none
  | nv :: _ =>
    match nv.dropWhile (· != 61) with
    | [] => none
    | _ :: v => some (scTrim (nv.takeWhile (· != 61)), scTrim v)

/-- RFC 6265 §4.1.1 cookie-octet -/
def cookieOctet (c : UInt8) : Bool :=
  c == 0x21 || (0x23 ≤ c && c ≤ 0x2B) || (0x2D ≤ c && c ≤ 0x3A) || (0x3C ≤ c && c ≤ 0x5B) || (0x5D ≤ c && c ≤ 0x7E)

/-- the Cookie request header as a server reads it (RFC 6265 §4.2.1 cookie-string = cookie-pair *( ";" SP cookie-pair )):
    pairs around the first '=', OWS trimmed; a pair without '=' has an empty name (the lenient reading) -/
def rfcCookiePairs (b : List UInt8) : List (List UInt8 × List UInt8) :=
  if b.isEmpty then [] else (scSplit b).map fun p =>
    match p.dropWhile (· != 61) with
    | [] => ([], scTrim p)
    | _ :: v => (scTrim (p.takeWhile (· != 61)), scTrim v)

end Fh.Spec
