/-
C30 — Integer codecs are exact.  Property theorems only (helpers in Proofs/IntCodec.lean).
The constants maxIntDiv10 / maxSafeIntDigits / maxHexIntChars are regenerated from /repo (Gen/Consts.lean).
-/
import FhVerif.Proofs.IntCodec

namespace Fh.Props.C30
open Fh Fh.Model Fh.Spec Fh.Proofs.IntCodec

/-- the overflow guard of parseUintBuf is exact (64-bit int) -/
theorem guard_exact64 (v k : Nat) (hv : v ≤ maxInt 64) (hk : k ≤ 9) :
    ((v > Gen.maxIntDiv10 64 ∨ (10 * v + k) % 2 ^ 64 ≥ 2 ^ 63) ↔ 10 * v + k > maxInt 64) :=
  widthOK64.guard v k hv hk

/-- the overflow guard of parseUintBuf is exact (32-bit int) -/
theorem guard_exact32 (v k : Nat) (hv : v ≤ maxInt 32) (hk : k ≤ 9) :
    ((v > Gen.maxIntDiv10 32 ∨ (10 * v + k) % 2 ^ 32 ≥ 2 ^ 31) ↔ 10 * v + k > maxInt 32) :=
  widthOK32.guard v k hv hk

/-- skipping the test for the first maxSafeIntDigits digits is justified -/
theorem below_safe_digits_no_overflow64 : 10 ^ Gen.maxSafeIntDigits 64 ≤ maxInt 64 + 1 := widthOK64.safe_pow
theorem below_safe_digits_no_overflow32 : 10 ^ Gen.maxSafeIntDigits 32 ≤ maxInt 32 + 1 := widthOK32.safe_pow

theorem widthOK (w : Nat) (hw : w = 64 ∨ w = 32) : WidthOK w := by
  rcases hw with rfl | rfl
  · exact widthOK64
  · exact widthOK32

/-- ParseUint accepts every non-empty ASCII decimal string whose value fits in an int, returning that value. -/
theorem parseUint_accepts (w : Nat) (hw : w = 64 ∨ w = 32) (b : Bytes)
    (hne : b ≠ []) (hd : b.all isDigitB = true) (hfit : decVal b ≤ maxInt w) :
    parseUint w b = .ok (decVal b : Int) := by
  have h := (loop_digits w (widthOK w hw) b 0 0 (Nat.zero_le _) (fun _ => by simp) hd).1 hfit
  have he : b.isEmpty = false := by cases b <;> simp_all
  simp only [parseUint, parseUintBuf, he, Bool.false_eq_true, if_false, h, Nat.zero_add, ne_eq,
    not_true_eq_false, if_false]
  rfl

/-- ParseUint reports an error for everything else: never a wrapped or truncated result. -/
theorem parseUint_rejects (w : Nat) (hw : w = 64 ∨ w = 32) (b : Bytes)
    (h : ¬ (b ≠ [] ∧ b.all isDigitB = true ∧ decVal b ≤ maxInt w)) :
    ∃ e, parseUint w b = .error e := by
  by_cases hne : b = []
  · subst hne; exact ⟨.empty, by simp [parseUint, parseUintBuf]⟩
  have he : b.isEmpty = false := by cases b <;> simp_all
  by_cases hd : b.all isDigitB = true
  · have hbig : decVal b > maxInt w := by
      apply Classical.byContradiction; intro hle; exact h ⟨hne, hd, by omega⟩
    have herr := (loop_digits w (widthOK w hw) b 0 0 (Nat.zero_le _) (fun _ => by simp) hd).2 hbig
    simp only [parseUint, parseUintBuf, he, Bool.false_eq_true, if_false]
    split
    · exact ⟨_, rfl⟩
    · rw [herr]; exact ⟨_, rfl⟩
  · have hd' : b.all isDigitB = false := by simpa using hd
    have hn := loop_nondigit w b 0 0 hd'
    simp only [parseUint, parseUintBuf, he, Bool.false_eq_true, if_false]
    have : (parseUintLoop w 0 0 b).n ≠ b.length := by omega
    simp only [ne_eq, this, not_false_eq_true, if_true]
    exact ⟨_, rfl⟩

/-- C30 (ParseUint half): accepted ⇔ non-empty decimal string fitting an int, and then the value is exact. -/
theorem parseUint_exact (w : Nat) (hw : w = 64 ∨ w = 32) (b : Bytes) (n : Int) :
    parseUint w b = .ok n ↔ (b ≠ [] ∧ b.all isDigitB = true ∧ decVal b ≤ maxInt w ∧ n = (decVal b : Int)) := by
  constructor
  · intro hok
    by_cases hc : b ≠ [] ∧ b.all isDigitB = true ∧ decVal b ≤ maxInt w
    · have := parseUint_accepts w hw b hc.1 hc.2.1 hc.2.2
      rw [this] at hok
      exact ⟨hc.1, hc.2.1, hc.2.2, by injection hok with h; exact h.symm⟩
    · obtain ⟨e, he⟩ := parseUint_rejects w hw b hc
      rw [he] at hok; cases hok
  · rintro ⟨h1, h2, h3, rfl⟩
    exact parseUint_accepts w hw b h1 h2 h3

/-- the same, against the executable contract `Spec.parseUintSpec` used by the run-time monitor -/
theorem parseUint_eq_spec (w : Nat) (hw : w = 64 ∨ w = 32) (b : Bytes) :
    (parseUint w b).toOption = (parseUintSpec w b).map (fun n => (n : Int)) := by
  unfold parseUintSpec
  split
  · rename_i h; rw [parseUint_accepts w hw b h.1 h.2.1 h.2.2]; rfl
  · rename_i h; obtain ⟨e, he⟩ := parseUint_rejects w hw b h; rw [he]; rfl

/-! ### AppendUint ∘ ParseUint -/

theorem appendUint_spec (n : Nat) :
    appendUint n ≠ [] ∧ (appendUint n).all isDigitB = true ∧ ∀ v, decFrom v (appendUint n) = v * 10 ^ (appendUint n).length + n := by
  induction n using appendUint.induct with
  | case1 n h =>
    rw [appendUint, dif_pos h]
    refine ⟨by simp, ?_, ?_⟩
    · have : (48 + n) % 256 = 48 + n := by omega
      simp [isDigitB, UInt8.toNat_ofNat', this]; omega
    · intro v
      have : (48 + n) % 256 = 48 + n := by omega
      simp [decFrom, dstep, UInt8.toNat_ofNat', this]; omega
  | case2 n h ih =>
    rw [appendUint, dif_neg h]
    obtain ⟨_, h2, h3⟩ := ih
    have hm : (48 + n % 10) % 256 = 48 + n % 10 := by omega
    refine ⟨by simp, ?_, ?_⟩
    · simp only [List.all_append, h2, Bool.true_and, List.all_cons, List.all_nil, Bool.and_true]
      simp [isDigitB, UInt8.toNat_ofNat', hm]; omega
    · intro v
      simp only [decFrom, List.foldl_append, List.foldl_cons, List.foldl_nil, List.length_append,
        List.length_cons, List.length_nil] at h3 ⊢
      rw [h3 v]
      simp only [dstep, UInt8.toNat_ofNat', hm, Nat.pow_succ]
      have : v * (10 ^ (appendUint (n / 10)).length * 10) = 10 * (v * 10 ^ (appendUint (n / 10)).length) := by
        rw [← Nat.mul_assoc, Nat.mul_comm]
      rw [this]; omega

/-- AppendUint then ParseUint is the identity on all non-negative ints. -/
theorem appendUint_parse_inverse (w : Nat) (hw : w = 64 ∨ w = 32) (n : Nat) (hn : n ≤ maxInt w) :
    parseUint w (appendUint n) = .ok (n : Int) := by
  obtain ⟨h1, h2, h3⟩ := appendUint_spec n
  have hv : decVal (appendUint n) = n := by have := h3 0; simpa [decVal] using this
  have := parseUint_accepts w hw (appendUint n) h1 h2 (by rw [hv]; exact hn)
  rw [this, hv]

/-! ### chunk sizes in hex -/

/-- A chunk size written by writeHexInt reads back to the same value, leaving exactly the bytes that follow it
    (which start with a non-hex byte, e.g. CR, or are empty). `m` = maxHexIntChars. -/
theorem hex_roundtrip (m n : Nat) (hm : 1 ≤ m) (hn : n < 16 ^ m) (rest : Bytes)
    (hrest : ∀ c r, rest = c :: r → (hex2int c).toNat = 16) :
    readHexInt m (writeHexInt n ++ rest) = .ok (n, rest) := by
  have hlen := writeHex_length n m hm hn
  have hpos : 0 < (writeHexInt n).length := by
    rw [writeHexInt]; split <;> simp
  rw [readHexInt, readHex_write m n 0 0 rest (by omega)]
  cases rest with
  | nil => simp [readHexLoop, hpos]
  | cons c r =>
    have := hrest c r rfl
    simp only [readHexLoop, this, if_true, Nat.zero_mul, Nat.zero_add]
    have : ¬ (writeHexInt n).length = 0 := by omega
    simp [this]

theorem hex_roundtrip64 (n : Nat) (hn : n < 16 ^ Gen.maxHexIntChars64) (rest : Bytes)
    (hrest : ∀ c r, rest = c :: r → (hex2int c).toNat = 16) :
    readHexInt Gen.maxHexIntChars64 (writeHexInt n ++ rest) = .ok (n, rest) :=
  hex_roundtrip _ n (by decide) hn rest hrest

theorem hex_roundtrip32 (n : Nat) (hn : n < 16 ^ Gen.maxHexIntChars32) (rest : Bytes)
    (hrest : ∀ c r, rest = c :: r → (hex2int c).toNat = 16) :
    readHexInt Gen.maxHexIntChars32 (writeHexInt n ++ rest) = .ok (n, rest) :=
  hex_roundtrip _ n (by decide) hn rest hrest

/-- the platform limits leave no room for overflow in `n<<4 | k`: every accepted value is below 2^60 (2^28) -/
theorem hex_limit_no_overflow : 16 ^ Gen.maxHexIntChars64 ≤ 2 ^ 63 ∧ 16 ^ Gen.maxHexIntChars32 ≤ 2 ^ 31 := by
  decide

/-- hex sizes longer than the platform limit are rejected, whatever follows -/
theorem hex_longer_than_limit_rejected (m : Nat) (ds rest : Bytes)
    (hds : ∀ c ∈ ds, (hex2int c).toNat ≠ 16) (hlen : ds.length > m) :
    readHexInt m (ds ++ rest) = .error .tooLarge := by
  rcases readHex_too_long m ds 0 0 rest hds (by omega) with h | h
  · exact h
  · omega

/-! ### non-vacuity / boundary examples (64-bit) -/
def errOf {α ε} : Except ε α → Option ε | .error e => some e | .ok _ => none
example : (parseUint 64 (ofString "9223372036854775807")).toOption = some 9223372036854775807 := by decide +kernel
example : ∃ e, parseUint 64 (ofString "9223372036854775808") = .error e :=
  parseUint_rejects 64 (Or.inl rfl) _ (by decide +kernel)
example : errOf (parseUint 64 (ofString "18446744073709551617")) = some .trailing := by decide +kernel
example : ∃ e, parseUint 32 (ofString "2147483648") = .error e :=
  parseUint_rejects 32 (Or.inr rfl) _ (by decide +kernel)
example : appendUint 1203 = ofString "1203" := by decide +kernel
example : writeHexInt 48879 = ofString "beef" := by decide +kernel
example : (readHexInt 15 (ofString "beef\r\n")).toOption = some (48879, ofString "\r\n") := by decide +kernel

end Fh.Props.C30
