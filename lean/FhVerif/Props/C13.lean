/-
C13 — Worker pool serves each connection once and stays within its bound.

All theorems quantify over ARBITRARY event lists `evs` from the initial pool: any interleaving of the two halves of
`Serve` (getCh, send), the worker steps (recv, finish, release, exit), `clean` (lock section, notify) and `Stop`,
at the granularity of the critical sections of workerpool.go (Model/WorkerPool.lean).
Residue (not provable here): the Go code really executes these regions atomically, goroutines that have an
enabled step are eventually scheduled, and the clock values `release`/`clean` read.
-/
import FhVerif.Proofs.WorkerPool
import FhVerif.Gen.WpRegions

namespace Fh.Props.C13
open Fh.Model.WP Fh.Proofs.WorkerPool

/-- 1 iff worker `w` is inside `WorkerFunc` -/
def running (s : State) (w : Nat) : Nat :=
  match (s.workers w).phase with
  | .serving _ => 1
  | _ => 0

/-- At most MaxWorkersCount workers exist at any time: `workersCount` never exceeds the bound, it is exactly the
    number of worker goroutines that have not finished, and the number of concurrently running `WorkerFunc`
    calls is bounded by it. -/
theorem workers_le_max (m : Nat) (evs : List Event) (s : State) (h : run (init m) evs = some s) :
    s.workersCount ≤ m ∧ s.workersCount = sumTo s.nextWid (live s) ∧ sumTo s.nextWid (running s) ≤ s.workersCount := by
  have hi := run_inv evs (inv_init m) h
  have hm : s.maxWorkers = m := run_maxWorkers evs h
  refine ⟨by have := hi.a.hMax; omega, hi.a.hCount, ?_⟩
  rw [hi.a.hCount]
  apply sumTo_le
  intro x
  simp only [running, live]
  cases (s.workers x).phase <;> simp

/-- Safety half of "served exactly once", in every reachable state and for every connection `c` submitted so far:
    `c` was received by at most one worker, at most once; it has at most one terminal outcome (closed / hijacked)
    and only after it was received; a connection rejected by `Serve` is never received; and a worker that is
    inside `WorkerFunc(c)` is THE receiver of `c` (so no two workers ever serve the same connection). -/
theorem served_exactly_once (m : Nat) (evs : List Event) (s : State) (h : run (init m) evs = some s)
    (c : Nat) (hc : c < s.nconns) :
    (s.recvBy c).length ≤ 1 ∧ (s.outcomes c).length ≤ (s.recvBy c).length ∧
    (s.loc c = .rejected → s.recvBy c = [] ∧ s.outcomes c = []) ∧
    (∀ w, (s.workers w).phase = .serving c → s.recvBy c = [w]) ∧
    (∀ w v, (s.workers w).phase = .serving c → (s.workers v).phase = .serving c → w = v) := by
  have hi := run_inv evs (inv_init m) h
  have hserv : ∀ w, (s.workers w).phase = .serving c → s.loc c = .at w :=
    fun w hw => hi.b.hHold w c (Or.inr (Or.inr hw))
  have huniq : ∀ w v, (s.workers w).phase = .serving c → (s.workers v).phase = .serving c → w = v := by
    intro w v hw hv
    have h1 := hserv w hw
    have h2 := hserv v hv
    rw [h1] at h2; injection h2
  cases hl : s.loc c with
  | fresh => have := (hi.b.hFresh c).mp hl; omega
  | rejected =>
    have := hi.b.hNone c (Or.inr hl)
    refine ⟨by simp [this.1], by simp [this.1, this.2], fun _ => this, ?_, huniq⟩
    intro w hw; have := hserv w hw; rw [hl] at this; cases this
  | «at» w0 =>
    have hat := hi.b.hAt c w0 hl
    refine ⟨?_, ?_, ?_, ?_, huniq⟩
    · rw [hat.2]; split <;> simp
    · rw [hat.1]; simp
    · intro e; cases e
    · intro w hw
      have := hserv w hw
      rw [hl] at this; injection this with this; subst this
      rw [hat.2, if_pos hw]
  | done w0 =>
    have hd := hi.b.hDone c w0 hl
    refine ⟨by simp [hd.1], by simp [hd.1, hd.2], ?_, ?_, huniq⟩
    · intro e; cases e
    · intro w hw; have := hserv w hw; rw [hl] at this; cases this

/-- Completion half of "served exactly once" and "no connection is lost across Stop".
    From EVERY reachable state — in particular with `Stop` anywhere in `evs` — the autonomous continuation
    (only worker steps, pending `send`s of Serve calls already past getCh and pending clean notifications; no new
    Serve, clean or Stop) computed by `drainEvents` is executable to its end, and afterwards every connection
    submitted so far is either the one `Serve` rejected, or was received by exactly one worker and has exactly one
    terminal outcome; if the pool was stopped, no worker is left at all. -/
theorem no_conn_lost_across_stop (m : Nat) (evs : List Event) (s : State) (h : run (init m) evs = some s) :
    ∃ s', run s (drainEvents (work s) s) = some s' ∧ (∀ e ∈ drainEvents (work s) s, isAuto e = true) ∧
      s'.nconns = s.nconns ∧
      (∀ c, c < s.nconns →
        (s.loc c = .rejected ∧ s'.recvBy c = [] ∧ s'.outcomes c = []) ∨
        (s.loc c ≠ .rejected ∧ ∃ w, s'.recvBy c = [w] ∧ (s'.outcomes c).length = 1)) ∧
      (s.mustStop = true → s'.workersCount = 0 ∧ (∀ w, (s'.workers w).phase = .exited) ∧ s'.ready = []) := by
  have hi := run_inv evs (inv_init m) h
  obtain ⟨s', hr, hi', hw, hn, hm, hall⟩ := drain_spec (work s) hi (Nat.le_refl _)
  refine ⟨s', hr, hall, hn, ?_, ?_⟩
  · intro c hc
    have hrej := run_auto_rejected _ hi hall hr c
    rcases quiescent_conns hi' hw c (by omega) with ⟨h1, h2, h3⟩ | ⟨w, h1, h2, h3⟩
    · exact Or.inl ⟨hrej.mp h1, h2, h3⟩
    · right
      refine ⟨?_, w, h2, h3⟩
      intro e; have := hrej.mpr e; rw [h1] at this; cases this
  · intro hms
    have hms' : s'.mustStop = true := by rw [hm]; exact hms
    obtain ⟨h1, h2⟩ := quiescent_stopped hi' hw hms'
    exact ⟨h1, h2, hi'.a.hStop hms'⟩

/-- The continuation above is not special: EVERY autonomous event that is enabled strictly decreases `work`
    (so every schedule of autonomous events is finite, bounded by `work s`) and leaves the set of submitted
    connections and the stop flag alone; as long as `work s > 0` some autonomous event is enabled (no deadlock);
    and `work s = 0` means every connection is finished and every worker is idle in `ready` or gone. -/
theorem every_schedule_completes (m : Nat) (evs : List Event) (s : State) (h : run (init m) evs = some s) :
    (∀ e s', isAuto e = true → step s e = some s' → work s' < work s ∧ s'.nconns = s.nconns ∧ s'.mustStop = s.mustStop) ∧
    (0 < work s → ∃ e, isAuto e = true ∧ (step s e).isSome = true) ∧
    (work s = 0 →
      (∀ c, c < s.nconns → (s.loc c = .rejected ∧ s.recvBy c = [] ∧ s.outcomes c = []) ∨
                            (∃ w, s.loc c = .done w ∧ s.recvBy c = [w] ∧ (s.outcomes c).length = 1)) ∧
      (∀ w, (s.workers w).phase = .exited ∨ ((s.workers w).phase = .waiting ∧ cntR s w = 1))) := by
  have hi := run_inv evs (inv_init m) h
  refine ⟨?_, ?_, ?_⟩
  · intro e s' ha hs
    obtain ⟨h1, h2, h3, _⟩ := auto_decreases e hi.a ha hs
    exact ⟨h1, h2, h3⟩
  · intro hpos
    cases hn : nextEvent s with
    | none => have := work_zero_of_no_event hi.a hn; omega
    | some e => exact ⟨e, nextEvent_spec hi.a hn⟩
  · intro h0
    exact ⟨fun c hc => quiescent_conns hi h0 c hc, fun w => quiescent_workers hi h0 w⟩

/-- After Stop no idle worker remains, ever: once `mustStop` is set it stays set, and in every reachable state
    with `mustStop` the `ready` list is empty (workers that finish later are not re-added). -/
theorem no_ready_after_stop (m : Nat) (evs evs' : List Event) (s s' : State)
    (h : run (init m) evs = some s) (hm : s.mustStop = true) (h' : run s evs' = some s') :
    s.ready = [] ∧ s'.mustStop = true ∧ s'.ready = [] := by
  have hi := run_inv evs (inv_init m) h
  have hi' := run_inv evs' hi h'
  have hm' := run_mustStop evs' h' hm
  exact ⟨hi.a.hStop hm, hm', hi'.a.hStop hm'⟩

/-- `Stop` itself: it is always enabled (its sends under the lock never block), it empties `ready`, and every
    worker that was idle gets exactly one nil. -/
theorem stop_notifies_every_ready_worker (m : Nat) (evs : List Event) (s : State) (h : run (init m) evs = some s)
    (hm : s.mustStop = false) :
    ∃ s', step s .stop = some s' ∧ s'.ready = [] ∧ s'.mustStop = true ∧
      ∀ w, (s'.workers w).chan = if 0 < cntR s w then [none] else (s.workers w).chan := by
  have hi := run_inv evs (inv_init m) h
  have hen := (sends_enabled hi.a).2.2
  cases hst : step s .stop with
  | none => rw [hst] at hen; cases hen
  | some s' =>
    refine ⟨s', rfl, ?_⟩
    simp only [step] at hst
    rw [if_neg (by simp [hm])] at hst
    split at hst
    · injection hst with hst; subst hst
      refine ⟨rfl, rfl, ?_⟩
      intro w
      by_cases hw : 0 < cntR s w
      · obtain ⟨_, _, hch, _, h1⟩ := ready_idle hi.a hw
        simp [hch, h1]
      · have : cntR s w = 0 := by omega
        simp [this]
    · cases hst

/-- No channel send of the pool ever blocks: a Serve call that holds a workerChan finds it empty, and so does
    the cleaner for every retired worker. -/
theorem sends_never_block (m : Nat) (evs : List Event) (s : State) (h : run (init m) evs = some s) :
    (∀ w c, (s.workers w).reserved = some c → (s.workers w).chan = []) ∧
    (∀ w, w ∈ s.pending → (s.workers w).chan = []) :=
  let hi := run_inv evs (inv_init m) h
  ⟨(sends_enabled hi.a).1, (sends_enabled hi.a).2.1⟩

/-- Pure lemma about the loop of `clean`: if `ready` is sorted by lastUseTime, the binary search returns exactly
    the length of the longest expired prefix, so `clean` retires exactly the expired workers and keeps the rest
    in order. -/
theorem clean_retires_prefix (s : State) (crit : Nat) (hs : s.ready.Pairwise (fun a b => a.2 ≤ b.2)) :
    cleanCount s.ready crit = (s.ready.takeWhile (fun e => decide (e.2 < crit))).length ∧
    ∃ s', step s (.clean crit) = some s' ∧
      s'.ready = s.ready.dropWhile (fun e => decide (e.2 < crit)) ∧
      s'.pending = s.pending ++ (s.ready.takeWhile (fun e => decide (e.2 < crit))).map (·.1) := by
  have hc := cleanCount_sorted s.ready crit hs
  refine ⟨hc, _, rfl, ?_, ?_⟩
  · simp only [hc]; exact drop_length_takeWhile _ _
  · simp only [hc]; rw [take_length_takeWhile]

/-! ### regenerated structural facts: the events of the model are the lock regions of workerpool.go

`fhextract` recomputes the `wp.lock` regions of the five methods on every run (Gen/WpRegions.lean). Each of
`getCh`, `release`, `clean`, `Stop` and the tail of `workerFunc` must be ONE critical section that contains every
access to `ready` / `mustStop` / `workersCount` the corresponding event of `step` performs, and nothing of it may
happen outside. In particular `Stop` drains `ready`, sends the nils and sets `mustStop` inside a single region
(event `stop`): if it is split, `release` can run in between, see `mustStop = false` and re-append a worker that
nobody stops any more — the transition system above would no longer describe the code. -/

theorem getCh_is_one_region :
    Gen.wpRegions_getCh.length = 1 ∧ Gen.wpUnlocked_getCh = [] ∧
    (∀ t ∈ ["r:ready", "w:ready", "r:workersCount", "w:workersCount"], t ∈ Gen.wpRegions_getCh.flatten) := by decide

theorem release_is_one_region :
    Gen.wpRegions_release.length = 1 ∧ Gen.wpUnlocked_release = [] ∧
    (∀ t ∈ ["r:mustStop", "w:ready"], t ∈ Gen.wpRegions_release.flatten) := by decide

/-- clean: the cut of `ready` is one region; only the nil notifications happen outside (event `notify`), and they are
    plain BLOCKING send statements ("send"; a send inside a `select` with `default` would be "trysend", one in a
    select without default "selsend"): the event `notify w` puts the nil into the worker's channel unconditionally,
    i.e. the code must wait until the retired worker takes it — with unbuffered channels (GOMAXPROCS=1) a
    non-blocking attempt would drop the signal for a worker that has called `release` but is not yet parked on its
    channel, and that worker would be lost (out of `ready`, never told to stop). -/
theorem clean_is_one_region_sends_outside :
    Gen.wpRegions_clean.length = 1 ∧ Gen.wpUnlocked_clean = ["send"] ∧
    (∀ t ∈ ["r:ready", "w:ready"], t ∈ Gen.wpRegions_clean.flatten) ∧ "send" ∉ Gen.wpRegions_clean.flatten := by decide

/-- every hand-over of the pool is a blocking send: Serve's `ch.ch <- c` (event `send`), Stop's and clean's nils;
    no method uses a non-blocking or multi-way send -/
theorem all_sends_are_blocking :
    Gen.wpRegions_Serve = [] ∧ Gen.wpUnlocked_Serve = ["send"] ∧
    (∀ t ∈ ["trysend", "selsend"],
      t ∉ Gen.wpUnlocked_clean ∧ t ∉ Gen.wpRegions_clean.flatten ∧ t ∉ Gen.wpUnlocked_Stop ∧ t ∉ Gen.wpRegions_Stop.flatten ∧
      t ∉ Gen.wpUnlocked_Serve ∧ t ∉ Gen.wpUnlocked_getCh ∧ t ∉ Gen.wpRegions_getCh.flatten ∧
      t ∉ Gen.wpUnlocked_release ∧ t ∉ Gen.wpRegions_release.flatten) := by decide

/-- Stop: draining `ready`, the nil sends and `mustStop = true` are one critical section -/
theorem stop_is_one_region :
    Gen.wpRegions_Stop.length = 1 ∧ Gen.wpUnlocked_Stop = [] ∧
    (∀ t ∈ ["r:ready", "w:ready", "send", "w:mustStop"], t ∈ Gen.wpRegions_Stop.flatten) := by decide

theorem workerFunc_exit_is_one_region :
    Gen.wpRegions_workerFunc.length = 1 ∧ Gen.wpUnlocked_workerFunc = [] ∧
    "w:workersCount" ∈ Gen.wpRegions_workerFunc.flatten := by decide

/-- `workersCount` is written in exactly two places: the creation branch of getCh (event `getCh`, +1) and the tail of
    workerFunc (event `exit`, −1, once per worker goroutine).  clean, Stop, release and Serve do not touch it — the
    invariant `workersCount = number of unfinished workers` (workers_le_max) is about exactly these two events. -/
theorem workersCount_written_only_by_getCh_and_exit :
    "w:workersCount" ∈ Gen.wpRegions_getCh.flatten ∧ "w:workersCount" ∈ Gen.wpRegions_workerFunc.flatten ∧
    (∀ t ∈ ["w:workersCount", "r:workersCount"],
      t ∉ Gen.wpRegions_clean.flatten ∧ t ∉ Gen.wpUnlocked_clean ∧ t ∉ Gen.wpRegions_Stop.flatten ∧ t ∉ Gen.wpUnlocked_Stop ∧
      t ∉ Gen.wpRegions_release.flatten ∧ t ∉ Gen.wpUnlocked_release ∧ t ∉ Gen.wpRegions_Serve.flatten ∧ t ∉ Gen.wpUnlocked_Serve) := by
  decide

/-! ### non-vacuity -/

/-- evaluate a Boolean observation on the final state of a run -/
def atEnd (o : Option State) (p : State → Bool) : Bool :=
  match o with
  | some s => p s
  | none => false

/-- one connection, Stop while it is being served: it is still finished, the worker exits, nothing is idle -/
example :
    atEnd (run (init 1) [.getCh, .send 0, .recv 0, .stop, .finish 0 false, .release 0 5, .exit 0])
      (fun s => s.workersCount == 0 && s.recvBy 0 == [0] && s.outcomes 0 == [false] && s.ready == [] && s.mustStop) = true := by
  decide

/-- bound 1: the second Serve is rejected while the first connection is served; after release the worker is reused -/
example :
    atEnd (run (init 1) [.getCh, .send 0, .recv 0, .getCh, .finish 0 true, .release 0 7, .getCh])
      (fun s => s.workersCount == 1 && s.loc 1 == Loc.rejected && s.loc 2 == Loc.at 0 && s.outcomes 0 == [true] &&
                s.ready == []) = true := by
  decide

/-- the drain of a state with a reserved worker, a queued connection and a Stop in between -/
example :
    atEnd ((run (init 2) [.getCh, .getCh, .send 0, .stop]).bind (fun s => run s (drainEvents (work s) s)))
      (fun s => s.workersCount == 0 && s.recvBy 0 == [0] && s.recvBy 1 == [1] && s.outcomes 0 == [false] &&
                s.outcomes 1 == [false]) = true := by
  decide

/-- clean on a sorted ready list: times 1 3 5 7, critical time 5 retires workers 0 and 1 -/
example : cleanCount [(0, 1), (1, 3), (2, 5), (3, 7)] 5 = 2 := by decide
example :
    atEnd (run (init 3) [.getCh, .getCh, .send 0, .send 1, .recv 0, .recv 1, .finish 0 false, .finish 1 false,
                   .release 0 1, .release 1 9, .clean 5]) (fun s => s.ready == [(1, 9)] && s.pending == [0]) = true := by
  decide

end Fh.Props.C13
