/-
C33 — In-memory pipes and listener behave like a reliable byte stream.

Pipe: theorems quantify over ARBITRARY event lists (writes and reads of any sizes at either end, Close anywhere)
and every channel capacity.  Listener: arbitrary interleavings of the lock sections / channel operations of
Dial, Accept and Close.  Residue (not covered): that the Go scheduler eventually runs a blocked call, the timers
behind deadlines, and the atomicity of the modelled steps themselves.
-/
import FhVerif.Proofs.Pipe
import FhVerif.Gen.PipeWrite

namespace Fh.Props.C33
open Fh Fh.Model Fh.Model.Pipe Fh.Proofs.Pipe

/-! ## Pipe -/

/-- `Dir.read` (structural definition used by the theorems) is pipeConn.Read's loop, statement by statement -/
theorem read_is_the_go_loop (stopped : Bool) (s : Dir) (n : Nat) : s.readViaLoop stopped n = s.read stopped n :=
  readViaLoop_eq stopped s n

/-- State form: in every reachable state, for each end, what was delivered ++ the partially read buffer ++ the
    channel content is exactly what the other end wrote. -/
theorem reads_prefix_of_writes_state (cap : Nat) (es : List Ev) (e : End) :
    ((reach cap es).rdir e).readAcc ++ ((reach cap es).rdir e).bb ++ ((reach cap es).rdir e).chan.flatten
      = ((reach cap es).rdir e).written := by
  have h := dupInv_run (cap := cap) es (dupInv_init cap)
  cases e
  · exact h.c21
  · exact h.c12

/-- C33 (stream): for any interleaving of writes and reads of any sizes and any Close points, the concatenation
    of everything the reads of end `e` returned, followed by the bytes still buffered, is exactly the
    concatenation of the successful writes of the other end: nothing lost, duplicated or reordered.
    (Observer form: `readsOf`/`writesOf` are computed from the calls and their results only.) -/
theorem reads_prefix_of_writes (cap : Nat) (es : List Ev) (e : End) :
    readsOf e es (run cap Duplex.init es).1 ++ (((reach cap es).rdir e).bb ++ ((reach cap es).rdir e).chan.flatten)
      = writesOf e.other es (run cap Duplex.init es).1 := by
  have hs := reads_prefix_of_writes_state cap es e
  have hr := (ghosts_run cap e es Duplex.init).2
  have hw := (ghosts_run cap e.other es Duplex.init).1
  have hd : ∀ s : Duplex, s.wdir e.other = s.rdir e := by intro s; cases e <;> rfl
  have hi1 : (Duplex.init.rdir e).readAcc = [] := by cases e <;> rfl
  have hi2 : (Duplex.init.wdir e.other).written = [] := by cases e <;> rfl
  rw [hd, hi2, List.nil_append] at hw
  rw [hi1, List.nil_append] at hr
  simp only [reach] at hs ⊢
  rw [← hw, ← hr, ← hs, List.append_assoc]

/-- what was read is a prefix of what was written -/
theorem reads_are_a_prefix (cap : Nat) (es : List Ev) (e : End) :
    readsOf e es (run cap Duplex.init es).1 <+: writesOf e.other es (run cap Duplex.init es).1 :=
  ⟨_, reads_prefix_of_writes cap es e⟩

/-- C33 (capacity): the channel never holds more than `cap` buffers; in a reachable state Write blocks iff the
    pipe is not closed and the channel is full. -/
theorem chan_le_cap (cap : Nat) (es : List Ev) (e : End) : ((reach cap es).wdir e).chan.length ≤ cap := by
  have h := dupInv_run (cap := cap) es (dupInv_init cap)
  cases e
  · exact h.l12
  · exact h.l21

theorem write_blocks_iff (cap : Nat) (es : List Ev) (e : End) (p : Bytes) :
    (step cap (reach cap es) (.write e p)).1 = .w .block ↔
      (reach cap es).stopped = false ∧ ((reach cap es).wdir e).chan.length = cap := by
  have hle := chan_le_cap cap es e
  simp only [step, Dir.write]
  by_cases h1 : (reach cap es).stopped = true
  · simp [h1]
  · by_cases h2 : cap ≤ ((reach cap es).wdir e).chan.length
    · simp [h1, h2]; omega
    · simp [h1, h2]; omega

/-- C33 (writes fail after Close): in a closed pipe Write returns ErrConnectionClosed and changes nothing -/
theorem write_after_close_fails (cap : Nat) (s : Duplex) (e : End) (p : Bytes) (h : s.stopped = true) :
    step cap s (.write e p) = (.w .closed, s) := by
  simp [step, Dir.write, h, setW_self]

/-- … and nothing ever re-opens the pipe: after a Close anywhere in the run the pipe is closed for good -/
theorem close_is_permanent (cap : Nat) (es1 es2 : List Ev) : (reach cap (es1 ++ .close :: es2)).stopped = true := by
  have happ : ∀ (l1 l2 : List Ev) (s : Duplex), (run cap s (l1 ++ l2)).2 = (run cap (run cap s l1).2 l2).2 := by
    intro l1
    induction l1 with
    | nil => intro l2 s; rfl
    | cons x l1 ih => intro l2 s; simp only [List.cons_append, run]; exact ih l2 _
  unfold reach
  rw [happ]
  simp only [run]
  exact stopped_run es2 rfl

/-- C33 (EOF only after everything): a Read of at least one byte on a closed pipe never blocks; it returns EOF
    iff nothing is pending (no partial buffer, empty channel); an EOF read returns no data and changes nothing;
    a non-EOF read strictly decreases `measure` (so EOF is reached). -/
theorem read_after_close (s : Dir) (n : Nat) (hn : 0 < n) :
    (s.read true n).1.err ≠ .block ∧
    ((s.read true n).1.err = .eof ↔ s.bb = [] ∧ s.chan = []) ∧
    ((s.read true n).1.err = .eof → (s.read true n).1.data = [] ∧ (s.read true n).2 = s) ∧
    ((s.read true n).1.err ≠ .eof → (s.read true n).2.measure < s.measure) := by
  have he := read_err true s n hn
  by_cases h : s.bb = [] ∧ s.chan = []
  · simp only [h, and_self, if_true] at he
    refine ⟨(by rw [he]; simp), (by rw [he]; simp [h]), (fun _ => read_err_unchanged s n (by rw [he]; simp)), ?_⟩
    intro hne; exact absurd he hne
  · simp only [h, if_false] at he
    refine ⟨(by rw [he]; simp), (by rw [he]; simp [h]), (fun h' => by rw [he] at h'; cases h'), ?_⟩
    intro _; exact read_measure_lt true s n hn he

/-- EOF means everything was delivered: whenever a Read of end `e` in a reachable state returns EOF, the reads
    of `e` so far have returned exactly the bytes the other end wrote. -/
theorem eof_means_all_delivered (cap : Nat) (es : List Ev) (e : End) (n : Nat)
    (h : (step cap (reach cap es) (.read e n)).1 = .r ⟨[], .eof⟩) :
    readsOf e es (run cap Duplex.init es).1 = writesOf e.other es (run cap Duplex.init es).1 := by
  have hp := reads_prefix_of_writes cap es e
  simp only [step, Dir.read] at h
  by_cases h0 : n = 0
  · simp [h0] at h
  · by_cases h1 : ((reach cap es).rdir e).bb = [] ∧ ((reach cap es).rdir e).chan = []
    · rw [h1.1, h1.2] at hp; simpa using hp
    · simp [h0, h1] at h

/-- C33 (after Close): let the pipe be closed after `es`.  For ANY continuation `es2` (reads and writes at both
    ends, further Close calls) in which end `e` issues more than `measure` reads, each of at least one byte:
    the results of those reads are a block of successful reads followed by a non-empty block of (no data, EOF);
    the successful ones deliver exactly the bytes that were still pending, so that in total `e` has read
    everything the other end wrote before Close; no read blocks; once EOF, always EOF. -/
theorem after_close_drain_then_eof (cap : Nat) (es es2 : List Ev) (e : End)
    (hst : (reach cap es).stopped = true)
    (hpos : ∀ n ∈ readSizes e es2, 0 < n)
    (hlen : ((reach cap es).rdir e).measure < (readSizes e es2).length) :
    ∃ pre post, readResults e es2 (run cap (reach cap es) es2).1 = pre ++ post ∧
      pre.length ≤ ((reach cap es).rdir e).measure ∧ post ≠ [] ∧
      (∀ r ∈ pre, r.err = .nil) ∧ (∀ r ∈ post, r = ⟨[], .eof⟩) ∧
      readsOf e es (run cap Duplex.init es).1 ++ (pre.map (·.data)).flatten
        = writesOf e.other es (run cap Duplex.init es).1 := by
  have hf := (reads_after_close_frame cap e es2 (reach cap es) hst).1
  obtain ⟨pre, post, h1, h2, h3, h4, h5, h6, _, _⟩ :=
    readSeq_drain _ ((reach cap es).rdir e) (readSizes e es2) (Nat.le_refl _) hpos hlen
  refine ⟨pre, post, by rw [hf, h1], h2, h3, h4, h6, ?_⟩
  rw [h5]
  exact reads_prefix_of_writes cap es e

/-- Regenerated structural fact: pipeConn.Write hands AT MOST ONE buffer to the channel per call and reports
    either (len(p), nil) or (0, err) — exactly the shape of `Dir.write` (whole payload or nothing).  It has no loop,
    calls no other method of the connection, contains the two send statements of the single non-blocking/blocking
    attempt, and every failing return reports 0 bytes.  A Write that can succeed partially (several buffers per
    call) no longer satisfies this; then the count it returns would have to be modelled and proved. -/
theorem write_is_one_send_or_nothing :
    Gen.pipeWrite_loops = 0 ∧ Gen.pipeWrite_selfCalls = [] ∧ Gen.pipeWrite_sendStmts = 2 ∧
    Gen.pipeWrite_returns = ["0, ErrConnectionClosed", "0, ErrTimeout", "0, ErrConnectionClosed", "len(p), nil"] := by
  decide

/-- Regenerated structural fact: the model's `write` event covers EVERY way bytes can enter the pipe.  In the whole
    package the only function with a send on a pipe channel is `pipeConn.Write` (the listener's Dial sends on
    `ln.conns`, a different channel); the other exported entry point `WriteString` (io.StringWriter, used by
    io.WriteString and bufio) consists of `return c.Write(s2b(s))`; and inside Write the `<-stopCh → return` check
    precedes the first send.  So no entry point can bypass the closed check or the one-send shape: a new method or
    helper that sends by itself (e.g. a WriteString with its own copy-and-send) breaks this obligation. -/
theorem every_entry_point_is_write :
    Gen.pipe_sendFuncs = ["InmemoryListener.DialWithLocalAddr", "pipeConn.Write"] ∧
    Gen.pipeWriteString_body = ["return c.Write(s2b(s))"] ∧ Gen.pipeWrite_closedCheckFirst = true := by
  decide

/-- Regenerated structural fact, consumer side: the model's `read` event covers EVERY way bytes can leave the pipe.
    Only `readNextByteBuffer` receives from a pipe channel, only the unexported `read` calls it (after looking at
    the partly consumed buffer `c.bb`), only the exported `Read` calls `read`, nothing else touches `c.bb`, and the
    method set of pipeConn is exactly the one listed (no io.WriterTo / ReadFrom / other consumer): io.Copy,
    io.ReadFull and bufio all end up in `Read`.  A new consumer that fetches buffers by itself (and could forget
    `c.bb`) breaks this obligation. -/
theorem every_consumer_is_read :
    Gen.pipe_rChReceivers = ["pipeConn.readNextByteBuffer"] ∧ Gen.pipe_callersOfReadNext = ["pipeConn.read"] ∧
    Gen.pipe_callersOfRead = ["pipeConn.Read"] ∧ Gen.pipe_bbUsers = ["pipeConn.read", "pipeConn.readNextByteBuffer"] ∧
    Gen.pipeConn_methods = ["Close", "LocalAddr", "Read", "RemoteAddr", "SetDeadline", "SetReadDeadline",
      "SetWriteDeadline", "Write", "WriteString", "read", "readNextByteBuffer"] := by
  decide

/-- Regenerated structural fact: Write does not retain the caller's slice.  The value it sends on the channel is the
    variable `b`, `b` is only ever `acquireByteBuffer()` (a pooled buffer of its own), its content is
    `append(b.b[:0], p...)` (a COPY of p), and p is used nowhere else except `len(p)`.  This discharges what the model
    takes for granted: `Dir.write` stores the VALUE of the payload at the time of the call (`chan ++ [p]`), so
    whatever the writer does with its slice afterwards cannot change what the peer reads (io.Writer: "Write must not
    modify the slice data … Implementations must not retain p").  A Write that queues a buffer aliasing p breaks it. -/
theorem write_copies_payload :
    Gen.pipeWrite_sentValues = ["b", "b"] ∧ Gen.pipeWrite_bufDefs = ["acquireByteBuffer()"] ∧
    Gen.pipeWrite_bufFills = ["b = append(b.b[:0], p...)"] ∧
    Gen.pipeWrite_usesOfPayload = ["append(b.b[:0], p...)", "len(p)"] := by
  decide

/-- model side of the same fact: a Write that does not return `ok` leaves the stream untouched, and `ok n` means
    n = len(p) bytes were appended to what the peer will read -/
theorem write_count_is_what_the_peer_gets (cap : Nat) (stopped : Bool) (s : Dir) (p : Bytes) :
    (∀ n, (s.write cap stopped p).1 = .ok n → n = p.length ∧ (s.write cap stopped p).2.written = s.written ++ p ∧
        (s.write cap stopped p).2.chan = s.chan ++ [p]) ∧
    ((∀ n, (s.write cap stopped p).1 ≠ .ok n) → (s.write cap stopped p).2 = s) := by
  unfold Dir.write
  by_cases h1 : stopped = true
  · simp [h1]
  · by_cases h2 : cap ≤ s.chan.length
    · simp [h1, h2]
    · simp [h1, h2]

/-! ### non-vacuity (pipe) -/

/-- the run used below: write [1,2,3]; write []; read 2; close; write [9]; read 5; read 1; read 1 at the peer -/
def demo : List Ev :=
  [.write .e1 [1, 2, 3], .write .e1 [], .read .e2 2, .close, .write .e1 [9], .read .e2 5, .read .e2 1, .read .e2 1]

example : (run 4 Duplex.init demo).1 =
    [.w (.ok 3), .w (.ok 0), .r ⟨[1, 2], .nil⟩, .c, .w .closed, .r ⟨[3], .nil⟩, .r ⟨[], .eof⟩, .r ⟨[], .eof⟩] := by
  decide +kernel
example : readsOf .e2 demo (run 4 Duplex.init demo).1 = [1, 2, 3] ∧ writesOf .e1 demo (run 4 Duplex.init demo).1 = [1, 2, 3] := by
  decide +kernel
/-- mid-run: delivered [1,2], partial buffer [3], one (empty) buffer in the channel -/
example : ((reach 4 (demo.take 3)).rdir .e2).readAcc = [1, 2] ∧ ((reach 4 (demo.take 3)).rdir .e2).bb = [3] ∧
    ((reach 4 (demo.take 3)).rdir .e2).chan = [[]] ∧ ((reach 4 (demo.take 3)).rdir .e2).measure = 2 := by
  decide +kernel
/-- hypotheses of `after_close_drain_then_eof` hold for es = first four events, es2 = the rest -/
example : (reach 4 (demo.take 4)).stopped = true ∧ readSizes .e2 (demo.drop 4) = [5, 1, 1] ∧
    ((reach 4 (demo.take 4)).rdir .e2).measure < (readSizes .e2 (demo.drop 4)).length ∧
    readResults .e2 (demo.drop 4) (run 4 (reach 4 (demo.take 4)) (demo.drop 4)).1 = [⟨[3], .nil⟩, ⟨[], .eof⟩, ⟨[], .eof⟩] := by
  decide +kernel
/-- a Read can return (0, nil): it consumed an empty buffer and found nothing behind it -/
example : (Dir.read false ⟨[[]], [], [], []⟩ 4).1 = ⟨[], .nil⟩ := by decide +kernel
/-- one Read spans several buffers but never waits for more than the first -/
example : (Dir.read false ⟨[[3], [4, 5], [6]], [1, 2], [], []⟩ 4) = (⟨[1, 2, 3, 4], .nil⟩, ⟨[[6]], [5], [], [1, 2, 3, 4]⟩) := by
  decide +kernel
example : (Dir.readViaLoop false ⟨[[3], [4, 5], [6]], [1, 2], [], []⟩ 4) = (⟨[1, 2, 3, 4], .nil⟩, ⟨[[6]], [5], [], [1, 2, 3, 4]⟩) := by
  decide +kernel
/-- capacity: the fifth outstanding write blocks, a read makes room, Close turns block into closed -/
example : (run 4 Duplex.init [.write .e2 [1], .write .e2 [2], .write .e2 [3], .write .e2 [4], .write .e2 [5],
      .read .e1 1, .write .e2 [5], .write .e2 [6], .read .e2 1, .close, .write .e2 [6]]).1 =
    [.w (.ok 1), .w (.ok 1), .w (.ok 1), .w (.ok 1), .w .block, .r ⟨[1], .nil⟩, .w (.ok 1), .w .block,
      .r ⟨[], .block⟩, .c, .w .closed] := by
  decide +kernel
example : ((reach 4 [.write .e2 [1], .write .e2 [2], .write .e2 [3], .write .e2 [4]]).wdir .e2).chan.length = 4 := by
  decide +kernel

/-- OUTSIDE the theorems (residue "atomicity of the modelled steps"): a Write that overlaps Close in real time.
    Its stopCh check ran before Close, its send after: the reader, woken by Close, finds the channel empty and gets
    EOF; then the send succeeds (Write returns n, nil); a later Read returns the byte.  Observed on the real code
    (scratch program, 24 of 300000 runs).  The events of `step` are whole calls, so this schedule is not an event
    list of the model; the harness monitor only demands delivery of writes that returned before Close was called. -/
example :
    let s0 := Dir.init
    let r1 := s0.read true 1            -- blocked Read woken by Close: EOF
    let w := r1.2.sendLate 4 [7]        -- the overlapping Write completes: (1, nil)
    let r2 := w.2.read true 1           -- a Read after EOF delivers the byte
    r1.1 = ⟨[], .eof⟩ ∧ w.1 = .ok 1 ∧ r2.1 = ⟨[7], .nil⟩ := by decide +kernel

/-! ## InmemoryListener -/
section Listener
open Fh.Model.Lsn Fh.Proofs.Pipe.Lsn

/-- C33 (pairing): in every reachable state every successful Dial `d` has exactly one Accept that returned its
    peer connection; the `accepted` handshake has happened; different Dials are returned by different Accepts;
    and an Accept only ever returns the connection of a Dial that really enqueued one. -/
theorem dial_accept_bijection (cap : Nat) (es : List Event) (s : State) (h : Lsn.run cap Lsn.init es = some s) :
    (∀ d, s.dial d = .success → ∃ a, s.acc a = .returned d ∧ ∀ a', s.acc a' = .returned d → a' = a) ∧
    (∀ d d' a a', s.acc a = .returned d → s.acc a' = .returned d' → d ≠ d' → a ≠ a') ∧
    (∀ a d, s.acc a = .returned d → s.dial d = .queued ∨ s.dial d = .success ∨ s.dial d = .failed) := by
  have hi := inv_run es (inv_init cap) h
  refine ⟨?_, ?_, ?_⟩
  · intro d hd
    obtain ⟨a, ha⟩ := hi.flag d (hi.succ d hd)
    refine ⟨a, ha, ?_⟩
    intro a' ha'
    have h1 := hi.retBy a d ha
    have h2 := hi.retBy a' d ha'
    rw [h1] at h2
    exact (Option.some.inj h2).symm
  · intro d d' a a' h1 h2 hne hEq
    subst hEq
    rw [h1] at h2
    exact hne (AStatus.returned.inj h2)
  · intro a d ha
    have h1 := hi.retBy a d ha
    have h2 := hi.early d
    cases hd : s.dial d with
    | fresh => rw [h2 (Or.inl hd)] at h1; cases h1
    | checked => rw [h2 (Or.inr hd)] at h1; cases h1
    | queued => simp
    | success => simp
    | failed => simp

/-- the queue never exceeds the channel capacity -/
theorem queue_le_cap (cap : Nat) (es : List Event) (s : State) (h : Lsn.run cap Lsn.init es = some s) :
    s.queue.length ≤ cap := (inv_run es (inv_init cap) h).qLen

/-- C33 (after Close), ghost-free form: if the listener is closed in state `s1` (any state, reachable or not), a Dial that takes the lock
    afterwards, or an Accept that makes its first check afterwards, has failed in every state reachable from
    there, whatever else happens. -/
theorem no_success_after_close (cap : Nat) (es2 : List Event) (s1 s : State) (hc : s1.closed = true) :
    (∀ d, Lsn.run cap s1 (.dialLock d :: es2) = some s → s.dial d = .failed) ∧
    (∀ a, Lsn.run cap s1 (.acceptBegin a :: es2) = some s → s.acc a = .failed) := by
  constructor
  · intro d hr
    simp only [Lsn.run] at hr
    cases hst : Lsn.step cap s1 (.dialLock d) with
    | none => simp [hst] at hr
    | some s2 =>
      rw [hst] at hr
      have : s2.dial d = .failed := by
        simp only [Lsn.step] at hst
        split at hst
        · simp only [hc] at hst; injection hst with hst; subst hst; simp [upd]
        · cases hst
      exact (stable_run es2 hr).2.1 d this
  · intro a hr
    simp only [Lsn.run] at hr
    cases hst : Lsn.step cap s1 (.acceptBegin a) with
    | none => simp [hst] at hr
    | some s2 =>
      rw [hst] at hr
      have : s2.acc a = .failed := by
        simp only [Lsn.step] at hst
        split at hst
        · simp only [hc] at hst; injection hst with hst; subst hst; simp [upd]
        · cases hst
      exact (stable_run es2 hr).2.2 a this

/-- the same with the ghost flags (`lateD`/`lateA` = the operation started after Close): no late operation
    is ever successful; and Close is permanent. -/
theorem no_late_success (cap : Nat) (es : List Event) (s : State) (h : Lsn.run cap Lsn.init es = some s) :
    (∀ d, s.dial d = .success → s.lateD d = false) ∧ (∀ a d, s.acc a = .returned d → s.lateA a = false) := by
  have hi := inv_run es (inv_init cap) h
  constructor
  · intro d hd
    cases hl : s.lateD d with
    | false => rfl
    | true => rw [hi.lateD d hl] at hd; cases hd
  · intro a d ha
    cases hl : s.lateA a with
    | false => rfl
    | true => rw [hi.lateA a hl] at ha; cases ha

theorem listener_close_is_permanent (cap : Nat) (es : List Event) (s s' : State) (hc : s.closed = true)
    (h : Lsn.run cap s es = some s') : s'.closed = true := (stable_run es h).1 hc

/-! ### non-vacuity (listener) -/

/-- two dials, two accepts, pairing (d0,a0) (d1,a1); then close; a late dial and a late accept fail -/
def lrun : List Event :=
  [.dialLock 0, .dialLock 1, .dialEnqueue 0, .acceptBegin 0, .dialEnqueue 1, .acceptTake 0, .acceptCommit 0,
   .acceptBegin 1, .acceptTake 1, .dialEnd 0, .acceptCommit 1, .dialEnd 1, .close, .dialLock 2, .acceptBegin 2]

example : (Lsn.run 1024 Lsn.init lrun).map (fun s => (s.dial 0, s.dial 1, s.dial 2, s.acc 0, s.acc 1, s.acc 2, s.closed)) =
    some (.success, .success, .failed, .returned 0, .returned 1, .failed, true) := by rfl

/-- the race the fine-grained model exposes: Accept passed its check and took the connection, Close runs, the Dial
    sees `done` before `accepted` and fails, Accept still returns the (closed) server connection.  Allowed by the
    statement (the Dial did not succeed); the theorem's third clause covers it (dial = failed). -/
example : (Lsn.run 1024 Lsn.init [.dialLock 0, .dialEnqueue 0, .acceptBegin 0, .acceptTake 0, .close, .dialAbort 0,
      .acceptCommit 0]).map (fun s => (s.dial 0, s.acc 0)) = some (.failed, .returned 0) := by rfl

/-- Close with a queued connection: the drain closes it, the Dial fails; an Accept blocked before Close fails -/
example : (Lsn.run 1024 Lsn.init [.acceptBegin 0, .dialLock 0, .dialEnqueue 0, .close, .closeDrain, .acceptTake 0,
      .dialAbort 0]).map (fun s => (s.dial 0, s.acc 0, s.queue)) = some (.failed, .failed, []) := by rfl

/-- an Accept on an open listener with an empty queue is not enabled (it waits) -/
example : Lsn.run 1024 Lsn.init [.acceptBegin 0, .acceptTake 0] = none := by
  simp [Lsn.run, Lsn.step, Lsn.init, upd]

end Listener

end Fh.Props.C33
