/-
C05 — Setter inputs cannot inject header lines or extra messages.

Model: Model/HeaderSet.lean (setter families of both header types, AppendBytes, CONNECT line of httpProxyDial).
Reference: Spec/HeadLines.lean (lenient line-level reader of a message head).
External inputs of the response model — the reason phrase of the status code (status.go table) and the cached Date
value — are hypotheses (`RespOpOK`, `hd`, `ht`): they must be CR/LF free; the C05 harness checks both on every case.
-/
import FhVerif.Proofs.HeaderSet
import FhVerif.Gen.Facts

namespace Fh.Props.C05
open Fh Fh.Model Fh.Spec Fh.Proofs.Cookie Fh.Proofs.HeaderSet

/-- a fresh RequestHeader with its two switches -/
def reqInit (dis ndct : Bool) : C05Req := { disableNormalizing := dis, noDefaultContentType := ndct }

/-- a fresh ResponseHeader; `date` = cached server date (none = NoDefaultDate), `text` = reason phrase of status 200 -/
def respInit (dis ndct : Bool) (date : Option Bytes) (text : Bytes) : C05Resp :=
  { disableNormalizing := dis, noDefaultContentType := ndct, date := date, statusText := text }

/-- the field name a peer reads from a line that starts with `k`: everything before the first ':' -/
def nameSeen (k : Bytes) : Bytes := k.takeWhile (· != 58)

/-! ### the sanitiser -/

/-- removeNewLines leaves no CR and no LF, for every input -/
theorem removeNewLines_total (b : Bytes) : ∀ c ∈ removeNewLines b, c ≠ 13 ∧ c ≠ 10 := removeNewLines_noNL b

/-- header names stored by the normalising setters contain no CR / LF, whatever bytes were passed and whether or not
    normalisation is enabled -/
theorem header_key_clean (k : Bytes) (dis : Bool) : ∀ c ∈ normalizeHeaderKey k dis, c ≠ 13 ∧ c ≠ 10 :=
  normalizeHeaderKey_noNL k dis

/-! ### regenerated structural facts: every setter family reaches the sanitiser (re-decided against /repo on each run) -/

/-- value chain: initHeaderValueString → initHeaderValueBytes → removeNewLines; key chain: initHeaderKV → getHeaderKeyBytes →
    normalizeHeaderKey → removeNewLines -/
theorem sanitiser_chain :
    "removeNewLines" ∈ Gen.calls_initHeaderValueBytes ∧ "initHeaderValueBytes" ∈ Gen.calls_initHeaderValueString ∧
    "removeNewLines" ∈ Gen.calls_normalizeHeaderKey ∧ "normalizeHeaderKey" ∈ Gen.calls_getHeaderKeyBytes ∧
    "getHeaderKeyBytes" ∈ Gen.calls_initHeaderKV ∧ "initHeaderValueString" ∈ Gen.calls_initHeaderKV := by decide

theorem request_setters_call_sanitiser :
    "initHeaderValueString" ∈ Gen.calls_RequestHeader_SetHost ∧ "initHeaderValueBytes" ∈ Gen.calls_RequestHeader_SetHostBytes ∧
    "initHeaderValueString" ∈ Gen.calls_RequestHeader_SetUserAgent ∧ "initHeaderValueBytes" ∈ Gen.calls_RequestHeader_SetUserAgentBytes ∧
    "initHeaderValueString" ∈ Gen.calls_RequestHeader_SetMethod ∧ "initHeaderValueBytes" ∈ Gen.calls_RequestHeader_SetMethodBytes ∧
    "initHeaderValueString" ∈ Gen.calls_RequestHeader_SetRequestURI ∧ "initHeaderValueBytes" ∈ Gen.calls_RequestHeader_SetRequestURIBytes ∧
    "initHeaderValueString" ∈ Gen.calls_RequestHeader_SetProtocol ∧ "initHeaderValueBytes" ∈ Gen.calls_RequestHeader_SetProtocolBytes ∧
    "initHeaderValueBytes" ∈ Gen.calls_RequestHeader_SetRefererBytes ∧ "initHeaderValueBytes" ∈ Gen.calls_RequestHeader_SetContentEncodingBytes ∧
    "initHeaderValueBytes" ∈ Gen.calls_RequestHeader_SetCanonical ∧ "initHeaderKV" ∈ Gen.calls_RequestHeader_Set ∧
    "normalizeHeaderKey" ∈ Gen.calls_RequestHeader_SetBytesKV ∧ "getHeaderKeyBytes" ∈ Gen.calls_RequestHeader_SetBytesV ∧
    "initHeaderKV" ∈ Gen.calls_RequestHeader_AddBytesKV ∧ "initHeaderValueString" ∈ Gen.calls_RequestHeader_SetCookie ∧
    "initHeaderValueString" ∈ Gen.calls_header_SetContentType ∧ "initHeaderValueBytes" ∈ Gen.calls_header_SetContentTypeBytes := by
  decide

theorem response_setters_call_sanitiser :
    "initHeaderValueBytes" ∈ Gen.calls_ResponseHeader_SetStatusMessage ∧ "initHeaderValueBytes" ∈ Gen.calls_ResponseHeader_SetProtocol ∧
    "initHeaderValueString" ∈ Gen.calls_ResponseHeader_SetServer ∧ "initHeaderValueBytes" ∈ Gen.calls_ResponseHeader_SetServerBytes ∧
    "initHeaderValueString" ∈ Gen.calls_ResponseHeader_SetContentEncoding ∧
    "initHeaderValueBytes" ∈ Gen.calls_ResponseHeader_SetContentEncodingBytes ∧
    "initHeaderValueBytes" ∈ Gen.calls_ResponseHeader_SetCanonical ∧ "initHeaderKV" ∈ Gen.calls_ResponseHeader_Set ∧
    "normalizeHeaderKey" ∈ Gen.calls_ResponseHeader_SetBytesKV ∧ "getHeaderKeyBytes" ∈ Gen.calls_ResponseHeader_SetBytesV ∧
    "initHeaderKV" ∈ Gen.calls_ResponseHeader_AddBytesKV ∧ "initHeaderValueBytes" ∈ Gen.calls_ResponseHeader_SetCookie := by
  decide

/-! ### RequestHeader -/

/-- C05 (request): after ANY sequence of setter calls with ANY byte strings, AppendBytes writes
    `first-line CRLF (name ": " value CRLF)* CRLF` where the first line and every name and value are free of CR and LF. -/
theorem no_crlf_in_fields_request (dis ndct : Bool) (ops : List C05ReqOp) :
    let s := C05Req.run (reqInit dis ndct) ops
    s.appendBytes = c05Serialize s.firstLine s.fields ∧
    (∀ c ∈ s.firstLine, c ≠ 13 ∧ c ≠ 10) ∧ ∀ kv ∈ s.fields, (∀ c ∈ kv.1, c ≠ 13 ∧ c ≠ 10) ∧ (∀ c ∈ kv.2, c ≠ 13 ∧ c ≠ 10) := by
  intro s
  have hc := req_run_clean ops _ (req_init_clean dis ndct)
  exact ⟨rfl, req_fields_clean _ hc⟩

/-- C05 (request): a peer reading line by line (LF or CRLF terminated) sees exactly one head — the first line written,
    one field per `appendHeaderLine` call — and nothing after the blank line. -/
theorem one_message_request (dis ndct : Bool) (ops : List C05ReqOp) :
    let s := C05Req.run (reqInit dis ndct) ops
    parseHead s.appendBytes = some ⟨s.firstLine, s.fields.map seenField, []⟩ := by
  intro s
  have hc := req_fields_clean _ (req_run_clean ops _ (req_init_clean dis ndct))
  exact parseHead_serialize _ _ hc.1 hc.2

/-- C05 (request): every field name the peer sees is the (canonical) name of a key passed to Set/Add, read up to its
    first ':', or one of the names the library writes on its own.  No guard on the keys. -/
theorem names_subset_request (dis ndct : Bool) (ops : List C05ReqOp) :
    let s := C05Req.run (reqInit dis ndct) ops
    ∀ h, parseHead s.appendBytes = some h →
      ∀ f ∈ h.fields, f.1 ∈ (reqAutoKeys ++ ops.flatMap (reqKeyOf dis)).map nameSeen := by
  intro s h hh f hf
  rw [one_message_request dis ndct ops] at hh
  cases hh
  simp only [List.mem_map] at hf
  obtain ⟨kv, hkv, rfl⟩ := hf
  have hk := req_run_keys ops (reqInit dis ndct) reqAutoKeys (fun x hx => hx) (fun e he => nomatch he)
  have := req_field_keys s _ (fun x hx => by simp [hx]) hk kv hkv
  exact List.mem_map.2 ⟨kv.1, this, rfl⟩

/-! ### ResponseHeader -/

theorem no_crlf_in_fields_response (dis ndct : Bool) (date : Option Bytes) (text : Bytes)
    (hd : ∀ d, date = some d → ∀ c ∈ d, c ≠ 13 ∧ c ≠ 10) (ht : ∀ c ∈ text, c ≠ 13 ∧ c ≠ 10)
    (ops : List C05RespOp) (hops : ∀ op ∈ ops, RespOpOK op) :
    let s := C05Resp.run (respInit dis ndct date text) ops
    s.appendBytes = c05Serialize s.firstLine s.fields ∧
    (∀ c ∈ s.firstLine, c ≠ 13 ∧ c ≠ 10) ∧ ∀ kv ∈ s.fields, (∀ c ∈ kv.1, c ≠ 13 ∧ c ≠ 10) ∧ (∀ c ∈ kv.2, c ≠ 13 ∧ c ≠ 10) := by
  intro s
  have hc := resp_run_clean ops _ hops (resp_init_clean dis ndct date text hd ht)
  exact ⟨rfl, resp_fields_clean _ hc⟩

theorem one_message_response (dis ndct : Bool) (date : Option Bytes) (text : Bytes)
    (hd : ∀ d, date = some d → ∀ c ∈ d, c ≠ 13 ∧ c ≠ 10) (ht : ∀ c ∈ text, c ≠ 13 ∧ c ≠ 10)
    (ops : List C05RespOp) (hops : ∀ op ∈ ops, RespOpOK op) :
    let s := C05Resp.run (respInit dis ndct date text) ops
    parseHead s.appendBytes = some ⟨s.firstLine, s.fields.map seenField, []⟩ := by
  intro s
  have hc := resp_fields_clean _ (resp_run_clean ops _ hops (resp_init_clean dis ndct date text hd ht))
  exact parseHead_serialize _ _ hc.1 hc.2

theorem names_subset_response (dis ndct : Bool) (date : Option Bytes) (text : Bytes)
    (hd : ∀ d, date = some d → ∀ c ∈ d, c ≠ 13 ∧ c ≠ 10) (ht : ∀ c ∈ text, c ≠ 13 ∧ c ≠ 10)
    (ops : List C05RespOp) (hops : ∀ op ∈ ops, RespOpOK op) :
    let s := C05Resp.run (respInit dis ndct date text) ops
    ∀ h, parseHead s.appendBytes = some h →
      ∀ f ∈ h.fields, f.1 ∈ (respAutoKeys ++ ops.flatMap (respKeyOf dis)).map nameSeen := by
  intro s h hh f hf
  rw [one_message_response dis ndct date text hd ht ops hops] at hh
  cases hh
  simp only [List.mem_map] at hf
  obtain ⟨kv, hkv, rfl⟩ := hf
  have hk := resp_run_keys ops (respInit dis ndct date text) respAutoKeys (fun x hx => hx) (fun e he => nomatch he)
  have := resp_field_keys s _ (fun x hx => by simp [hx]) hk kv hkv
  exact List.mem_map.2 ⟨kv.1, this, rfl⟩

/-! ### keys containing ':' (DESIGN §9, strictness decision 1) -/

/-- the strict reading of "field names are among those set": names seen are the canonical keys themselves -/
def C05_full : Prop :=
  ∀ (dis ndct : Bool) (ops : List C05ReqOp) (h : Head),
    parseHead (C05Req.run (reqInit dis ndct) ops).appendBytes = some h →
    ∀ f ∈ h.fields, f.1 ∈ reqAutoKeys ++ ops.flatMap (reqKeyOf dis)

/-- C05, strict reading, under the guard that no key passed to Set/Add contains ':' (then `nameSeen` is the identity). -/
theorem names_subset_request_partial (dis ndct : Bool) (ops : List C05ReqOp)
    (hg : ∀ k ∈ ops.flatMap (reqKeyOf dis), ∀ c ∈ k, c ≠ 58) :
    ∀ h, parseHead (C05Req.run (reqInit dis ndct) ops).appendBytes = some h →
      ∀ f ∈ h.fields, f.1 ∈ reqAutoKeys ++ ops.flatMap (reqKeyOf dis) := by
  intro h hh f hf
  have := names_subset_request dis ndct ops h hh f hf
  obtain ⟨k, hk, hkf⟩ := List.mem_map.1 this
  have hid : nameSeen k = k := by
    have hno : ∀ c ∈ k, (c != 58) = true := by
      rcases List.mem_append.1 hk with h1 | h1
      · have : ∀ k ∈ reqAutoKeys, k.all (· != 58) = true := by decide +kernel
        intro c hc
        exact (List.all_eq_true.1 (this k h1)) c hc
      · intro c hc; simpa using hg k h1 c hc
    unfold nameSeen
    have := Fh.Proofs.Args.takeWhile_append_all (p := (· != 58)) k [] hno
    simpa using this
  rw [← hkf, hid]; exact hk

/-- what happens without the guard: `Set("a:b", "v")` is written as the line `a:b: v`, which is the well-formed field
    `a` with value `b: v`.  One call, one field, no further line — the name is cut at the ':' the caller put there.
    This is the only way `C05_full` fails; it is not counted as an injection (decision 1), and `names_subset_request`
    covers such keys. -/
theorem colon_key_is_cut_not_injected :
    parseHead (C05Req.run (reqInit false false) [.set (ofString "a:b") (ofString "v")]).appendBytes =
      some ⟨ofString "GET / HTTP/1.1", [(ofString "a", ofString "b: v")], []⟩ := by
  decide +kernel

/-! ### httpProxyDial -/

/-- C05 (proxy target): a target address containing CR or LF is rejected; otherwise the CONNECT request is one head whose
    lines are CR/LF free and whose only fields are Host and Proxy-Authorization, with nothing after the blank line. -/
theorem connect_target_safe (addr auth : Bytes) (hauth : ∀ c ∈ auth, c ≠ 13 ∧ c ≠ 10) :
    ((∃ c ∈ addr, c = 13 ∨ c = 10) → c05Connect addr auth = none) ∧
    ∀ w, c05Connect addr auth = some w →
      ∃ h, parseHead w = some h ∧ h.rest = [] ∧ (∀ c ∈ h.first, c ≠ 13 ∧ c ≠ 10) ∧
        ∀ f ∈ h.fields, f.1 = Gen.strHost ∨ f.1 = ofString "Proxy-Authorization" := by
  constructor
  · intro ⟨c, hc, hcc⟩
    unfold c05Connect
    have : addr.any (fun c => c == 13 || c == 10) = true :=
      List.any_eq_true.2 ⟨c, hc, by rcases hcc with h | h <;> simp [h]⟩
    simp [this]
  · intro w hw
    obtain ⟨_, first, fs, rfl, h1, h2, h3⟩ := connect_clean addr auth hauth w hw
    refine ⟨_, parseHead_serialize first fs h1 h2, rfl, h1, ?_⟩
    intro f hf
    obtain ⟨kv, hkv, rfl⟩ := List.mem_map.1 hf
    have hno : ∀ k : Bytes, (k = Gen.strHost ∨ k = ofString "Proxy-Authorization") → k.takeWhile (· != 58) = k := by
      intro k hk
      rcases hk with rfl | rfl <;> decide +kernel
    rcases h3 kv hkv with h | h
    · left; simp only [seenField]; rw [hno _ (Or.inl h)]; exact h
    · right; simp only [seenField]; rw [hno _ (Or.inr h)]; exact h

/-! ### non-vacuity -/

-- the classic attack: a value carrying CRLF + a header + a whole second request is delivered as ONE field
example : parseHead (C05Req.run (reqInit false false)
    [.host (ofString "h"), .set (ofString "X-A") (ofString "v\r\nX-Injected: 1\r\n\r\nGET /2 HTTP/1.1\r\n\r\n")]).appendBytes =
    some ⟨ofString "GET / HTTP/1.1",
      [(ofString "Host", ofString "h"), (ofString "X-A", ofString "v  X-Injected: 1    GET /2 HTTP/1.1")], []⟩ := by
  decide +kernel
-- CR/LF in a key, a method and a status message
example : (C05Req.run (reqInit false false) [.method (ofString "GET /x HTTP/1.1\r\nA: b\r\n\r\n"), .add (ofString "K\r\nJ") (ofString "v")]).appendBytes =
    ofString "GET /x HTTP/1.1  A: b     / HTTP/1.1\r\nK  J: v\r\n\r\n" := by decide +kernel
example : (C05Resp.run (respInit false true none (ofString "OK")) [.statusMessage (ofString "Fine\r\nSet-Cookie: a=b")]).appendBytes =
    ofString "HTTP/1.1 200 Fine  Set-Cookie: a=b\r\n\r\n" := by decide +kernel
example : c05Connect (ofString "h:443\r\nX: y") [] = none := by decide +kernel
example : (c05Connect (ofString "h:443") []).isSome = true := by decide +kernel

end Fh.Props.C05
