/-
C19 — Client retries are bounded and respect idempotency.
Property theorems only (helpers in Proofs/Retry.lean).  `Gen.defaultMaxIdemponentCallAttempts` is regenerated from
client.go on every run.  All theorems quantify over every fault script (any faults, any durations, any length), every
configuration and every behaviour of the RetryIf / RetryIfErr / RetryIfErrUpstream callbacks.
-/
import FhVerif.Proofs.Retry

namespace Fh.Props.C19
open Fh Fh.Model.Retry Fh.Proofs.Retry

theorem defaultMaxAttempts_eq_5 : Gen.defaultMaxIdemponentCallAttempts = 5 := by decide

theorem effMax_pos (cfg : Cfg) : 0 < effMax cfg := by
  unfold effMax
  split
  · decide
  · omega

/-- the attempt limit in force: MaxIdemponentCallAttempts when positive, else 5 -/
theorem effMax_default (cfg : Cfg) (h : cfg.maxAttempts ≤ 0) : effMax cfg = 5 := by
  unfold effMax; simp [h]; decide

/-- For any fault script HostClient.Do makes at most MaxIdemponentCallAttempts attempts (5 by default), hence
    transmits the request at most that many times. -/
theorem transmissions_le_maxAttempts (cfg : Cfg) (script : List (Fault × Dur)) (t0 : Nat) :
    (run cfg script t0).transmissions ≤ (run cfg script t0).attempts.length ∧
    (run cfg script t0).attempts.length ≤ effMax cfg := by
  refine ⟨List.length_filter_le _ _, ?_⟩
  have := loop_attempts_le cfg (effMax cfg) script t0 0 (t0 + cfg.timeout) (effMax_pos cfg)
  simpa [run] using this

/-! ### what the peer sees

The model counts ATTEMPTS (calls of `HostClient.do` → `RoundTrip`).  That this bounds what is put on the wire rests on
one assumption about `RoundTrip`, made explicit here as a hypothesis: one call writes the request to a connection at
most once — and not at all when it fails before writing — whether the connection was freshly dialled or taken from the
idle pool.  `wire a` is the number of request heads the peer receives because of attempt `a`.  The harness ties the
hypothesis on every case: heads counted by the peer (over all connections, fresh and reused) ≤ transmitting attempts
of the model (`one-transmission-per-attempt`). -/

def OneWirePerAttempt (wire : Attempt → Nat) (t : Trace) : Prop :=
  ∀ a ∈ t.attempts, wire a ≤ (if a.fault.transmits then 1 else 0)

/-- request heads seen by the peer for one `Do` call -/
def wireTotal (wire : Attempt → Nat) (t : Trace) : Nat := (t.attempts.map wire).sum

theorem sum_le_length (l : List Attempt) (wire : Attempt → Nat)
    (h : ∀ a ∈ l, wire a ≤ (if a.fault.transmits then 1 else 0)) :
    (l.map wire).sum ≤ (l.filter fun a => a.fault.transmits).length := by
  induction l with
  | nil => simp
  | cons x xs ih =>
    have hx := h x (List.mem_cons_self)
    have hxs := ih (fun a ha => h a (List.mem_cons_of_mem _ ha))
    simp only [List.map_cons, List.sum_cons, List.filter_cons]
    by_cases ht : x.fault.transmits = true
    · simp only [ht, if_true] at hx ⊢
      simp only [List.length_cons]; omega
    · simp only [ht, Bool.false_eq_true, if_false] at hx ⊢
      omega

/-- Under that hypothesis the peer receives the request at most MaxIdemponentCallAttempts times (5 by default) -/
theorem wire_transmissions_le_maxAttempts (cfg : Cfg) (script : List (Fault × Dur)) (t0 : Nat) (wire : Attempt → Nat)
    (hw : OneWirePerAttempt wire (run cfg script t0)) :
    wireTotal wire (run cfg script t0) ≤ effMax cfg := by
  have h1 := sum_le_length (run cfg script t0).attempts wire hw
  have h2 := transmissions_le_maxAttempts cfg script t0
  unfold Trace.transmissions at h2
  unfold wireTotal
  omega

/-- A request whose method is not GET, HEAD or PUT is attempted at most once when no RetryIf / RetryIfErr /
    RetryIfErrUpstream callback is configured. -/
theorem non_idempotent_at_most_once_without_callback (cfg : Cfg) (script : List (Fault × Dur)) (t0 : Nat)
    (h1 : cfg.retryIf = none) (h2 : cfg.retryIfErr = none) (h3 : cfg.retryIfErrUpstream = none)
    (hm : cfg.idempotent = false) : (run cfg script t0).attempts.length ≤ 1 := by
  apply Classical.byContradiction
  intro hc
  have hl : 0 + 1 < (run cfg script t0).attempts.length := by omega
  have h0 : (run cfg script t0).attempts[0]? = some ((run cfg script t0).attempts[0]'(by omega)) :=
    List.getElem?_eq_getElem (by omega)
  have := (loop_nonlast cfg (effMax cfg) script t0 0 (t0 + cfg.timeout) 0 _ h0 hl).2.2.2
  simp [callback, h1, h2, h3, hm] at this

/-- … and, under the one-write-per-RoundTrip hypothesis, the peer receives such a request at most once -/
theorem wire_non_idempotent_at_most_once (cfg : Cfg) (script : List (Fault × Dur)) (t0 : Nat) (wire : Attempt → Nat)
    (hw : OneWirePerAttempt wire (run cfg script t0))
    (h1 : cfg.retryIf = none) (h2 : cfg.retryIfErr = none) (h3 : cfg.retryIfErrUpstream = none)
    (hm : cfg.idempotent = false) : wireTotal wire (run cfg script t0) ≤ 1 := by
  have ha := sum_le_length (run cfg script t0).attempts wire hw
  have hb := non_idempotent_at_most_once_without_callback cfg script t0 h1 h2 h3 hm
  have hc := List.length_filter_le (fun a : Attempt => a.fault.transmits) (run cfg script t0).attempts
  unfold wireTotal
  omega

/-- the only way such a request is attempted again is that a callback said so -/
theorem second_attempt_needs_callback_or_idempotent (cfg : Cfg) (script : List (Fault × Dur)) (t0 : Nat)
    (i : Nat) (hl : i + 1 < (run cfg script t0).attempts.length) : (callback cfg (i + 1)).2 = true := by
  have h0 : (run cfg script t0).attempts[i]? = some ((run cfg script t0).attempts[i]'(by omega)) :=
    List.getElem?_eq_getElem (by omega)
  have := (loop_nonlast cfg (effMax cfg) script t0 0 (t0 + cfg.timeout) i _ h0 hl).2.2.2
  simpa using this

/-- A request with a body stream is never retried. -/
theorem bodystream_never_retried (cfg : Cfg) (script : List (Fault × Dur)) (t0 : Nat)
    (hb : cfg.hasBodyStream = true) : (run cfg script t0).attempts.length ≤ 1 := by
  apply Classical.byContradiction
  intro hc
  have hl : 0 + 1 < (run cfg script t0).attempts.length := by omega
  have h0 : (run cfg script t0).attempts[0]? = some ((run cfg script t0).attempts[0]'(by omega)) :=
    List.getElem?_eq_getElem (by omega)
  have := (loop_nonlast cfg (effMax cfg) script t0 0 (t0 + cfg.timeout) 0 _ h0 hl).2.2.1
  rw [hb] at this; cases this

theorem wire_bodystream_at_most_once (cfg : Cfg) (script : List (Fault × Dur)) (t0 : Nat) (wire : Attempt → Nat)
    (hw : OneWirePerAttempt wire (run cfg script t0)) (hb : cfg.hasBodyStream = true) :
    wireTotal wire (run cfg script t0) ≤ 1 := by
  have ha := sum_le_length (run cfg script t0).attempts wire hw
  have hb' := bodystream_never_retried cfg script t0 hb
  have hc := List.length_filter_le (fun a : Attempt => a.fault.transmits) (run cfg script t0).attempts
  unfold wireTotal
  omega

/-- An attempt is followed by another one only if RoundTrip reported `retry = true`. -/
theorem only_retryable_faults_are_retried (cfg : Cfg) (script : List (Fault × Dur)) (t0 : Nat) (i : Nat) (a : Attempt)
    (ha : (run cfg script t0).attempts[i]? = some a) (hr : retryFlag a.fault = false) :
    i + 1 = (run cfg script t0).attempts.length := by
  have hi : i < (run cfg script t0).attempts.length := (List.getElem?_eq_some_iff.mp ha).1
  apply Classical.byContradiction
  intro hc
  have hl : i + 1 < (run cfg script t0).attempts.length := by omega
  have := (loop_nonlast cfg (effMax cfg) script t0 0 (t0 + cfg.timeout) i a ha hl).2.1
  rw [hr] at this; cases this

/-- A response that exceeded MaxResponseBodySize (ErrBodyTooLarge) is never retried: it is the last attempt,
    whatever the method, the attempt limit and the callbacks. -/
theorem tooLarge_never_retried (cfg : Cfg) (script : List (Fault × Dur)) (t0 : Nat) (i : Nat) (a : Attempt)
    (ha : (run cfg script t0).attempts[i]? = some a) (hf : a.fault = .tooLarge) :
    i + 1 = (run cfg script t0).attempts.length :=
  only_retryable_faults_are_retried cfg script t0 i a ha (by rw [hf]; rfl)

/-- the same for a failed connection acquisition (dial error, no free connection): nothing was sent, no retry -/
theorem acquireErr_never_retried (cfg : Cfg) (script : List (Fault × Dur)) (t0 : Nat) (i : Nat) (a : Attempt)
    (ha : (run cfg script t0).attempts[i]? = some a) (hf : a.fault = .acquireErr) :
    i + 1 = (run cfg script t0).attempts.length :=
  only_retryable_faults_are_retried cfg script t0 i a ha (by rw [hf]; rfl)

/-- With a request timeout, every attempt starts strictly before the deadline in force at that moment. -/
theorem attempt_starts_before_its_deadline (cfg : Cfg) (script : List (Fault × Dur)) (t0 : Nat)
    (ht : cfg.timeout > 0) : ∀ a ∈ (run cfg script t0).attempts, a.start < a.deadline :=
  fun a ha => loop_start_lt_deadline cfg (effMax cfg) ht script t0 0 (t0 + cfg.timeout) a ha

/-- Only RetryIfErr / RetryIfErrUpstream can ask for the timeout to be reset. -/
theorem reset_only_from_retryIfErr (cfg : Cfg) (h2 : cfg.retryIfErr = none) (h3 : cfg.retryIfErrUpstream = none) :
    ∀ k, (callback cfg k).1 = false := by
  intro k
  unfold callback
  rw [h2, h3]
  cases cfg.retryIf <;> rfl

/-- Do never keeps retrying past the request timeout unless a callback asked for the timeout to be reset:
    if no callback answer has resetTimeout = true, every attempt starts before `t0 + timeout`. -/
theorem no_attempt_after_deadline_unless_reset (cfg : Cfg) (script : List (Fault × Dur)) (t0 : Nat)
    (ht : cfg.timeout > 0) (hnr : ∀ k, (callback cfg k).1 = false) :
    ∀ a ∈ (run cfg script t0).attempts, a.start < t0 + cfg.timeout := by
  intro a ha
  have h1 := loop_start_lt_deadline cfg (effMax cfg) ht script t0 0 (t0 + cfg.timeout) a ha
  have h2 := loop_deadline_const cfg (effMax cfg) hnr script t0 0 (t0 + cfg.timeout) a ha
  omega

/-! ### non-vacuity -/

private def base : Cfg := ⟨0, true, false, none, none, none, 0⟩
private def eof : Fault × Dur := (.readEOF, .ns 1)

/-- GET against a server that always closes: exactly 5 attempts, then ErrConnectionClosed -/
example : ((run base (List.replicate 9 eof) 0).attempts.length, (run base (List.replicate 9 eof) 0).err) = (5, .closed) := by decide
/-- POST: one attempt -/
example : (run { base with idempotent := false } (List.replicate 9 eof) 0).attempts.length = 1 := by decide
/-- POST with RetryIf = always: up to the limit 3 -/
example : (run { base with idempotent := false, maxAttempts := 3, retryIf := some fun _ => true } (List.replicate 9 eof) 0).attempts.length = 3 := by decide
/-- RetryIfErrUpstream takes precedence over RetryIfErr -/
example : (run { base with retryIfErr := some fun _ => (false, true), retryIfErrUpstream := some fun _ => (false, false) }
    (List.replicate 9 eof) 0).attempts.length = 1 := by decide
/-- body stream: one attempt; oversized response: no retry even for GET with RetryIf = always -/
example : (run { base with hasBodyStream := true } (List.replicate 9 eof) 0).attempts.length = 1 := by decide
example : (run { base with retryIf := some fun _ => true } [eof, (.tooLarge, .ns 1), eof] 0).attempts.map (·.fault)
    = [.readEOF, .tooLarge] := by decide
/-- the hypothesis is satisfiable and the bound is met: one head per transmitting attempt gives exactly 5 -/
example : OneWirePerAttempt (fun a => if a.fault.transmits then 1 else 0) (run base (List.replicate 9 eof) 0) ∧
    wireTotal (fun a => if a.fault.transmits then 1 else 0) (run base (List.replicate 9 eof) 0) = 5 :=
  ⟨fun _ _ => Nat.le_refl _, by decide⟩
/-- timeout 10: attempts of 4 time units each start at 0, 4, 8; then ErrTimeout at the loop head -/
example : ((run { base with timeout := 10 } (List.replicate 9 (.readEOF, .ns 4)) 0).attempts.map (·.start),
    (run { base with timeout := 10 } (List.replicate 9 (.readEOF, .ns 4)) 0).err) = ([0, 4, 8], .timeout) := by decide
/-- with resetTimeout the deadline moves: all 5 attempts happen -/
example : (run { base with timeout := 10, retryIfErr := some fun _ => (true, true) } (List.replicate 9 (.readEOF, .ns 4)) 0).attempts.map (·.start)
    = [0, 4, 8, 12, 16] := by decide
/-- a hanging peer: the attempt lasts until the deadline, the next loop head reports ErrTimeout -/
example : ((run { base with timeout := 10 } [(.readTimeout, .untilDeadline), eof] 0).attempts.length,
    (run { base with timeout := 10 } [(.readTimeout, .untilDeadline), eof] 0).err) = (1, .timeout) := by decide

end Fh.Props.C19
