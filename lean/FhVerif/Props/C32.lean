/-
C32 — Byte-class tables and canonicalisation match their definitions.
Property theorems only.  The tables come from Gen/Tables.lean, regenerated from /repo on every run,
so these theorems are re-checked by the kernel against the current bytesconv_table.go.
-/
import FhVerif.Model.ByteClass
import FhVerif.Spec.ByteClass

namespace Fh.Props.C32
open Fh Fh.Model

/-! ### the eight tables (finite domain, exhausted in the kernel) -/

theorem table_lengths :
    Gen.hex2intTable.length = 256 ∧ Gen.toLowerTable.length = 256 ∧ Gen.toUpperTable.length = 256 ∧
    Gen.quotedArgShouldEscapeTable.length = 256 ∧ Gen.quotedPathShouldEscapeTable.length = 256 ∧
    Gen.validHeaderFieldByteTable.length = 128 ∧ Gen.validHeaderValueByteTable.length = 256 ∧
    Gen.validMethodValueByteTable.length = 256 := by decide +kernel

theorem hex2int_table : ∀ i : Fin 256, (hex2int (UInt8.ofNat i)).toNat = Spec.hexVal i := by decide +kernel
theorem toLower_table : ∀ i : Fin 256, (toLower (UInt8.ofNat i)).toNat = Spec.lowerOf i := by decide +kernel
theorem toUpper_table : ∀ i : Fin 256, (toUpper (UInt8.ofNat i)).toNat = Spec.upperOf i := by decide +kernel
theorem quotedArg_table : ∀ i : Fin 256, quotedArgShouldEscape (UInt8.ofNat i) = Spec.argShouldEscape i := by
  decide +kernel
theorem quotedPath_table : ∀ i : Fin 256, quotedPathShouldEscape (UInt8.ofNat i) = Spec.pathShouldEscape i := by
  decide +kernel
theorem headerField_table : ∀ i : Fin 256, validHeaderFieldByte (UInt8.ofNat i) = Spec.tchar i := by decide +kernel
theorem headerValue_table : ∀ i : Fin 256, validHeaderValueByte (UInt8.ofNat i) = Spec.fieldValueByte i := by
  decide +kernel
theorem method_table : ∀ i : Fin 256, validMethodValueByte (UInt8.ofNat i) = Spec.tchar i := by decide +kernel

/-- lift from `Fin 256` to every byte -/
theorem forall_byte {P : UInt8 → Prop} (h : ∀ i : Fin 256, P (UInt8.ofNat i)) (c : UInt8) : P c := by
  have := h ⟨c.toNat, c.toNat_lt⟩
  simpa using this

theorem hex2int_eq (c : UInt8) : (hex2int c).toNat = Spec.hexVal c.toNat := by
  have := hex2int_table ⟨c.toNat, c.toNat_lt⟩; simpa using this
theorem toLower_eq (c : UInt8) : (toLower c).toNat = Spec.lowerOf c.toNat := by
  have := toLower_table ⟨c.toNat, c.toNat_lt⟩; simpa using this
theorem toUpper_eq (c : UInt8) : (toUpper c).toNat = Spec.upperOf c.toNat := by
  have := toUpper_table ⟨c.toNat, c.toNat_lt⟩; simpa using this
theorem quotedArg_eq (c : UInt8) : quotedArgShouldEscape c = Spec.argShouldEscape c.toNat := by
  have := quotedArg_table ⟨c.toNat, c.toNat_lt⟩; simpa using this
theorem quotedPath_eq (c : UInt8) : quotedPathShouldEscape c = Spec.pathShouldEscape c.toNat := by
  have := quotedPath_table ⟨c.toNat, c.toNat_lt⟩; simpa using this
theorem headerField_eq (c : UInt8) : validHeaderFieldByte c = Spec.tchar c.toNat := by
  have := headerField_table ⟨c.toNat, c.toNat_lt⟩; simpa using this
theorem headerValue_eq (c : UInt8) : validHeaderValueByte c = Spec.fieldValueByte c.toNat := by
  have := headerValue_table ⟨c.toNat, c.toNat_lt⟩; simpa using this
theorem method_eq (c : UInt8) : validMethodValueByte c = Spec.tchar c.toNat := by
  have := method_table ⟨c.toNat, c.toNat_lt⟩; simpa using this

end Fh.Props.C32

namespace Fh.Props.C32
open Fh Fh.Model

/-! ### header-name canonicalisation = net/textproto's, for every token -/

theorem removeNewLines_token (b : Bytes) (h : b.all (fun c => Spec.tchar c.toNat) = true) :
    removeNewLines b = b := by
  induction b with
  | nil => rfl
  | cons c rest ih =>
    simp only [List.all_cons, Bool.and_eq_true] at h
    have hc : ¬ (c = 13 ∨ c = 10) := by
      rintro (rfl | rfl) <;> exact absurd h.1 (by decide)
    simp only [removeNewLines, List.map_cons] at ih ⊢
    rw [ih h.2]
    simp [hc]

private theorem upper_dash : ∀ i : Fin 256, ((toUpper (UInt8.ofNat i) == 45) = (UInt8.ofNat i == 45)) ∧
    ((toLower (UInt8.ofNat i) == 45) = (UInt8.ofNat i == 45)) ∧
    toUpper (UInt8.ofNat i) = UInt8.ofNat (Spec.upperOf (UInt8.ofNat i).toNat) ∧
    toLower (UInt8.ofNat i) = UInt8.ofNat (Spec.lowerOf (UInt8.ofNat i).toNat) := by decide +kernel

theorem normKeyLoop_eq_canonLoop (up : Bool) (b : Bytes) : normKeyLoop up b = Spec.canonLoop up b := by
  induction b generalizing up with
  | nil => rfl
  | cons c rest ih =>
    have h := forall_byte (P := fun c => ((toUpper c == 45) = (c == 45)) ∧ ((toLower c == 45) = (c == 45)) ∧
      toUpper c = UInt8.ofNat (Spec.upperOf c.toNat) ∧ toLower c = UInt8.ofNat (Spec.lowerOf c.toNat)) upper_dash c
    cases up
    · simp only [normKeyLoop, Spec.canonLoop, Bool.false_eq_true, if_false]
      rw [h.2.1, ih, ← h.2.2.2]
    · simp only [normKeyLoop, Spec.canonLoop, if_true]
      rw [h.1, ih, ← h.2.2.1]

/-- C32: for every token, fasthttp's canonical header name is net/textproto's. -/
theorem normalizeHeaderKey_eq_textproto (b : Bytes) (h : b.all (fun c => Spec.tchar c.toNat) = true) :
    normalizeHeaderKey b false = Spec.canonicalMIMEHeaderKey b := by
  have hv : b.all validHeaderFieldByte = true := by
    rw [List.all_eq_true] at h ⊢
    intro c hc; rw [headerField_eq]; exact h c hc
  simp only [normalizeHeaderKey, removeNewLines_token b h, Bool.false_eq_true, if_false, hv, if_true,
    Spec.canonicalMIMEHeaderKey, h, normKeyLoop_eq_canonLoop]

/-- a name that is not a token is only CR/LF-neutralised, never re-cased -/
theorem normalizeHeaderKey_nontoken (b : Bytes) (h : (removeNewLines b).all validHeaderFieldByte = false) :
    normalizeHeaderKey b false = removeNewLines b := by
  simp [normalizeHeaderKey, h]

theorem normalizeHeaderKey_disabled (b : Bytes) : normalizeHeaderKey b true = removeNewLines b := by
  simp [normalizeHeaderKey]

/-! ### AppendHTMLEscape = html.EscapeString (five entities) for every string -/

theorem htmlEscape_eq_spec (s : Bytes) : appendHTMLEscape s = Spec.htmlEscape s := by
  induction s with
  | nil => rfl
  | cons c rest ih =>
    simp only [appendHTMLEscape, List.flatMap_cons, Spec.htmlEscape] at ih ⊢
    rw [ih]; rfl

/-! ### non-vacuity -/
example : normalizeHeaderKey (ofString "conTENT-tYPE") false = ofString "Content-Type" := by decide +kernel
example : (ofString "conTENT-tYPE").all (fun c => Spec.tchar c.toNat) = true := by decide +kernel
example : appendHTMLEscape (ofString "a<b>&\"'") = ofString "a&lt;b&gt;&amp;&#34;&#39;" := by decide +kernel

end Fh.Props.C32
