/-
C18 — HostClient connection pool respects MaxConns and keeps exact accounting.

All theorems quantify over ARBITRARY event lists `evs` from the initial pool: any interleaving of the critical
sections of AcquireConn / queueForIdle / dialConnFor / ReleaseConn / CloseConn(decConnsCount) / wantConn.cancel /
connsCleaner / CloseIdleConnections with dial successes and failures and timer expiries, for any MaxConns, with and
without MaxConnWaitTimeout, LIFO and FIFO (Model/HostPool.lean).
Residue (not provable here): the Go code really executes these regions atomically; goroutines that have an enabled
step are eventually scheduled (a waiter whose timer fired does run its `select`); the instant between decConnsCount
and cc.c.Close() in CloseConn (the connection counts as closed from decConnsCount on); SetMaxConns at run time.
-/
import FhVerif.Proofs.HostPool
import FhVerif.Gen.PoolShape

namespace Fh.Props.C18
open Fh.Model.HP Fh.Proofs.HostPool

/-- the configuration never changes -/
theorem step_cfg (s s' : State) (e : Event) (hs : step s e = some s') : s'.maxConns = s.maxConns := by
  have hdec : ∀ t : State, (decConns t).maxConns = t.maxConns := by
    intro t; unfold decConns; split
    · split <;> rfl
    · rfl
  have hset : ∀ (t : State) w st, (setSt t w st).maxConns = t.maxConns := by
    intro t w st; unfold setSt; split <;> rfl
  cases e with
  | acquire =>
    simp only [step] at hs; injection hs with hs; subst hs
    unfold stepAcquire; split
    · split
      · rfl
      · split <;> rfl
    · split <;> rfl
  | enqueue w => simp only [step, stepEnqueue] at hs; split at hs <;> first | (injection hs with hs; subst hs; rfl) | cases hs
  | dialOkOwn => simp only [step] at hs; split at hs <;> first | (injection hs with hs; subst hs; rfl) | cases hs
  | dialFailOwn => simp only [step] at hs; split at hs <;> first | (injection hs with hs; subst hs; rw [hdec]) | cases hs
  | dialOkFor w =>
    simp only [step, stepDialOkFor] at hs
    split at hs
    · split at hs <;> (injection hs with hs; subst hs; first | rw [hset] | rfl)
    · cases hs
  | dialFailFor w =>
    simp only [step, stepDialFailFor] at hs
    split at hs
    · split at hs <;> (injection hs with hs; subst hs; first | rw [hset] | rfl)
    · cases hs
  | decAfterFail => simp only [step] at hs; split at hs <;> first | (injection hs with hs; subst hs; rw [hdec]) | cases hs
  | release c =>
    simp only [step] at hs
    split at hs
    · injection hs with hs; subst hs
      unfold releaseTo; split
      · split
        · rw [hset]
        · rfl
      · rfl
    · cases hs
  | close c => simp only [step] at hs; split at hs <;> first | (injection hs with hs; subst hs; rw [hdec]) | cases hs
  | waiterReturn w => simp only [step, stepWaiterReturn] at hs; split at hs <;> first | (injection hs with hs; subst hs; rfl) | cases hs
  | waiterTimeout w => simp only [step, stepWaiterTimeout] at hs; split at hs <;> first | (injection hs with hs; subst hs; rfl) | cases hs
  | cancel w => simp only [step, stepCancel] at hs; split at hs <;> first | (injection hs with hs; subst hs; rfl) | cases hs
  | cleaner k => simp only [step, stepCleaner] at hs; split at hs <;> first | (injection hs with hs; subst hs; rfl) | cases hs
  | closeIdle => simp only [step, stepCleaner] at hs; split at hs <;> first | (injection hs with hs; subst hs; rfl) | cases hs

theorem run_cfg (evs : List Event) (s s' : State) (hr : run s evs = some s') : s'.maxConns = s.maxConns := by
  induction evs generalizing s with
  | nil => simp [run] at hr; subst hr; rfl
  | cons e es ih =>
    simp only [run] at hr
    cases hs : step s e with
    | none => simp [hs] at hr
    | some s1 => simp [hs] at hr; rw [ih s1 hr, step_cfg s s1 e hs]

/-- Exact accounting: in every reachable state `connsCount` is the number of idle connections, plus connections
    held by some goroutine, plus slots held by dial goroutines, plus connections delivered to a wantConn whose
    caller has not claimed them yet. -/
theorem count_exact (m : Nat) (w f : Bool) (evs : List Event) (s : State) (h : run (init m w f) evs = some s) :
    s.connsCount = ((s.idle.length + s.inUse.length + dialing s + deliveredN s : Nat) : Int) := by
  have := (run_inv evs _ s (inv_init m w f) h).hCount
  omega

/-- MaxConns is respected: the counter, and with it the number of connections open or being dialled, never
    exceeds MaxConns. -/
theorem count_le_max (m : Nat) (w f : Bool) (evs : List Event) (s : State) (h : run (init m w f) evs = some s) :
    s.connsCount ≤ m ∧ s.idle.length + s.inUse.length + dialing s + deliveredN s ≤ m := by
  have hi := run_inv evs _ s (inv_init m w f) h
  have hm : s.maxConns = m := run_cfg evs _ s h
  have h1 := hi.hMax
  have h2 := hi.hCount
  rw [hm] at h1
  constructor
  · exact h1
  · omega

/-- No connection is lent twice: a connection id occurs at most once among the idle list, the connections held by
    goroutines and the connections parked in wantConn records; ids not yet produced by a dial occur nowhere. -/
theorem no_double_lend (m : Nat) (w f : Bool) (evs : List Event) (s : State) (h : run (init m w f) evs = some s) (c : Nat) :
    s.idle.count c + s.inUse.count c + deliveredCnt s c ≤ 1 ∧
    (c ∈ s.inUse → c ∉ s.idle ∧ deliveredCnt s c = 0 ∧ s.inUse.count c = 1 ∧ c < s.nextConn) := by
  have hi := run_inv evs _ s (inv_init m w f) h
  refine ⟨hi.hUniq c, fun hm => ?_⟩
  have h1 := hi.hUniq c
  have h2 : 0 < s.inUse.count c := List.count_pos_iff.mpr hm
  refine ⟨?_, by omega, by omega, mem_lt_next s hi c hm⟩
  intro hidle
  have : 0 < s.idle.count c := List.count_pos_iff.mpr hidle
  omega

/-- Every waiter ends with a connection or with an error, never both: a caller that returned with connection `c`
    left a record nobody else can take `c` from (`taken`), a caller that returned an error left no connection in
    its record (a delivery that raced in was taken back by `cancel`), and a record that still holds a delivered
    connection belongs to a caller that has not returned yet. -/
theorem waiter_outcome (m : Nat) (w f : Bool) (evs : List Event) (s : State) (h : run (init m w f) evs = some s)
    (wt : Waiter) (hw : wt ∈ s.waiters) :
    (∀ c, wt.pc = .done (.conn c) → wt.st = .taken) ∧
    (wt.pc = .done .noFree → wt.st = .cancelled ∨ wt.st = .failed) ∧
    (wt.pc = .done .dialErr → wt.st = .failed) ∧
    (wt.st.isDelivered = true → ∀ o, wt.pc ≠ .done o) ∧
    (wt.st = .taken → ∃ c, wt.pc = .done (.conn c)) := by
  have hok := (run_inv evs _ s (inv_init m w f) h).hW wt hw
  rcases wt with ⟨st, pc⟩
  cases st <;> cases pc <;> (try rename_i o; cases o) <;> simp_all [WOk, WSt.isDelivered]

/-- … and never neither once its timer fired: a parked caller can always take the timer branch, and after that
    its `cancel` needs no event of any other actor (both are enabled in every reachable state). -/
theorem waiter_outcome_enabled (m : Nat) (w f : Bool) (evs : List Event) (s : State) (h : run (init m w f) evs = some s)
    (i : Nat) (wt : Waiter) (hget : s.waiters[i]? = some wt) :
    (wt.pc = .parked → (step s (.waiterTimeout i)).isSome) ∧ (wt.pc = .timedOut → (step s (.cancel i)).isSome) := by
  have hok := (run_inv evs _ s (inv_init m w f) h).hW wt (mem_of_getElem? _ _ _ hget)
  rcases wt with ⟨st, pc⟩
  constructor
  · intro hp; simp only at hp; subst hp
    simp [step, stepWaiterTimeout, hget]
  · intro hp; simp only at hp; subst hp
    cases st <;> simp_all [step, stepCancel, WOk]

/-- ConnsCount returns to zero once all connections are closed and no request is pending. -/
theorem zero_at_quiescence (m : Nat) (w f : Bool) (evs : List Event) (s : State) (h : run (init m w f) evs = some s)
    (hq : quiescent s) : s.connsCount = 0 := by
  have hi := run_inv evs _ s (inv_init m w f) h
  have hc := hi.hCount
  rcases hq with ⟨h1, h2, h3, h4⟩
  have hd : deliveredN s = 0 := by
    unfold deliveredN
    rw [List.countP_eq_zero]
    intro wt hwt hdel
    rcases h4 wt hwt with ⟨o, ho⟩
    have hok := hi.hW wt hwt
    rcases wt with ⟨st, pc⟩
    simp only at ho; subst ho
    cases st <;> simp_all [WOk, WSt.isDelivered]
  rw [h1, h2, h3, hd] at hc
  simpa using hc

/-! ### the data structure: the two-stage wantConnQueue is a FIFO queue -/

inductive QOp
  | push (w : Nat)
  | pop
  | clear (waiting : Nat → Bool)
  | popWaiting (waiting : Nat → Bool)

def stepImpl (q : WQ) : QOp → WQ
  | .push w => q.pushBack w
  | .pop => q.popFront.2
  | .clear p => WQ.clearFront p q.len q
  | .popWaiting p => (WQ.popWaiting p q.len q).2

def stepSpec (l : List Nat) : QOp → List Nat
  | .push w => l ++ [w]
  | .pop => l.tail
  | .clear p => l.dropWhile (fun w => !p w)
  | .popWaiting p => (l.dropWhile (fun w => !p w)).tail

/-- For every sequence of pushBack / popFront / clearFront / pop-until-waiting operations the two-stage queue
    (`head[headPos:]`, `tail`) holds exactly the elements of the plain FIFO list reached by the same operations,
    in the same order; `len`, `peekFront`, `popFront` and the pop-until-waiting loop return what the list says. -/
theorem wantConnQueue_refines_fifo (ops : List QOp) :
    let q := ops.foldl stepImpl WQ.empty
    let l := ops.foldl stepSpec []
    q.abs = l ∧ q.wf ∧ q.len = l.length ∧ q.peekFront = l.head? ∧ q.popFront.1 = l.head? ∧
    ∀ p, (WQ.popWaiting p q.len q).1 = l.find? p := by
  suffices hgen : ∀ (q : WQ), q.wf → (ops.foldl stepImpl q).abs = ops.foldl stepSpec q.abs ∧ (ops.foldl stepImpl q).wf by
    have h0 := hgen WQ.empty wf_empty
    have habs : WQ.empty.abs = [] := by simp [WQ.abs, WQ.empty]
    rw [habs] at h0
    intro q l
    have hq : q.abs = l := h0.1
    refine ⟨hq, h0.2, by rw [len_refines, hq], by rw [peekFront_refines q h0.2, hq],
      by rw [(popFront_refines q h0.2).1, hq], fun p => ?_⟩
    rw [(popWaiting_refines p q.len q h0.2 (by rw [len_refines]; exact Nat.le_refl _)).1, hq]
  induction ops with
  | nil => intro q hq; exact ⟨rfl, hq⟩
  | cons op rest ih =>
    intro q hq
    simp only [List.foldl_cons]
    have key : (stepImpl q op).abs = stepSpec q.abs op ∧ (stepImpl q op).wf := by
      cases op with
      | push w => exact ⟨abs_pushBack q w, wf_pushBack q w hq⟩
      | pop => exact ⟨(popFront_refines q hq).2.1, (popFront_refines q hq).2.2⟩
      | clear p => exact clearFront_refines p q.len q hq (by rw [len_refines]; exact Nat.le_refl _)
      | popWaiting p =>
        have := popWaiting_refines p q.len q hq (by rw [len_refines]; exact Nat.le_refl _)
        exact ⟨this.2.1, this.2.2⟩
    have := ih (stepImpl q op) key.2
    rw [key.1] at this
    exact this

/-! ### the hand-off loops of client.go have the shape the atomic events assume

`release c` and the decConnsCount part of `close c` are single events of the model although `w.waiting()` and
`w.tryDeliver` are two steps of the Go loop between which the waiter's `cancel` can run.  That is sound for exactly one
loop shape (`release_loop_linearises`), and the window is a few nanoseconds wide, so no run reliably distinguishes a
loop that drops the connection there.  `fhextract` therefore recomputes the control skeletons of the hand-off functions
on every run (Gen/PoolShape.lean) and these theorems pin them: a change of shape stops the proof. -/

/-- A cancel that slips in between `w.waiting()` and `w.tryDeliver` is indistinguishable from that cancel happening
    before the release: the loop as written (check, then deliver, go on after a failed delivery) returns what the
    atomic pop-until-waiting loop returns on the waiters that still wait at delivery time. -/
theorem release_loop_linearises (check deliver : Nat → Bool) (h : ∀ w, deliver w = true → check w = true)
    (q : WQ) : popDeliver check deliver q.len q = WQ.popWaiting deliver q.len q :=
  popDeliver_eq_popWaiting check deliver h q.len q

/-- …whereas the loop that returns after a failed delivery leaves the connection nowhere (not delivered, not idle,
    still counted) although a second waiter is waiting: waiter 0 is cancelled in the window, waiter 1 waits. -/
theorem release_without_retry_counterexample :
    popDeliverNoRetry (fun _ => true) (fun w => w == 1) 2 ((WQ.empty.pushBack 0).pushBack 1) = (none, ⟨[0, 1], 1, []⟩, true) ∧
    popDeliver (fun _ => true) (fun w => w == 1) 2 ((WQ.empty.pushBack 0).pushBack 1) = (some 1, ⟨[0, 1], 2, []⟩) := by decide

/-- ReleaseConn: the result of tryDeliver decides `break`, and the connection goes to the idle list iff nobody took it -/
theorem releaseConn_shape : Gen.poolShape_ReleaseConn =
    ["if c.MaxConnWaitTimeout <= 0 => append c.conns", "if c.MaxConnWaitTimeout <= 0 => return",
     "if q := c.connsWait; q != nil | for q.len() > 0 | if w.waiting() => tryDeliver:result-used",
     "if q := c.connsWait; q != nil | for q.len() > 0 | if w.waiting() | if delivered => break",
     "if !delivered => append c.conns"] := by decide

/-- decConnsCount: the slot goes to the first waiter that still waits (dialConnFor), else the counter is decremented -/
theorem decConnsCount_shape : Gen.poolShape_decConnsCount =
    ["if c.MaxConnWaitTimeout <= 0 => connsCount--", "if c.MaxConnWaitTimeout <= 0 => return",
     "if q := c.connsWait; q != nil | for q.len() > 0 | if w.waiting() => go dialConnFor",
     "if q := c.connsWait; q != nil | for q.len() > 0 | if w.waiting() => break",
     "if !dialed => connsCount--"] := by decide

/-- dialConnFor: a failed dial always gives the slot back; a connection nobody takes is released -/
theorem dialConnFor_shape : Gen.poolShape_dialConnFor =
    ["if err != nil => tryDeliver:result-dropped", "if err != nil => decConnsCount", "if err != nil => return",
     "tryDeliver:result-used", "if !w.tryDeliver(cc, nil) => ReleaseConn"] := by decide

/-- cancel returns a delivery that raced in; tryDeliver delivers at most once -/
theorem cancel_shape : Gen.poolShape_cancel =
    ["if w.conn == nil && w.err == nil => close", "if conn != nil => ReleaseConn"] ∧
    Gen.poolShape_tryDeliver = ["if w.conn != nil || w.err != nil => return", "close"] := by decide

/-- CloseIdleConnections is the model's `closeIdle` followed by `close` events: under the lock it takes a COPY of the
    idle list and empties `c.conns`; the CloseConn calls run outside the lock on that copy.  (Walking over the list's own
    backing array instead would let a ReleaseConn that lands in between overwrite an entry not yet visited: the released
    connection would be closed while staying in the pool and the idle one never closed.) -/
theorem closeIdleConnections_shape : Gen.poolShape_CloseIdleConnections =
    ["lock", "scratch = copy of c.conns", "c.conns = c.conns[:0]", "unlock", "range scratch => CloseConn"] := by decide

/-- transport.RoundTrip: after AcquireConn every way out passes through exactly one of CloseConn / ReleaseConn, or hands
    the connection to the close callback of the streamed body (which does one of the two): no exit leaks the
    connection's slot, and every error exit (write deadline, request write / flush error, read deadline, response read
    error incl. ErrBodyTooLarge) CLOSES the connection — a connection on which a request or a response was cut short is
    never pooled. -/
theorem roundTrip_exits_close_or_release : Gen.rtShape_RoundTrip =
    ["AcquireConn", "if err != nil | return",
     "if err != nil | CloseConn", "if err != nil | return",
     "if err != nil | CloseConn", "if err != nil | return",
     "if err != nil | CloseConn", "if err != nil | return",
     "if err != nil | CloseConn", "if err != nil | return",
     "if customStreamBody && resp.bodyStream != nil | stream close callback installed",
     "if customStreamBody && resp.bodyStream != nil | return",
     "if closeConn | CloseConn", "else of closeConn | ReleaseConn", "return"] := by decide

/-! ### non-vacuity -/

/-- MaxConns = 1 with MaxConnWaitTimeout: a second request waits, gets the released connection, returns with it -/
example : (run (init 1 true false) [.acquire, .dialOkOwn, .acquire, .enqueue 0, .release 0, .waiterReturn 0]).map
    (fun s => (s.connsCount, s.idle, s.inUse, s.waiters)) = some (1, [], [0], [⟨.taken, .done (.conn 0)⟩]) := by decide

/-- the delivery-vs-timeout race: the timer branch wins although a connection was delivered; `cancel` takes it back,
    the canceller releases it, nothing is lost (count 1 = one idle connection) -/
example : (run (init 1 true false) [.acquire, .dialOkOwn, .acquire, .enqueue 0, .release 0, .waiterTimeout 0, .cancel 0,
    .release 0]).map (fun s => (s.connsCount, s.idle, s.inUse, deliveredN s)) = some (1, [0], [], 0) := by decide

/-- a closed connection hands its slot to a waiter (dialConnFor), the dial fails, the slot is given back: quiescent, 0 -/
example : (run (init 1 true false) [.acquire, .dialOkOwn, .acquire, .enqueue 0, .close 0, .dialFailFor 0, .decAfterFail,
    .waiterReturn 0]).map (fun s => (s.connsCount, dialing s, s.waiters)) = some (0, 0, [⟨.failed, .done .dialErr⟩]) := by decide

/-- without MaxConnWaitTimeout the third request is refused at MaxConns = 2 -/
example : (run (init 2 false true) [.acquire, .acquire, .acquire]).map (fun s => (s.connsCount, s.ownDials, s.rejected)) =
    some (2, 2, 1) := by decide

/-- the queue really swaps stages: push 1, push 2, pop (swap), push 3, pop, pop (swap) -/
example : ([QOp.push 1, .push 2, .pop, .push 3, .pop, .pop, .push 4].foldl stepImpl WQ.empty) = ⟨[3], 1, [4]⟩ := by decide

end Fh.Props.C18
