/-
C08 — Message parsers terminate, never panic and never over-read.

Termination and absence of panics are carried by the models themselves: every parser model in FhVerif/Model is a total
Lean function (structural recursion or explicit fuel, no partial definitions, every index access bounds-carrying or
defaulted), and the correspondence harness runs the real parsers on arbitrary bytes under `recover` with a watchdog.
What is proved here is the "never over-read" half: consumption never exceeds the input and ends inside the message.
-/
import FhVerif.Props.C09
import FhVerif.Props.C02
import FhVerif.Props.C30
import FhVerif.Proofs.Args

namespace Fh.Props.C08
open Fh Fh.Model

/-- the head reader never reports more consumed bytes than it was given -/
theorem head_consumed_le_input {α : Type} (parse : Bytes → Bytes → α) (buf : Bytes) (a : α) (c : Nat)
    (h : parseHead parse buf = .parsed a c) : c ≤ buf.length := by
  unfold parseHead at h
  cases hf : firstLineGo buf [] 0 with
  | none => simp [hf] at h
  | some r =>
    obtain ⟨line, m⟩ := r
    have hle := C09.firstLineGo_le buf [] 0 line m hf
    simp only [hf] at h
    split at h
    · rename_i hs
      injection h with _ hc
      -- the block starts with CRLF: two more bytes exist
      have : 2 ≤ (buf.drop m).length := by
        unfold startsCRLF at hs
        cases hd : buf.drop m with
        | nil => simp [hd] at hs
        | cons x xs => cases xs with
          | nil => simp [hd] at hs
          | cons y ys => simp
      simp at this; omega
    · cases hre : rawEnd (buf.drop m) with
      | none => simp [hre] at h
      | some n =>
        simp only [hre] at h
        have hn := C09.rawEndGo_le (buf.drop m) [] 0 n hre
        split at h
        · injection h with _ hc
          simp at hn; omega
        · cases h

/-- the chunk-size reader leaves a suffix of its input unread (it only moves forward, never past the end) -/
theorem readHex_rest_is_suffix (m : Nat) (s : Bytes) : ∀ (n i : Nat) (v : Nat) (rest : Bytes),
    readHexLoop m n i s = .ok (v, rest) → ∃ pre, s = pre ++ rest := by
  induction s with
  | nil =>
    intro n i v rest h
    simp only [readHexLoop] at h
    split at h
    · injection h with h; injection h with _ h2; exact ⟨[], by simp [← h2]⟩
    · cases h
  | cons c t ih =>
    intro n i v rest h
    simp only [readHexLoop] at h
    split at h
    · split at h
      · cases h
      · injection h with h; injection h with _ h2; exact ⟨[], by simp [← h2]⟩
    · split at h
      · cases h
      · obtain ⟨pre, hp⟩ := ih _ _ _ _ h
        exact ⟨c :: pre, by simp [hp]⟩

/-- a streamed request body never takes more than Content-Length bytes out of the connection (from C02) -/
theorem stream_never_over_reads (s : RS) (h : C02.RS.wf s) (rs : List (Nat × Nat)) : (s.run rs).connConsumed ≤ s.cl :=
  C02.never_over_reads s h rs

/-- percent-decoding never produces more bytes than it was given (no write past the source length: the Go code decodes in place) -/
theorem decodeArg_length_le (s : Bytes) : (decodeArg s).length ≤ s.length := by
  suffices h : ∀ n (s : Bytes), s.length ≤ n → (decodeArg s).length ≤ s.length from h s.length s (Nat.le_refl _)
  intro n
  induction n with
  | zero => intro s hs; cases s with
    | nil => simp [decodeArg]
    | cons _ _ => simp at hs
  | succ n ih =>
    intro s hs
    cases s with
    | nil => simp [decodeArg]
    | cons c t =>
      by_cases h37 : c = 37
      · subst h37
        cases t with
        | nil => simp [decodeArg]
        | cons c1 t1 =>
          cases t1 with
          | nil => simp [decodeArg]
          | cons c2 rest =>
            rw [Proofs.Args.decodeArg_pct]
            split
            · have := ih (c1 :: c2 :: rest) (by simp at hs ⊢; omega)
              simp at this ⊢; omega
            · have := ih rest (by simp at hs ⊢; omega)
              simp at this ⊢; omega
      · by_cases h43 : c = 43
        · subst h43
          rw [Proofs.Args.decodeArg_plus]
          have := ih t (by simp at hs ⊢; omega)
          simp; omega
        · rw [Proofs.Args.decodeArg_other c t h37 h43]
          have := ih t (by simp at hs ⊢; omega)
          simp; omega

/-! non-vacuity -/
example : (readHexInt 15 (ofString "1f;x\r\n")).toOption = some (31, ofString ";x\r\n") := by decide +kernel

end Fh.Props.C08
