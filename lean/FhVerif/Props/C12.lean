/-
C12 — Concurrency and per-IP limits hold and their counters balance.
Property theorems only (the accounting invariant and its preservation are in Proofs/ServerCounters.lean).

Every theorem quantifies over ARBITRARY event lists of the transition system `Model.Srv.step` started in
`State.init cfg`: every interleaving of any number of `Serve` accept loops, `ServeConn` calls, worker-pool steps,
request loops, hijack goroutines and closes, at the granularity of the individual atomic counter updates (so the
transient overshoot of `s.concurrency` between the add and the test of `tryAcquireConcurrency` is a reachable state).

`Concurrency` is documented to work "only if you either call Serve once, or only ServeConn multiple times":
`serving_le_concurrency` carries exactly that precondition (`SingleEntry`), `serving_le_concurrency_per_entry` is the
unconditional fact behind it, and the example `mixed_entries_exceed` shows the precondition is needed.
The per-IP limit and the balance of all counters hold for every mix of entry points.

Residue (named in the evidence): each modelled step is atomic in the Go code (atomics / mutex regions, C37) and
blocked goroutines are eventually scheduled.
-/
import FhVerif.Proofs.ServerCounters
import FhVerif.Gen.PerIPClose
import FhVerif.Gen.WpCount

namespace Fh.Props.C12
open Fh Fh.Wsum Fh.Model.Srv Fh.Proofs.Srv

private theorem reach {cfg : Cfg} {evs : List Ev} {s : State} (hr : run (State.init cfg) evs = some s) :
    Proofs.Srv.Inv s ∧ PathOk s ∧ s.cfg = cfg := by
  have h := inv_run evs _ s (inv_init cfg) (by intro c hc; simp [State.init] at hc) hr
  exact ⟨h.1, h.2, run_cfg evs _ s hr⟩

/-- **Concurrency, per entry point.**  At no moment are more than `Concurrency` connections of one `Serve` call inside
    the request loop, and at no moment more than `Concurrency` connections handed to `ServeConn`. -/
theorem serving_le_concurrency_per_entry (cfg : Cfg) (evs : List Ev) (s : State)
    (hr : run (State.init cfg) evs = some s) (path : Path) : servingOn s path ≤ cfg.C := by
  obtain ⟨hinv, hpo, hcfg⟩ := reach hr
  rw [← hcfg]
  cases path with
  | direct =>
    refine Nat.le_trans (wsum_le _ (hConc s.cfg.C) _ ?_) hinv.hold
    intro c _
    obtain ⟨path, cip, phase, reg, closed, served, hj⟩ := c
    cases path <;> cases phase <;> simp [hConc]
  | serve p =>
    have hle : servingOn s (.serve p) ≤ wsum (wBusy p) s.conns := by
      refine wsum_le _ _ _ ?_
      intro c _
      obtain ⟨path, cip, phase, reg, closed, served, hj⟩ := c
      cases path <;> cases phase <;> simp [wBusy]
    by_cases hp : p < s.pools.length
    · have hpl : s.pools[p]? = some s.pools[p] := by simp [hp]
      have := hinv.pool p _ hpl
      omega
    · rw [busy_zero_of_pathOk hpo p (by omega)] at hle
      omega

/-- **Concurrency.**  Used as documented (one `Serve` call, or `ServeConn` only), the server never has more than
    `Concurrency` connections inside the request loop — whatever the schedule. -/
theorem serving_le_concurrency (cfg : Cfg) (evs : List Ev) (s : State)
    (hr : run (State.init cfg) evs = some s) (hone : SingleEntry s) : servingAll s ≤ cfg.C := by
  obtain ⟨path, hp⟩ := hone
  have h := serving_le_concurrency_per_entry cfg evs s hr path
  have : servingAll s = servingOn s path := by
    unfold servingAll servingOn
    apply wsum_congr
    intro c hc
    simp [hp c hc]
  omega

/-- **Per-IP limit.**  With `MaxConnsPerIP = M > 0`, at no moment do more than `M` connections from one address hold
    a per-IP registration (wrapped and not yet closed; hijacked connections count until they are closed) — for every
    mix of `Serve` and `ServeConn`. -/
theorem perip_le_max (cfg : Cfg) (evs : List Ev) (s : State)
    (hr : run (State.init cfg) evs = some s) (hM : 0 < cfg.M) (ip : Nat) : liveFromIP s ip ≤ cfg.M := by
  obtain ⟨hinv, _, hcfg⟩ := reach hr
  rw [← hcfg] at hM ⊢
  refine Nat.le_trans (wsum_le _ (hIP s.cfg.M ip) _ ?_) (hinv.iphold ip hM)
  intro c hc
  have hci := hinv.cn c hc
  obtain ⟨path, cip, phase, reg, closed, served, hj⟩ := c
  by_cases h : cip = ip
  · cases reg
    · simp
    · have hnt : isIpTest phase = false := by
        cases hp : isIpTest phase
        · rfl
        · have := hci.early (Or.inr hp); simp at this
      cases phase <;> simp_all [hIP, isIpTest]
  · simp [h]

/-- **Rejected connections.**  A connection answered with 429 or 503 was never inside the request loop, is closed, holds
    no per-IP registration and was never hijacked. -/
theorem rejected_get_error_and_close (cfg : Cfg) (evs : List Ev) (s : State)
    (hr : run (State.init cfg) evs = some s) (c : Conn) (hc : c ∈ s.conns)
    (hrej : c.phase = .done .r429 ∨ c.phase = .done .r503) :
    c.served = false ∧ c.closed = true ∧ c.reg = false ∧ c.hj = .none := by
  obtain ⟨hinv, _, _⟩ := reach hr
  have hci := hinv.cn c hc
  have hpre : preServing c.phase = true := by rcases hrej with h | h <;> simp [h, preServing]
  have hdone : isDone c.phase = true := by rcases hrej with h | h <;> simp [h, isDone]
  have hcl := hci.rej hdone hpre
  exact ⟨(hci.pre hpre).1, hcl, hci.closed_noreg hcl, (hci.pre hpre).2.1⟩

private theorem step_conn {s s1 : State} {i : Nat} {c c1 : Conn} {a : Act} (hc : s.conns[i]? = some c)
    (ha : act s c a = some (s1, c1)) : step s (.conn i a) = some { s1 with conns := s.conns.set i c1 } := by
  simp only [step, hc, ha]

private theorem run3 {s t1 t2 t3 : State} {e1 e2 e3 : Ev} (h1 : step s e1 = some t1) (h2 : step t1 e2 = some t2)
    (h3 : step t2 e3 = some t3) : run s [e1, e2, e3] = some t3 := by
  simp only [run, h1, h2, h3]

private theorem run2 {s t1 t2 : State} {e1 e2 : Ev} (h1 : step s e1 = some t1) (h2 : step t1 e2 = some t2) :
    run s [e1, e2] = some t2 := by
  simp only [run, h1, h2]

/-- **Extra connection, `ServeConn`.**  While the gauge is full (`Concurrency` units taken), the next `ServeConn` call is
    not served: its add returns a value above the limit, it undoes the add, writes 503 and closes; the gauge is back
    where it was. -/
theorem extra_connection_gets_503_serveconn (cfg : Cfg) (evs : List Ev) (s : State)
    (hr : run (State.init cfg) evs = some s) (hfull : cfg.C ≤ s.conc) (i : Nat) (c : Conn)
    (hc : s.conns[i]? = some c) (hpath : c.path = .direct) (hph : c.phase = .wrapped) (err : Bool) :
    ∃ s', run s [.conn i .acqAdd, .conn i .acqDecide, .conn i (.rejectClose err)] = some s' ∧
      s'.conc = s.conc ∧ s'.opn = s.opn ∧
      ∃ c', s'.conns[i]? = some c' ∧ c'.phase = .done .r503 ∧ c'.closed = true ∧ c'.served = false ∧ c'.reg = false := by
  obtain ⟨hinv, _, hcfg⟩ := reach hr
  have hi : i < s.conns.length := (List.getElem?_eq_some_iff.mp hc).1
  have hsv : c.served = false := ((hinv.cn c (List.mem_of_getElem? hc)).pre (by simp [hph, preServing])).1
  have hgt : ¬ (s.conc + 1 ≤ s.cfg.C) := by rw [hcfg]; omega
  obtain ⟨path, cip, phase, reg, closed, served, hj⟩ := c
  simp only at hpath hph hsv
  subst hpath hph hsv
  let c : Conn := ⟨.direct, cip, .wrapped, reg, closed, false, hj⟩
  -- step 1: the add
  let c1 : Conn := { c with phase := .acqTest (s.conc + 1) }
  let t1 : State := { s with conc := s.conc + 1, conns := s.conns.set i c1 }
  have h1 : step s (.conn i .acqAdd) = some t1 :=
    step_conn (a := .acqAdd) (s1 := { s with conc := s.conc + 1 }) (c1 := c1) hc
      (by simp only [act, and_self, if_true]; rfl)
  have hc1 : t1.conns[i]? = some c1 := List.getElem?_set_self hi
  have hi1 : i < t1.conns.length := by simp [t1, hi]
  -- step 2: the test fails, the add is undone
  let c2 : Conn := { c1 with phase := .rejecting }
  let t2 : State := { t1 with conc := t1.conc - 1, conns := t1.conns.set i c2 }
  have h2 : step t1 (.conn i .acqDecide) = some t2 :=
    step_conn (a := .acqDecide) (s1 := { t1 with conc := t1.conc - 1 }) (c1 := c2) hc1 (by
      have hp1 : c1.path = .direct := rfl
      have hph1 : c1.phase = .acqTest (s.conc + 1) := rfl
      have hC : t1.cfg = s.cfg := rfl
      simp only [act, hp1, hph1, hC, hgt, if_false]; rfl)
  have hc2 : t2.conns[i]? = some c2 := List.getElem?_set_self hi1
  -- step 3: 503 + close
  let c3 : Conn := { closeC c2 with phase := .done .r503 }
  let t3 : State := { closeS t2 c2 err with conns := t2.conns.set i c3 }
  have h3 : step t2 (.conn i (.rejectClose err)) = some t3 :=
    step_conn (a := .rejectClose err) (s1 := closeS t2 c2 err) (c1 := c3) hc2 (by
      have hph2 : c2.phase = .rejecting := rfl
      simp only [act, hph2, if_true]; rfl)
  refine ⟨t3, run3 h1 h2 h3, ?_, ?_, c3, ?_, rfl, rfl, rfl, rfl⟩
  · show (closeS t2 c2 err).conc = s.conc
    unfold closeS; split <;> split <;> simp [t2, t1]
  · show (closeS t2 c2 err).opn = s.opn
    unfold closeS; split <;> split <;> simp [t2, t1]
  · exact List.getElem?_set_self (by simp [t2, t1, hi])

/-- **Extra connection, `Serve`.**  While all `Concurrency` workers of a `Serve` call are busy, the next accepted
    connection is not served: `wp.Serve` finds no worker, `open` is restored, 503 is written and the connection is
    closed. -/
theorem extra_connection_gets_503_serve (cfg : Cfg) (evs : List Ev) (s : State)
    (hr : run (State.init cfg) evs = some s) (p : Nat) (pl : Pool) (hp : s.pools[p]? = some pl)
    (hfull : pl.idle = 0 ∧ pl.workers = cfg.C) (i : Nat) (c : Conn)
    (hc : s.conns[i]? = some c) (hpath : c.path = .serve p) (hph : c.phase = .counted) (err : Bool) :
    ∃ s', run s [.conn i .getCh, .conn i .openDec, .conn i (.rejectClose err)] = some s' ∧
      s'.conc = s.conc ∧ s'.opn = s.opn - 1 ∧
      ∃ c', s'.conns[i]? = some c' ∧ c'.phase = .done .r503 ∧ c'.closed = true ∧ c'.served = false ∧ c'.reg = false := by
  obtain ⟨hinv, _, hcfg⟩ := reach hr
  have hi : i < s.conns.length := (List.getElem?_eq_some_iff.mp hc).1
  have hsv : c.served = false := ((hinv.cn c (List.mem_of_getElem? hc)).pre (by simp [hph, preServing])).1
  have hnl : ¬ (pl.workers < s.cfg.C) := by rw [hcfg]; omega
  have hni : ¬ (pl.idle > 0) := by omega
  obtain ⟨path, cip, phase, reg, closed, served, hj⟩ := c
  simp only at hpath hph hsv
  subst hpath hph hsv
  let c : Conn := ⟨.serve p, cip, .counted, reg, closed, false, hj⟩
  let c1 : Conn := { c with phase := .noWorker }
  let t1 : State := { s with conns := s.conns.set i c1 }
  have h1 : step s (.conn i .getCh) = some t1 :=
    step_conn (a := .getCh) (s1 := s) (c1 := c1) hc (by simp only [act, hp, hni, hnl, if_false]; rfl)
  have hc1 : t1.conns[i]? = some c1 := List.getElem?_set_self hi
  have hi1 : i < t1.conns.length := by simp [t1, hi]
  let c2 : Conn := { c1 with phase := .rejecting }
  let t2 : State := { t1 with opn := t1.opn - 1, conns := t1.conns.set i c2 }
  have h2 : step t1 (.conn i .openDec) = some t2 :=
    step_conn (a := .openDec) (s1 := { t1 with opn := t1.opn - 1 }) (c1 := c2) hc1 (by
      have hp1 : c1.path = .serve p := rfl
      have hph1 : c1.phase = .noWorker := rfl
      simp only [act, hp1, hph1]; rfl)
  have hc2 : t2.conns[i]? = some c2 := List.getElem?_set_self hi1
  let c3 : Conn := { closeC c2 with phase := .done .r503 }
  let t3 : State := { closeS t2 c2 err with conns := t2.conns.set i c3 }
  have h3 : step t2 (.conn i (.rejectClose err)) = some t3 :=
    step_conn (a := .rejectClose err) (s1 := closeS t2 c2 err) (c1 := c3) hc2 (by
      have hph2 : c2.phase = .rejecting := rfl
      simp only [act, hph2, if_true]; rfl)
  refine ⟨t3, run3 h1 h2 h3, ?_, ?_, c3, ?_, rfl, rfl, rfl, rfl⟩
  · show (closeS t2 c2 err).conc = s.conc
    unfold closeS; split <;> split <;> simp [t2, t1]
  · show (closeS t2 c2 err).opn = s.opn - 1
    unfold closeS; split <;> split <;> simp [t2, t1]
  · exact List.getElem?_set_self (by simp [t2, t1, hi])

/-- all busy workers of a pool means: it has no idle worker and cannot start another one -/
theorem busy_pool_is_full (cfg : Cfg) (evs : List Ev) (s : State)
    (hr : run (State.init cfg) evs = some s) (p : Nat) (pl : Pool) (hp : s.pools[p]? = some pl)
    (hbusy : wsum (wBusy p) s.conns = cfg.C) : pl.idle = 0 ∧ pl.workers = cfg.C := by
  obtain ⟨hinv, _, hcfg⟩ := reach hr
  have := hinv.pool p pl hp
  rw [hcfg] at this
  omega

/-- **Extra connection, per IP.**  While `M = MaxConnsPerIP` connections from an address are registered, the next
    connection from it (through either entry point) gets 429 and is closed; the count is back where it was. -/
theorem extra_connection_gets_429 (cfg : Cfg) (evs : List Ev) (s : State)
    (hr : run (State.init cfg) evs = some s) (hM : 0 < cfg.M) (i : Nat) (c : Conn)
    (hc : s.conns[i]? = some c) (hph : c.phase = .fresh) (hip : c.ip ≠ 0) (hfull : cfg.M ≤ s.perIP c.ip) :
    ∃ s', run s [.conn i .register, .conn i .ipDecide] = some s' ∧
      s'.perIP c.ip = s.perIP c.ip ∧ s'.conc = s.conc ∧ s'.opn = s.opn ∧
      ∃ c', s'.conns[i]? = some c' ∧ c'.phase = .done .r429 ∧ c'.closed = true ∧ c'.served = false ∧ c'.reg = false := by
  obtain ⟨hinv, _, hcfg⟩ := reach hr
  have hi : i < s.conns.length := (List.getElem?_eq_some_iff.mp hc).1
  have hci := hinv.cn c (List.mem_of_getElem? hc)
  have hsv : c.served = false := (hci.pre (by simp [hph, preServing])).1
  have hrg : c.reg = false := hci.early (Or.inl hph)
  have hcnt : counted s.cfg c = true := by simp [counted, hcfg, hM, hip]
  have hgt : s.perIP c.ip + 1 > s.cfg.M := by rw [hcfg]; omega
  obtain ⟨path, cip, phase, reg, closed, served, hj⟩ := c
  simp only at hph hsv hrg hgt hcnt
  subst hph hsv hrg
  let c : Conn := ⟨path, cip, .fresh, false, closed, false, hj⟩
  let c1 : Conn := { c with phase := .ipTest (s.perIP c.ip + 1) }
  let t1 : State := { s with perIP := ipInc s.perIP c.ip, conns := s.conns.set i c1 }
  have h1 : step s (.conn i .register) = some t1 :=
    step_conn (a := .register) (s1 := { s with perIP := ipInc s.perIP c.ip }) (c1 := c1) hc
      (by simp only [act, hcnt, and_self, if_true]; rfl)
  have hc1 : t1.conns[i]? = some c1 := List.getElem?_set_self hi
  let c2 : Conn := { c1 with phase := .done .r429, closed := true }
  let t2 : State := { t1 with perIP := ipDec t1.perIP c1.ip, conns := t1.conns.set i c2 }
  have h2 : step t1 (.conn i .ipDecide) = some t2 :=
    step_conn (a := .ipDecide) (s1 := { t1 with perIP := ipDec t1.perIP c1.ip }) (c1 := c2) hc1 (by
      have hph1 : c1.phase = .ipTest (s.perIP c.ip + 1) := rfl
      have hC : t1.cfg = s.cfg := rfl
      simp only [act, hph1, hC]
      exact if_pos (show s.perIP c.ip + 1 > s.cfg.M from hgt))
  refine ⟨t2, run2 h1 h2, ?_, rfl, rfl, c2, ?_, rfl, rfl, rfl, rfl⟩
  · show ipDec (ipInc s.perIP c.ip) c.ip c.ip = s.perIP c.ip
    simp [ipDec, ipInc]
  · exact List.getElem?_set_self (by simp [t1, hi])

/-- **A failing transport Close releases the registration all the same.**  Whatever the transport's own `Close`
    reports, every `c.Close()` of the server (after the request loop, after a 503, by `hijackConnHandler`, or by the
    owner of a kept hijacked connection) leaves the connection without a per-IP registration and takes exactly its
    one unit off the address's count. -/
theorem close_error_still_unregisters (cfg : Cfg) (evs : List Ev) (s : State)
    (hr : run (State.init cfg) evs = some s) (i : Nat) (c : Conn) (hc : s.conns[i]? = some c)
    (a : Act) (ha : ∃ err, a = .closeConn err ∨ a = .rejectClose err ∨ a = .hijackClose err ∨ a = .userClose err)
    (s' : State) (hstep : step s (.conn i a) = some s') (hcl : c.hj = .none ∨ ∀ err, a ≠ .closeConn err) :
    ∃ c', s'.conns[i]? = some c' ∧ c'.reg = false ∧ c'.closed = true ∧
      s'.perIP c.ip + (if c.reg then 1 else 0) = s.perIP c.ip ∧ ∀ ip, ip ≠ c.ip → s'.perIP ip = s.perIP ip := by
  obtain ⟨hinv, _, _⟩ := reach hr
  have hi : i < s.conns.length := (List.getElem?_eq_some_iff.mp hc).1
  have hge := ip_ge hinv (List.mem_of_getElem? hc) c.ip
  obtain ⟨err, ha⟩ := ha
  obtain ⟨path, cip, phase, reg, closed, served, hj⟩ := c
  have hw : reg = true → 1 ≤ s.perIP cip := by
    intro h; subst h; simpa [wIP] using hge
  cases hact : act s ⟨path, cip, phase, reg, closed, served, hj⟩ a with
  | none => simp [step, hc, hact] at hstep
  | some r =>
    obtain ⟨s1, c1⟩ := r
    simp only [step, hc, hact, Option.some.injEq] at hstep
    subst hstep
    refine ⟨c1, List.getElem?_set_self hi, ?_⟩
    have key : c1.reg = false ∧ c1.closed = true ∧ s1.perIP cip + (if reg then 1 else 0) = s.perIP cip ∧
        ∀ ip, ip ≠ cip → s1.perIP ip = s.perIP ip := by
      rcases ha with rfl | rfl | rfl | rfl
      all_goals
        simp only [act] at hact
        (repeat' split at hact)
        all_goals first
          | cases hact
          | skip
      all_goals first
        | (exfalso; rcases hcl with h | h
           · simp_all
           · exact h err rfl)
        | (refine ⟨rfl, rfl, ?_, ?_⟩
           · cases err <;> cases reg <;> simp_all [closeS, ipDec] <;> omega
           · intro ip hne; cases err <;> cases reg <;> simp [closeS, ipDec, hne])
    exact key

/-- The shape of the Go code the previous theorem relies on, regenerated from peripconn.go on every run: both
    `perIPConn.Close` and `perIPTLSConn.Close` call `Unregister` as a statement of their own body, and the only
    return before it is the `cc == nil` test of a wrapper that was already closed. -/
theorem close_always_reaches_unregister :
    Gen.perIPConn_Close_unregisterTopLevel = true ∧ Gen.perIPConn_Close_earlyReturnGuards = ["cc == nil"] ∧
    Gen.perIPTLSConn_Close_unregisterTopLevel = true ∧ Gen.perIPTLSConn_Close_earlyReturnGuards = ["cc == nil"] := by
  decide

/-- **Concurrent closers.**  Of any number of parties closing the same wrapped connection, exactly one owns the
    transport: both Close methods set `c.Conn = nil` inside their first lock region and BEFORE calling the transport's
    Close (regenerated from peripconn.go), so every other caller — also one arriving while the owner is still inside the
    transport's Close — finds `cc == nil`.  In the model that caller is the event `dupClose`: enabled exactly when the
    wrapper holds no registration, and it changes nothing (no second Unregister, no second pool Put). -/
theorem second_close_is_noop (s : State) (i : Nat) (c : Conn) (hc : s.conns[i]? = some c) :
    Gen.perIPConn_Close_nilOutUnderLockBeforeTransportClose = true ∧
    Gen.perIPTLSConn_Close_nilOutUnderLockBeforeTransportClose = true ∧
    (c.reg = true → step s (.conn i .dupClose) = none) ∧
    (c.reg = false → ∃ s', step s (.conn i .dupClose) = some s' ∧ s'.perIP = s.perIP ∧ s'.conc = s.conc ∧
      s'.opn = s.opn ∧ s'.conns[i]? = some c) := by
  have hi : i < s.conns.length := (List.getElem?_eq_some_iff.mp hc).1
  refine ⟨by decide, by decide, fun h => by simp [step, hc, act, h], fun h => ?_⟩
  exact ⟨{ s with conns := s.conns.set i c }, by simp [step, hc, act, h], rfl, rfl, rfl, List.getElem?_set_self hi⟩

/-- **Idle retirement cannot raise the capacity.**  In every reachable state — in particular after the cleaner
    retired idle workers (`cleanIdle`) and after retired workers left (`workerExit`), in any interleaving with accepts
    and releases — a pool's `workersCount` is exactly its idle + retiring + busy workers and never exceeds
    `Concurrency`; so at most `Concurrency - busy` further connections can be handed to workers. -/
theorem pool_accounting (cfg : Cfg) (evs : List Ev) (s : State)
    (hr : run (State.init cfg) evs = some s) (p : Nat) (pl : Pool) (hp : s.pools[p]? = some pl) :
    pl.workers = pl.idle + pl.stopping + wsum (wBusy p) s.conns ∧ pl.workers ≤ cfg.C := by
  obtain ⟨hinv, _, hcfg⟩ := reach hr
  have := hinv.pool p pl hp
  rw [hcfg] at this
  exact this

/-- The shape of workerpool.go the pool accounting relies on, regenerated on every run: `workersCount` is written in
    exactly two places — `++` when `getCh` starts a worker, `--` when a worker's goroutine leaves `workerFunc`.
    (`clean` and `Stop` only tell workers to stop; the model's `cleanIdle` leaves `workers` alone and `workerExit` /
    `workerRelease` under `mustStop` are that one decrement.) -/
theorem workersCount_written_in_two_places : Gen.wpWorkersCountWrites = ["getCh:++", "workerFunc:--"] := by
  decide

/-- **Balance.**  Once every connection has been rejected, or served and closed (a hijacked one: closed by
    `hijackConnHandler` or by its owner), the gauge is 0, every per-IP count is 0 and `s.open` equals the number of
    running `Serve` accept loops. -/
theorem balanced_at_quiescence (cfg : Cfg) (evs : List Ev) (s : State)
    (hr : run (State.init cfg) evs = some s) (hq : Quiescent s) :
    s.conc = 0 ∧ (∀ ip, s.perIP ip = 0) ∧ s.opn = (s.serves : Int) ∧ s.serves = wsum running s.pools := by
  obtain ⟨hinv, _, _⟩ := reach hr
  have h1 : wsum wConc s.conns = 0 := by
    apply wsum_eq_zero
    intro c hc
    obtain ⟨⟨r, hr⟩, _, _⟩ := hq c hc
    obtain ⟨path, cip, phase, reg, closed, served, hj⟩ := c
    simp only at hr; subst hr
    cases path <;> simp [wConc]
  have h2 : wsum wOpen s.conns = 0 := by
    apply wsum_eq_zero
    intro c hc
    obtain ⟨⟨r, hr⟩, _, _⟩ := hq c hc
    simp [wOpen, hr]
  have h3 : ∀ ip, wsum (wIP ip) s.conns = 0 := by
    intro ip
    apply wsum_eq_zero
    intro c hc
    obtain ⟨⟨r, hr⟩, hcl, _⟩ := hq c hc
    have := (hinv.cn c hc).closed_noreg hcl
    simp [wIP, hr, isIpTest, this]
  refine ⟨by rw [hinv.conc, h1], fun ip => by rw [hinv.ip ip, h3 ip], ?_, hinv.serves⟩
  have := hinv.opn
  rw [h2] at this
  simpa using this

/-- **Getter view.**  At quiescence `GetCurrentConcurrency()` and `GetOpenConnectionsCount()` return 0 — whether zero,
    one or several `Serve` loops are running, and also when only `ServeConn` was ever used. -/
theorem getters_zero_at_quiescence (cfg : Cfg) (evs : List Ev) (s : State)
    (hr : run (State.init cfg) evs = some s) (hq : Quiescent s) : getConc s = 0 ∧ getOpen s = 0 := by
  obtain ⟨h1, _, h3, _⟩ := balanced_at_quiescence cfg evs s hr hq
  exact ⟨h1, by unfold getOpen; omega⟩

/-- `GetOpenConnectionsCount()` is never negative and counts exactly the connections between `open.Add(1)` and
    `open.Add(-1)`; the gauge counts exactly its holders. -/
theorem getters_count_connections (cfg : Cfg) (evs : List Ev) (s : State)
    (hr : run (State.init cfg) evs = some s) :
    getOpen s = ((wsum wOpen s.conns : Nat) : Int) ∧ getConc s = wsum wConc s.conns := by
  obtain ⟨hinv, _, _⟩ := reach hr
  exact ⟨by unfold getOpen; have := hinv.opn; omega, hinv.conc⟩

/-! ### non-vacuity -/

private def cfg1 : Cfg := ⟨1, 1, false⟩

/-- `ServeConn` only, Concurrency 1: the first connection (from ip 7) is served; the second (ip 8) adds (gauge 2 > 1:
    the transient overshoot), is rejected with 503 and closed; a third from ip 7 gets 429 -/
private def twoDirect : List Ev :=
  [.direct 7, .conn 0 .register, .conn 0 .ipDecide, .conn 0 .acqAdd, .conn 0 .acqDecide, .conn 0 .openInc,
   .conn 0 .startServing,
   .direct 8, .conn 1 .register, .conn 1 .ipDecide, .conn 1 .acqAdd]

example : ((run (State.init cfg1) twoDirect).map fun s => (s.conc, s.opn, s.perIP 7, s.perIP 8, servingAll s)) =
    some (2, 1, 1, 1, 1) := by decide
example : ((run (State.init cfg1) (twoDirect ++ [.conn 1 .acqDecide, .conn 1 (.rejectClose false),
    .direct 7, .conn 2 .register, .conn 2 .ipDecide])).map fun s =>
      (s.conc, s.opn, s.perIP 7, s.perIP 8, s.conns.map fun c => c.phase)) =
    some (1, 1, 1, 0, [.serving, .done .r503, .done .r429]) := by decide

/-- … and after the served connection is closed everything is back to zero although no `Serve` ever ran -/
example : ((run (State.init cfg1) (twoDirect ++ [.conn 1 .acqDecide, .conn 1 (.rejectClose false),
    .conn 0 .cleanupOpen, .conn 0 (.closeConn true), .conn 0 .releaseConc])).map fun s =>
      (getConc s, getOpen s, s.perIP 7, s.perIP 8)) = some (0, 0, 0, 0) := by decide

/-- one `Serve` loop, Concurrency 1, hijack with KeepHijackedConns off: the per-IP registration lives until
    `hijackConnHandler` closes the connection; `GetOpenConnectionsCount` is 0 with the loop still running -/
example : ((run (State.init cfg1)
    [.serveStart, .accept 0 7, .conn 0 .register, .conn 0 .ipDecide, .conn 0 .openInc, .conn 0 .getCh, .conn 0 .concInc,
     .conn 0 .hijackStart, .conn 0 .cleanupOpen, .conn 0 .cleanupConc, .conn 0 (.closeConn true), .conn 0 .workerRelease,
     .conn 0 .hijackReturn]).map fun s => (getConc s, getOpen s, s.opn, s.perIP 7)) = some (0, 0, 1, 1) := by decide
example : ((run (State.init cfg1)
    [.serveStart, .accept 0 7, .conn 0 .register, .conn 0 .ipDecide, .conn 0 .openInc, .conn 0 .getCh, .conn 0 .concInc,
     .conn 0 .hijackStart, .conn 0 .cleanupOpen, .conn 0 .cleanupConc, .conn 0 (.closeConn true), .conn 0 .workerRelease,
     .conn 0 .hijackReturn, .conn 0 (.hijackClose true), .serveStop 0]).map fun s =>
      (getConc s, getOpen s, s.opn, s.perIP 7, s.serves)) = some (0, 0, 0, 0, 0) := by decide

/-- the sequential accept loop: a second `accept` is not enabled while the first connection is still in the loop -/
example : ((run (State.init cfg1) [.serveStart, .accept 0 7, .accept 0 8]).map fun s => s.conc) = none := by decide

/-- the documented precondition of `Concurrency` is needed: one `Serve` loop plus `ServeConn` on the same server,
    Concurrency 1 — two connections are inside the request loop at once -/
example : ((run (State.init ⟨1, 0, false⟩)
    [.direct 0, .conn 0 .skipWrap, .conn 0 .acqAdd, .conn 0 .acqDecide, .conn 0 .openInc, .conn 0 .startServing,
     .serveStart, .accept 0 0, .conn 1 .skipWrap, .conn 1 .openInc, .conn 1 .getCh, .conn 1 .concInc]).map fun s =>
      (servingAll s, servingOn s .direct, servingOn s (.serve 0), s.conc)) = some (2, 1, 1, 2) := by decide

/-- Concurrency 1, one `Serve` loop: a connection is served and closed, the cleaner retires the idle worker, the worker
    leaves; of the next two connections only one is handed to a (new) worker, the other finds none -/
example : ((run (State.init ⟨1, 0, false⟩)
    [.serveStart, .accept 0 0, .conn 0 .skipWrap, .conn 0 .openInc, .conn 0 .getCh, .conn 0 .concInc,
     .conn 0 .cleanupOpen, .conn 0 .cleanupConc, .conn 0 (.closeConn false), .conn 0 .workerRelease,
     .cleanIdle 0, .workerExit 0,
     .accept 0 0, .conn 1 .skipWrap, .conn 1 .openInc, .conn 1 .getCh, .conn 1 .concInc,
     .accept 0 0, .conn 2 .skipWrap, .conn 2 .openInc, .conn 2 .getCh]).map fun s =>
      (s.pools.map (fun pl => (pl.workers, pl.idle, pl.stopping)), s.conns.map (·.phase), servingAll s)) =
    some ([(1, 0, 0)], [.done .served, .serving, .noWorker], 1) := by decide

/-- between the cleaner's stop request and the worker's exit the slot is still taken: a connection arriving then is
    refused although nothing is being served (the transient the harness's validator has to allow for) -/
example : ((run (State.init ⟨1, 0, false⟩)
    [.serveStart, .accept 0 0, .conn 0 .skipWrap, .conn 0 .openInc, .conn 0 .getCh, .conn 0 .concInc,
     .conn 0 .cleanupOpen, .conn 0 .cleanupConc, .conn 0 (.closeConn false), .conn 0 .workerRelease,
     .cleanIdle 0, .accept 0 0, .conn 1 .skipWrap, .conn 1 .openInc, .conn 1 .getCh]).map fun s =>
      (s.conns.map (·.phase), servingAll s)) = some ([.done .served, .noWorker], 0) := by decide

/-- a second closer arriving after the owner took the wrapper changes nothing; before that it is not this event -/
example : ((run (State.init cfg1) (twoDirect.take 7 ++ [.conn 0 .cleanupOpen, .conn 0 (.closeConn false), .conn 0 .dupClose,
    .conn 0 .dupClose, .conn 0 .releaseConc])).map fun s => (getConc s, getOpen s, s.perIP 7)) = some (0, 0, 0) := by decide
example : (run (State.init cfg1) (twoDirect.take 7 ++ [.conn 0 .dupClose])).map (·.conc) = none := by decide

end Fh.Props.C12
