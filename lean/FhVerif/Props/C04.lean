/-
C04 — Client calls return their own response, never another request's bytes.

Pooled connections (Client / HostClient): `pool_conn_is_clean` is the invariant — for ARBITRARY sequences of calls
(any choice of idle connection = LIFO, FIFO or any interleaving of concurrent callers, each of which owns its
connection exclusively by C18 `no_double_lend`), any mix of keep-alive/close, HEAD, buffered and streamed bodies closed
after k bytes with or without error, responses that arrive completely, are cut by the server or stall past the read
deadline: a connection in the pool has no unread byte of an earlier response.  Hence `response_is_own`.
Pipelined connections (PipelineClient): `pipeline_fifo` (the i-th response read is delivered to the i-th request
written, also when earlier calls timed out) and `pipeline_stream_own` (reading the stream of responses in order
yields for each request exactly its own response, HEAD included).

Both repaired defects are kept as counterexample theorems about the old decisions (`requireDrained = false`,
`headSkips = false`).  A third repaired defect (HostClient left `SkipBody` set on the caller's Response after a HEAD
request, so the next non-HEAD call done with the same Response skipped its body and pooled the connection with the
body unread) is outside the model's vocabulary — the model skips a body exactly for HEAD requests, which is what the
repaired code does — and is tied by the harness (calls that reuse one Response).

Assumptions (recorded, not axioms): the response head parser is a parameter (`Framing.parseHead`) and the server is
well-behaved per request (`wfResp`: a head the parser recognises whatever follows, then exactly the declared body, no
body for HEAD, no unsolicited bytes).  That fasthttp's ResponseHeader.Read / ReadBody consume exactly the framed
length is C08/C09's subject; here it is tied by the differential harness.
Residue: real timeouts/scheduler, TLS, retries after connection errors are separate round trips of this model.
-/
import FhVerif.Proofs.ClientConn
import FhVerif.Proofs.Pipeline
import FhVerif.Gen.PipeShape
import FhVerif.Gen.PoolShape

namespace Fh.Props.C04
open Fh Fh.Model.CC Fh.Proofs.ClientConn

/-- the repaired tree -/
def fixedCfg (maxBody : Nat) : Cfg := ⟨maxBody, true, true⟩

/-- Invariant: every connection in the pool has no unread bytes belonging to an earlier response. -/
theorem pool_conn_is_clean (F : Framing) (maxBody : Nat) (evs : List Event) (s : State)
    (hwf : ∀ e ∈ evs, wfEvent F e) (h : run F (fixedCfg maxBody) init evs = some s) :
    ∀ c ∈ s.pool, c.wire = [] :=
  (run_pinv F (fixedCfg maxBody) rfl rfl evs init s hwf pinv_init h).clean

/-- the full statement for pooled connections, as a property of the configuration -/
def C04_full (F : Framing) (cfg : Cfg) : Prop :=
  ∀ (evs : List Event) (s : State), (∀ e ∈ evs, wfEvent F e) → run F cfg init evs = some s →
    ∀ l ∈ s.log, ∀ hd body, l.out = .ok hd body → hd ++ body <+: l.resp

/-- Every successful call returns bytes of the response the server produced for that call's own request: the head
    parsed and the body bytes delivered are a prefix of it (all of it unless the body was streamed and closed early),
    never a byte of another response. -/
theorem response_is_own (F : Framing) (maxBody : Nat) : C04_full F (fixedCfg maxBody) :=
  fun evs s hwf h => (run_pinv F (fixedCfg maxBody) rfl rfl evs init s hwf pinv_init h).own

/-- a buffered (non-streamed) successful call returns the complete response, on a connection from the pool or new -/
theorem response_is_own_complete (F : Framing) (maxBody : Nat) (evs : List Event) (s : State) (e : Event)
    (hwf : ∀ e ∈ evs, wfEvent F e) (hwe : wfEvent F e) (h : run F (fixedCfg maxBody) init evs = some s)
    (c : Conn) (hc : c ∈ s.pool) (hns : e.call.stream = false) (hd body : Bytes)
    (hout : (roundTrip F (fixedCfg maxBody) c.wire e.call e.resp e.arrive e.later).out = .ok hd body) :
    hd ++ body = e.resp := by
  rw [pool_conn_is_clean F maxBody evs s hwf h c hc] at hout
  exact ((rt_clean F (fixedCfg maxBody) rfl rfl e.call e.resp e.arrive e.later hwe).2 hd body hout).2 hns

/-- i-th response delivered to i-th written request on a pipelined connection (any interleaving of callers, timers,
    writer, reader, failures and restarts; shared with C38) -/
theorem pipeline_fifo (m : Nat) (evs : List Model.PL.Event) (s : Model.PL.State)
    (h : Model.PL.run (Model.PL.init m) evs = some s) :
    (∃ rest, s.wire = s.answered ++ rest) ∧ ∀ (k w : Nat), s.answered[k]? = some w → s.wire[k]? = some w := by
  have hf := Proofs.Pipeline.frun_inv evs _ s (Proofs.Pipeline.finv_init m) h
  refine ⟨hf.pre, fun k w hk => ?_⟩
  rcases hf.pre with ⟨rest, hrest⟩
  rw [hrest, List.getElem?_append_left (Proofs.Pipeline.getElem?_lt hk)]
  exact hk

/-- … and what the reader parses for the i-th item is exactly the i-th response the server sent -/
theorem pipeline_stream_own (F : Framing) (maxBody : Nat) (rs : List (Bool × Bytes)) (extra : Bytes)
    (hwf : ∀ r ∈ rs, wfResp F r.1 r.2) :
    ownAll (readAll F (fixedCfg maxBody) (streamOf rs ++ extra) (rs.map (·.1))) rs :=
  readAll_own F (fixedCfg maxBody) rfl rs extra hwf

/-! ### the writer and the reader of client.go have the shape the model assumes

`pipeline_fifo` rests on `FInv.eq`: every request written on a connection is, in order, in `answered`, with the reader,
in chR, or with the writer on its way into chR.  In the model the writer has no step between "written" (`writerWrite`)
and "in chR" (`writerPush`) that drops the item while the connection lives on, and a failed read ends the reader.
`fhextract` recomputes the control skeletons of the two goroutine bodies on every run (Gen/PipeShape.lean); these
theorems pin the stretches that matter: a `continue` (or any other way back to the loop head) between `w.req.Write`
and `chR <- w`, or a reader that goes on after a failed read, stops the proof. -/

/-- written ⇒ queued, or the writer returns (and the worker drops the connection): between `w.req.Write(bw)` and the
    first `chR <- w` the writer can only fail (`w.done <- …; return err`) -/
theorem writer_written_implies_queued :
    Gen.pipeShape_writer_writeToPush =
      ["for true | if err = w.req.Write(bw); err != nil => send w.done",
       "for true | if err = w.req.Write(bw); err != nil => return",
       "for true => label againChR"] ∧
    Gen.pipeShape_writer_actionsAfterWrite =
      ["send w.done", "return", "label againChR", "select-send chR", "select-send chR", "send w.done", "return",
       "bw.Flush", "send w.done", "return", "goto againChR"] := by decide

/-- a failed `w.resp.Read` (connection error or ReadTimeout) answers the item and ends the reader -/
theorem reader_stops_after_failed_read :
    Gen.pipeShape_reader_afterRead =
      ["for true | if err != nil => send w.done", "for true | if err != nil => return", "for true => send w.done"] := by decide

/-- chR is drained only after BOTH goroutines have stopped (the model's `drainOne` needs writer and reader `exited`):
    in `worker` the loop that fails the items still waiting in chR comes after the join of the reader AND the writer on
    either path; the reader itself — deferred code included — takes items out of chR only to read their responses.
    (A drain on the reader's exit would miss what the still-running writer queues afterwards: the item would survive
    the reconnect and be matched with the first response of the next connection.) -/
theorem chR_drained_after_both_stopped :
    Gen.pipeJoins_worker =
      ["recv doneW", "case err = <-doneW => conn.Close", "case err = <-doneW => close stopR", "case err = <-doneW => recv doneR",
       "recv doneR", "case err = <-doneR => conn.Close", "case err = <-doneR => close stopW", "case err = <-doneR => recv doneW",
       "for len(chs.chR) > 0 => recv chs.chR", "for len(chs.chR) > 0 => send w.done"] ∧
    Gen.pipeJoins_reader = ["for true => recv chR", "for true | default => recv chR"] := by decide

/-- transport.RoundTrip: after AcquireConn every way out passes through exactly one of CloseConn / ReleaseConn, or hands
    the connection to the close callback of the streamed body (which does one of the two): no exit leaks the
    connection's slot, and every error exit (write deadline, request write / flush error, read deadline, response read
    error incl. ErrBodyTooLarge) CLOSES the connection — a connection on which a request or a response was cut short is
    never pooled. -/
theorem roundTrip_exits_close_or_release : Gen.rtShape_RoundTrip =
    ["AcquireConn", "if err != nil | return",
     "if err != nil | CloseConn", "if err != nil | return",
     "if err != nil | CloseConn", "if err != nil | return",
     "if err != nil | CloseConn", "if err != nil | return",
     "if err != nil | CloseConn", "if err != nil | return",
     "if customStreamBody && resp.bodyStream != nil | stream close callback installed",
     "if customStreamBody && resp.bodyStream != nil | return",
     "if closeConn | CloseConn", "else of closeConn | ReleaseConn", "return"] := by decide

/-- A streamed body can also be dropped without CloseBodyStream: by ReleaseResponse, by resp.Reset(), or by using the
    same Response for the next Do (which resets it).  For the pool that is the same event as an early close after
    `readK` bytes (`Call.readK`), and the release-vs-close decision must be taken from the framing the body was read
    with: `Response.Reset` drops the body stream (resetSkipHeader → ResetBody → closeBodyStream, i.e. the close
    callback with requestStream.unread()) BEFORE it resets the header that carries Content-Length / chunked. -/
theorem response_reset_drops_stream_before_header :
    Gen.respShape_Reset = ["ReleaseBody", "resetSkipHeader", "Header.Reset"] := by decide

/-! ### the toy framing is a framing (non-vacuity of `wfResp`) -/

theorem toy_wf (t hi lo c : UInt8) (body : Bytes) (isHead : Bool)
    (hb : if isHead then body = [] else body.length = hi.toNat * 256 + lo.toNat) :
    wfResp toy isHead ([t, hi, lo, c] ++ body) := by
  refine ⟨4, hi.toNat * 256 + lo.toNat, c != 0, ?_, ?_, ?_⟩
  · cases isHead
    · simp only [Bool.false_eq_true, if_false] at hb ⊢; simp [hb]; omega
    · simp only [if_true] at hb ⊢; subst hb; simp
  · intro st hpre
    simp only [List.cons_append, List.nil_append, List.take_succ_cons, List.take_zero] at hpre
    rcases hpre with ⟨tl, rfl⟩
    simp [toy, toyParse]
  · intro n hn
    have : n = 0 ∨ n = 1 ∨ n = 2 ∨ n = 3 := by omega
    rcases this with rfl | rfl | rfl | rfl <;> simp [toy, toyParse]

/-! ### the two repaired defects, as counterexamples about the old decisions -/

/-- request 1: streamed 8-byte body (MaxResponseBodySize 2), the caller reads 1 byte and closes the stream without
    error; request 2 reuses the connection -/
def earlyCloseRun : List Event :=
  [⟨1, none, ⟨false, false, true, 1, 0, false, false⟩, [1, 0, 8, 0, 0xAA, 9, 0, 0, 0, 7, 7, 7], 12, false⟩,
   ⟨2, some 0, ⟨false, false, false, 0, 0, false, false⟩, [2, 0, 0, 0], 4, false⟩]

theorem earlyCloseRun_wf : ∀ e ∈ earlyCloseRun, wfEvent toy e := by
  intro e he
  simp only [earlyCloseRun, List.mem_cons, List.not_mem_nil, or_false] at he
  rcases he with rfl | rfl
  · exact toy_wf 1 0 8 0 [0xAA, 9, 0, 0, 0, 7, 7, 7] false (by decide)
  · exact toy_wf 2 0 0 0 [] false (by decide)

/-- Before the repair (`requireDrained = false`) the early-closed stream went back to the pool with 7 unread body
    bytes, and the next call was answered with the response `[9,0,0,0]` found inside them. -/
theorem early_close_counterexample : ¬ C04_full toy ⟨2, false, true⟩ := by
  intro h
  have hrun : run toy ⟨2, false, true⟩ init earlyCloseRun =
      some ⟨[⟨0, [7, 7, 7, 2, 0, 0, 0]⟩], 1, [⟨1, [1, 0, 8, 0, 0xAA, 9, 0, 0, 0, 7, 7, 7], .ok [1, 0, 8, 0] [0xAA]⟩,
                                   ⟨2, [2, 0, 0, 0], .ok [9, 0, 0, 0] []⟩]⟩ := by decide
  have := h earlyCloseRun _ earlyCloseRun_wf hrun ⟨2, [2, 0, 0, 0], .ok [9, 0, 0, 0] []⟩ (by simp) [9, 0, 0, 0] [] rfl
  rw [List.prefix_iff_eq_take] at this
  revert this; decide

/-- the same run on the repaired tree: the connection is closed, request 2 dials and gets its own response -/
example : (run toy (fixedCfg 2) init [earlyCloseRun[0], { earlyCloseRun[1] with pick := none }]).map (fun s => (s.pool, s.log.map (·.out))) =
    some ([⟨1, []⟩], [.ok [1, 0, 8, 0] [0xAA], .ok [2, 0, 0, 0] []]) := by decide

/-- Before the repair (`headSkips = false`) the pipeline reader read a body after the response to a HEAD request:
    the HEAD call was answered with 4 bytes of the next response, and the next call failed. -/
theorem pipeline_head_counterexample :
    readAll toy ⟨0, true, false⟩ (streamOf [(true, [1, 0, 4, 0]), (false, [2, 0, 1, 0, 5])]) [true, false] =
      [.ok [1, 0, 4, 0] [2, 0, 1, 0], .err] := by decide

example : readAll toy (fixedCfg 0) (streamOf [(true, [1, 0, 4, 0]), (false, [2, 0, 1, 0, 5])]) [true, false] =
    [.ok [1, 0, 4, 0] [], .ok [2, 0, 1, 0] [5]] := by decide

/-! ### non-vacuity of the invariant: a reachable pool with a reused clean connection -/

example : (run toy (fixedCfg 0) init
    [⟨1, none, ⟨false, false, false, 0, 0, false, false⟩, toyResp 1 3 false false, 7, false⟩,
     ⟨2, some 0, ⟨true, false, false, 0, 0, false, false⟩, toyResp 2 3 false true, 4, false⟩,
     ⟨3, some 0, ⟨false, false, false, 0, 0, false, false⟩, toyResp 3 2 true false, 6, false⟩]).map (fun s => (s.pool, s.log.map (·.out))) =
    some ([], [.ok [1, 0, 3, 0] [7, 8, 9], .ok [2, 0, 3, 0] [], .ok [3, 0, 2, 1] [21, 22]]) := by decide

/-- a response cut by the server inside the body: error, connection closed, nothing pooled -/
example : (run toy (fixedCfg 0) init
    [⟨1, none, ⟨false, false, false, 0, 0, false, false⟩, toyResp 1 3 false false, 5, false⟩]).map (fun s => (s.pool, s.log.map (·.out))) =
    some ([], [.err]) := by decide

end Fh.Props.C04
