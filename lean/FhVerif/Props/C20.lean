/-
C20 — Redirects never leak credentials to other hosts.

The redirect loop (Model.runLoop, mirroring client.go doRequestFollowRedirects) is parameterised by the URL machinery
(`Engine`: Request.parseURI, getRedirectURL); every theorem below holds for every engine, every script of c.Do results
and every initial request.  The one fact about URLs that is used — URI.String never prints userinfo, so a redirected
request gets no Authorization header from its URL — is the hypothesis `NoUserinfoAfterRedirect`; it is proved for the
concrete engine Model.Redir.urlEngine (`urlEngine_no_userinfo`).  That the host the trust decision looked at is the host
the next request is sent to is `judged_is_contacted` (concrete engine; hosts in its modelled domain: no bracketed IP
literals, no '%'), giving `creds_reach_only_trusted_hosts`.  Outside that domain (and for the real URI code as a whole)
the same fact is observed on every hop of every generated chain by the harness (fake multi-host network keyed by dial
address; kind "url" compares judged and contacted host directly).
-/
import FhVerif.Proofs.Redirect
import FhVerif.Proofs.RedirectURL

namespace Fh.Props.C20
open Fh Fh.Model Fh.Model.Redir Fh.Proofs.Redirect Fh.Proofs.RedirectURL

/-- the trust decision: credentials are kept only for the anchor host itself or a host ending in "." ++ anchor
    (ASCII case folded), the latter never for hosts containing ':' (IPv6 literals) or '%' (zones, escapes) -/
theorem trust_sound (anchor redirectHostPort : Bytes) (h : trusted anchor redirectHostPort = true) :
    foldEq (hostnameFromHostPort redirectHostPort) anchor = true ∨
    ∃ pre suf, hostnameFromHostPort redirectHostPort = pre ++ 46 :: suf ∧ foldEq suf anchor = true ∧
      (58 : UInt8) ∉ hostnameFromHostPort redirectHostPort ∧ (37 : UInt8) ∉ hostnameFromHostPort redirectHostPort :=
  (isDomainOrSubdomain_iff _ _).1 h

/-- ... and exactly those -/
theorem trust_complete (anchor redirectHostPort : Bytes)
    (h : foldEq (hostnameFromHostPort redirectHostPort) anchor = true ∨
      ∃ pre suf, hostnameFromHostPort redirectHostPort = pre ++ 46 :: suf ∧ foldEq suf anchor = true ∧
        (58 : UInt8) ∉ hostnameFromHostPort redirectHostPort ∧ (37 : UInt8) ∉ hostnameFromHostPort redirectHostPort) :
    trusted anchor redirectHostPort = true :=
  (isDomainOrSubdomain_iff _ _).2 h

/-- ASCII case folding only: hosts of different byte length are never "equal" (no Unicode folding such as
    U+212A KELVIN SIGN ~ 'k') -/
theorem fold_same_length (a b : Bytes) (h : foldEq a b = true) : a.length = b.length := foldEq_length h

variable {U : Type}

/-- C20: in any chain, the request handed to c.Do at hop i carries a sensitive header only if the redirects of
    hops 1..i were all judged trusted w.r.t. the INITIAL host (the anchor never changes). -/
theorem creds_only_while_trusted (E : Engine U) (hU : NoUserinfoAfterRedirect E) (maxR : Int) (anchor : Bytes)
    (script : List (Option Resp)) (url0 : U) (req0 : RReq)
    (pre : List (Attempt U)) (a : Attempt U) (post : List (Attempt U))
    (h : (runLoop E maxR anchor script url0 req0 0 none).1 = pre ++ a :: post) (hc : Carries a.req) :
    ∀ b ∈ (pre ++ [a]).tail, TrustedVia anchor b :=
  creds_trusted_gen E hU maxR anchor script url0 req0 0 none pre a post h hc

/-- in particular the request that follows an untrusted redirect carries none of the sensitive names -/
theorem untrusted_hop_is_clean (E : Engine U) (maxR : Int) (anchor : Bytes)
    (script : List (Option Resp)) (url0 : U) (req0 : RReq)
    (pre : List (Attempt U)) (a b : Attempt U) (post : List (Attempt U))
    (h : (runLoop E maxR anchor script url0 req0 0 none).1 = pre ++ a :: b :: post)
    (s : Nat) (j : Bytes) (hv : b.via = some (s, j)) (hu : trusted anchor j = false) : ¬ Carries b.req := by
  obtain ⟨st, loc, _, _, hvia, hreq⟩ := step_shape E maxR anchor script url0 req0 0 none pre a b post h
  rintro ⟨t, ht, hc⟩
  rw [hvia] at hv
  injection hv with hv
  injection hv with _ hj
  rw [hreq] at hc
  have := methodRule_names hc
  rw [hj] at this
  rw [stripSensitive_untrusted hu ht] at this
  cases this

/-- C20: a sensitive name that is off the request at some hop (after the first, or with no userinfo on that hop's URL)
    is off at every later hop: nothing is re-added when the chain comes back to a trusted host. -/
theorem stripped_stay_stripped (E : Engine U) (hU : NoUserinfoAfterRedirect E) (maxR : Int) (anchor : Bytes)
    (script : List (Option Resp)) (url0 : U) (req0 : RReq)
    (pre : List (Attempt U)) (a : Attempt U) (post : List (Attempt U))
    (h : (runLoop E maxR anchor script url0 req0 0 none).1 = pre ++ a :: post)
    (t : Bytes) (ht : t ∈ sensitiveNames) (hoff : hasName a.req.names t = false) (hui : E.userinfo a.url = false) :
    ∀ b ∈ post, hasName b.req.names t = false := by
  obtain ⟨s', c', hs, _⟩ := suffix_is_trace E maxR anchor script url0 req0 0 none pre a post h
  intro b hb
  exact absent_stays_absent E hU maxR anchor t ht s' a.url a.req c' a.via hoff hui b (by rw [hs]; simp [hb])

/-- C20: at most maxRedirectsCount redirects are followed (at most maxRedirectsCount + 1 calls of c.Do) -/
theorem hops_le_max (E : Engine U) (maxR : Int) (anchor : Bytes) (script : List (Option Resp)) (url0 : U) (req0 : RReq) :
    (runLoop E maxR anchor script url0 req0 0 none).1.length ≤ maxR.toNat + 1 := by
  have := length_le E maxR anchor script url0 req0 0 none
  simpa using this

theorem framing_after_303 : ∀ t ∈ framingNames, ∀ ns : List Bytes, ∀ ui : Bool,
    hasName (if ui then setNameExact (delNames ns framingNames) authName else delNames ns framingNames) t = false := by
  intro t ht ns ui
  cases ui with
  | false => simp only [Bool.false_eq_true, if_false]; exact delNames_removes ns t ht
  | true =>
    simp only [if_true]
    cases hc : hasName (setNameExact (delNames ns framingNames) authName) t with
    | false => rfl
    | true =>
      rcases hasName_setNameExact hc with h | h
      · rw [delNames_removes ns t ht] at h; cases h
      · rw [auth_not_framing t ht] at h; cases h

/-- C20: the request that follows a 303 is a GET or HEAD without body and without Content-Length, Content-Type,
    Transfer-Encoding or Trailer on the wire -/
theorem see_other_is_bodyless_get_or_head (E : Engine U) (maxR : Int) (anchor : Bytes)
    (script : List (Option Resp)) (url0 : U) (req0 : RReq)
    (pre : List (Attempt U)) (a b : Attempt U) (post : List (Attempt U))
    (h : (runLoop E maxR anchor script url0 req0 0 none).1 = pre ++ a :: b :: post)
    (j : Bytes) (hv : b.via = some (303, j)) (ui : Bool) :
    (b.req.method = methodGet ∨ b.req.method = methodHead) ∧
    wireFraming b.req ui = ⟨false, false, false, false, false⟩ := by
  obtain ⟨st, loc, _, _, hvia, hreq⟩ := step_shape E maxR anchor script url0 req0 0 none pre a b post h
  rw [hvia] at hv
  injection hv with hv
  injection hv with hst _
  subst hst
  have hm : b.req.method = methodGet ∨ b.req.method = methodHead := by
    rw [hreq]
    simp only [methodRule, beq_self_eq_true, if_true]
    split
    · rename_i hc
      simp only [Bool.or_eq_true, beq_iff_eq] at hc
      exact hc
    · exact Or.inl rfl
  refine ⟨hm, ?_⟩
  have hig : ignoreBody b.req = true := by
    unfold ignoreBody
    rcases hm with hm | hm <;> simp [hm]
  have hb : b.req.body = Body.none := by rw [hreq]; simp [methodRule]
  have hcl : b.req.clSet = false := by rw [hreq]; simp [methodRule]
  have hn : b.req.names = delNames (stripSensitive (afterWrite a.req (E.userinfo a.url)) anchor (E.resolve a.url loc).2).names framingNames := by
    rw [hreq]; simp [methodRule]
  have hct : Gen.cHeaderContentType ∈ framingNames := by decide +kernel
  have hte : teName ∈ framingNames := by decide +kernel
  have htr : Gen.cHeaderTrailer ∈ framingNames := by decide +kernel
  have key := fun t ht => framing_after_303 t ht (stripSensitive (afterWrite a.req (E.userinfo a.url)) anchor (E.resolve a.url loc).2).names ui
  unfold wireFraming afterWrite
  simp only [hb, hig, if_true, hcl, hn, key _ hct, key _ hte, key _ htr]
  simp

/-- C20: a POST answered by 301 or 302 is followed by a GET -/
theorem post_becomes_get_on_301_302 (E : Engine U) (maxR : Int) (anchor : Bytes)
    (script : List (Option Resp)) (url0 : U) (req0 : RReq)
    (pre : List (Attempt U)) (a b : Attempt U) (post : List (Attempt U))
    (h : (runLoop E maxR anchor script url0 req0 0 none).1 = pre ++ a :: b :: post)
    (hp : a.req.method = methodPost) (s : Nat) (j : Bytes) (hv : b.via = some (s, j)) (hs : s = 301 ∨ s = 302) :
    b.req.method = methodGet := by
  obtain ⟨st, loc, _, _, hvia, hreq⟩ := step_shape E maxR anchor script url0 req0 0 none pre a b post h
  rw [hvia] at hv
  injection hv with hv
  injection hv with hst _
  subst hst
  have hm : (stripSensitive (afterWrite a.req (E.userinfo a.url)) anchor (E.resolve a.url loc).2).method = methodPost := by
    have h1 : ∀ r : RReq, ∀ x y, (stripSensitive r x y).method = r.method := by
      intro r x y; unfold stripSensitive; split <;> rfl
    have h2 : ∀ r : RReq, ∀ u, (afterWrite r u).method = r.method := by
      intro r u; unfold afterWrite
      cases r.body with
      | chunkedStream => rfl
      | bytes => rfl
      | none => simp only []; split <;> rfl
    rw [h1, h2, hp]
  rw [hreq]
  unfold methodRule
  rcases hs with rfl | rfl <;> simp [hm]

/-! ### the concrete URL engine (uri.go URI.parse / updateBytes / String as far as scheme and host go) -/

/-- URI.String never prints userinfo: the hypothesis of the loop theorems holds for the concrete engine -/
theorem urlEngine_no_userinfo : NoUserinfoAfterRedirect urlEngine := Fh.Proofs.RedirectURL.urlEngine_no_userinfo

/-- the host the trust decision looked at is the host the next request is sent to (whenever the resolved URL parses
    and its host is in the modelled domain: not an IP literal in brackets, no '%') -/
theorem judged_is_contacted (u : UrlV) (loc : Bytes) (hk : (getRedirect u loc).unk = false)
    (sch h : Bytes) (hc : contacted (urlEngine.resolve u loc).1 = some (sch, h)) : h = (urlEngine.resolve u loc).2 :=
  Fh.Proofs.RedirectURL.judged_is_contacted u loc hk sch h hc

/-- C20 end to end on the concrete engine: a redirected request that still carries a sensitive header is sent to a host
    the trust decision accepted for the INITIAL host - i.e. (trust_sound) the initial host itself or a dot-suffix
    subdomain of it. -/
theorem creds_reach_only_trusted_hosts (maxR : Int) (anchor : Bytes) (script : List (Option Resp)) (url0 : UrlV) (req0 : RReq)
    (pre : List (Attempt UrlV)) (a : Attempt UrlV) (post : List (Attempt UrlV))
    (h : (runLoop urlEngine maxR anchor script url0 req0 0 none).1 = pre ++ a :: post) (hne : pre ≠ [])
    (hc : Carries a.req) (hk : a.url.unk = false) (sch host : Bytes) (hcon : contacted a.url = some (sch, host)) :
    trusted anchor host = true := by
  obtain ⟨s, j, hv, ht⟩ : TrustedVia anchor a := by
    apply creds_only_while_trusted urlEngine urlEngine_no_userinfo maxR anchor script url0 req0 pre a post h hc
    cases pre with
    | nil => exact absurd rfl hne
    | cons b pre' => simp
  -- the predecessor of `a`
  have hsplit : ∃ pre' b, pre = pre' ++ [b] := by
    refine ⟨pre.dropLast, pre.getLast hne, ?_⟩
    exact (List.dropLast_concat_getLast hne).symm
  obtain ⟨pre', b, rfl⟩ := hsplit
  have h' : (runLoop urlEngine maxR anchor script url0 req0 0 none).1 = pre' ++ b :: a :: post := by
    rw [h]; simp
  obtain ⟨st, loc, _, hurl, hvia, _⟩ := step_shape urlEngine maxR anchor script url0 req0 0 none pre' b a post h'
  rw [hvia] at hv
  injection hv with hv
  injection hv with _ hj
  have hunk : (getRedirect b.url loc).unk = false := by
    rw [hurl] at hk
    simp only [urlEngine, UrlV.unk, Bool.or_eq_false_iff] at hk
    exact hk.1
  rw [hurl] at hcon
  have := judged_is_contacted b.url loc hunk sch host hcon
  rw [this, hj]; exact ht

/-! ### non-vacuity -/

/-- a scripted engine: URLs are host names, a Location is the next host name -/
def toyEngine : Engine Bytes := ⟨fun _ => true, fun _ => false, fun _ loc => (loc, loc)⟩

theorem toy_no_userinfo : NoUserinfoAfterRedirect toyEngine := fun _ _ => rfl

def good : Bytes := ofString "good.com"
def toyReq : RReq := ⟨methodPost, [Gen.cHeaderAuthorization, Gen.cHeaderCookie, ofString "X-Other"], .bytes, false⟩

/-- good.com -(302)-> api.good.com -(303)-> evil.com -(307)-> good.com -(200) -/
def toyScript : List (Option Resp) :=
  [some ⟨302, ofString "api.good.com"⟩, some ⟨303, ofString "evil.com"⟩, some ⟨307, good⟩, some ⟨200, []⟩]

example : ((runLoop toyEngine 16 good toyScript good toyReq 0 none).1.map fun a => (a.req.method, a.req.names, a.req.body)) =
    [(methodPost, [Gen.cHeaderAuthorization, Gen.cHeaderCookie, ofString "X-Other"], .bytes),
     (methodGet, [Gen.cHeaderAuthorization, Gen.cHeaderCookie, ofString "X-Other"], .bytes),
     (methodGet, [ofString "X-Other"], .none),
     (methodGet, [ofString "X-Other"], .none)] := by decide +kernel
example : (runLoop toyEngine 16 good toyScript good toyReq 0 none).2 = .done 200 := by decide +kernel
example : (runLoop toyEngine 2 good toyScript good toyReq 0 none).2 = .tooMany := by decide +kernel
example : (runLoop toyEngine 2 good toyScript good toyReq 0 none).1.length = 3 := by decide +kernel
example : trusted good (ofString "API.Good.com:8443") = true := by decide +kernel
example : trusted good (ofString "evilgood.com") = false := by decide +kernel
example : trusted good (ofString "good.com.evil.com") = false := by decide +kernel
example : trusted (ofString "::1") (ofString "[::1]:8080") = true := by decide +kernel
example : trusted (ofString "1") (ofString "[fe80::.1]") = false := by decide +kernel
example : trusted (ofString "k.com") [0xe2, 0x84, 0xaa, 46, 99, 111, 109] = false := by decide +kernel
example : hostnameFromURLString (ofString "https://user:pw@Good.com:8443/p?q#f") = ofString "Good.com" := by decide +kernel
example : Carries toyReq := ⟨Gen.cHeaderCookie, by decide +kernel, by decide +kernel⟩
example : wireFraming toyReq false = ⟨true, true, false, false, true⟩ := by decide +kernel

/-- the concrete engine on real URL strings -/
example : urlEngine.resolve (.raw (ofString "http://Good.com/a/b")) (ofString "//user:pw@API.good.com:8443/x") =
    (.built (ofString "http") (ofString "api.good.com:8443") false false, ofString "api.good.com:8443") := by decide +kernel
example : contacted (urlEngine.resolve (.raw (ofString "http://good.com/a")) (ofString "https://good.com@evil.com/")).1 =
    some (ofString "https", ofString "evil.com") := by decide +kernel
example : (getRedirect (.raw (ofString "http://good.com/a")) (ofString "//[::1]/x")).unk = true := by decide +kernel
example : ((runLoop urlEngine 16 (hostnameFromURLString (ofString "http://good.com/")) 
      [some ⟨302, ofString "//api.good.com/x"⟩, some ⟨307, ofString "http://evil.com/"⟩, some ⟨200, []⟩]
      (.raw (ofString "http://good.com/")) toyReq 0 none).1.map fun a => (contacted a.url, a.req.names.length)) =
    [(some (ofString "http", ofString "good.com"), 3), (some (ofString "http", ofString "api.good.com"), 3),
     (some (ofString "http", ofString "evil.com"), 1)] := by decide +kernel

end Fh.Props.C20
