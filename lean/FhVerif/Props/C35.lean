/-
C35 — Multipart forms round-trip; upload temp files do not outlive the request.
Property theorems only (helpers in Proofs/MultipartC35.lean).

Level: proof, partial.  Proved: on every path the serve loop can take (pre-parsed and on-demand parsing, parse errors,
RemoveMultipartFormFiles / ResetBody by the handler, keep-alive, Connection: close, write errors, timeouts) no temporary
file of an earlier request exists when the next request is dispatched or when the connection is closed — files of
timed-out requests excepted, as the property states.  NOT proved (third party): that mime/multipart's Form.RemoveAll
really deletes the files, and the WriteMultipartForm ↔ ReadForm round trip; both are checked on every run by the
harness (temp directory listing; parse-back comparison).
-/
import FhVerif.Proofs.MultipartC35

namespace Fh.Props.C35
open Fh Fh.Model.C35 Fh.Proofs.MultipartC35

/-- C35: for every event sequence the serve loop admits, at the moment the handler of a request is called every
    temporary file on disk (not owned by a timed-out request) was created by THAT request's own pre-parse — none is
    left from request k when request k+1 is dispatched — and when the connection is closed none is left at all. -/
theorem no_tempfile_at_next_dispatch_or_close (evs : List MEv) (s s' : MSt) (e : MEv)
    (hrun : mrun {} evs = some s) (hstep : mstep s e = some s') :
    (e = .dispatch → ∀ f ∈ liveFiles s', f = s'.reqNum) ∧ (e = .close → liveFiles s' = []) := by
  have hinv : MInv s := mrun_inv evs {} s minv_init hrun
  have hinv' : MInv s' := mstep_inv s s' e hinv hstep
  constructor
  · intro _ f hf
    simp only [liveFiles, List.mem_filter, decide_eq_true_eq] at hf
    rcases hinv'.owned f hf.1 with hd | ⟨_, he⟩
    · exact absurd hd hf.2
    · exact he
  · intro he; subst he
    have hph : s'.phase = .closed := by
      simp only [mstep] at hstep
      split at hstep
      · injection hstep with hstep; subst hstep; rfl
      · cases hstep
    have hnf := hinv'.noForm (Or.inr (Or.inr (Or.inl hph)))
    simp only [liveFiles, List.filter_eq_nil_iff, decide_eq_true_eq, Decidable.not_not]
    intro f hf
    rcases hinv'.owned f hf with hd | ⟨ht, _⟩
    · exact hd
    · rw [hnf] at ht; cases ht

/-- stronger, and what the loop really does: the files are gone as soon as the loop is back at its top (and after
    releaseCtx), before the next request is even read -/
theorem no_tempfile_between_requests (evs : List MEv) (s : MSt) (hrun : mrun {} evs = some s)
    (hph : s.phase = .idle ∨ s.phase = .released ∨ s.phase = .closed) : liveFiles s = [] := by
  have hinv : MInv s := mrun_inv evs {} s minv_init hrun
  have hnf := hinv.noForm (by rcases hph with h | h | h <;> simp [h])
  simp only [liveFiles, List.filter_eq_nil_iff, decide_eq_true_eq, Decidable.not_not]
  intro f hf
  rcases hinv.owned f hf with hd | ⟨ht, _⟩
  · exact hd
  · rw [hnf] at ht; cases ht

/-- the exception is real: a timed-out request's files are out of the server's hands (they stay until the handler
    goroutine that owns that ctx removes them) -/
theorem timed_out_request_keeps_its_files :
    ∃ evs s, mrun {} evs = some s ∧ s.phase = .closed ∧ s.files ≠ [] ∧ liveFiles s = [] :=
  ⟨[.readOk true 1, .dispatch, .timeout, .handlerRet, .writeOk false, .release, .close], _, rfl, by decide, by decide, by decide⟩

/-! ### non-vacuity: files are really created and really removed on the paths the property names -/

-- pre-parsed upload (1 temp file), keep-alive, next request dispatched: nothing left
example : (mrun {} [.readOk true 1, .dispatch, .handlerRet, .writeOk true, .loopReset, .readOk false 0, .dispatch]).map
    (fun s => (s.files, s.reqNum)) = some ([], 2) := by decide
-- the file exists while its own request is being handled
example : (mrun {} [.readOk true 1, .dispatch]).map (·.files) = some [1] := by decide
-- on-demand parse in a streaming handler, then Connection: close
example : (mrun {} [.readOk false 0, .dispatch, .parse 2, .handlerRet, .writeOk false, .release, .close]).map (·.files)
    = some [] := by decide
example : (mrun {} [.readOk false 0, .dispatch, .parse 2]).map (·.files) = some [1, 1] := by decide
-- handler removes the files itself, parses again, write fails
example : (mrun {} [.readOk true 1, .dispatch, .removeFiles, .parse 1, .handlerRet, .writeErr, .release, .close]).map (·.files)
    = some [] := by decide
-- parse error while reading the request
example : (mrun {} [.readOk true 3, .dispatch, .handlerRet, .writeOk true, .loopReset, .readErr, .release, .close]).map (·.files)
    = some [] := by decide
-- MultipartFormWithLimit on a stream: the form parsed completely (one temp file) but the body exceeds the limit:
-- the file is gone when the call returns, hence at the next dispatch
example : (mrun {} [.readOk false 0, .dispatch, .parseTooLarge 1]).map (·.files) = some [] := by decide
example : (mrun {} [.readOk false 0, .dispatch, .parseTooLarge 1, .handlerRet, .writeOk true, .loopReset, .readOk false 0,
    .dispatch]).map (·.files) = some [] := by decide
-- pre-parse: the form parsed completely (one temp file), then the announced rest of the body could not be read
-- (early EOF / read error): nothing is left when the connection is closed
example : (mrun {} [.readDrainFail 1 true, .release, .close]).map (·.files) = some [] := by decide
example : (mrun {} [.readOk true 1, .dispatch, .handlerRet, .writeOk true, .loopReset, .readDrainFail 2 false, .release,
    .close]).map (·.files) = some [] := by decide
-- events the loop cannot produce are rejected (the theorems are about real traces only)
example : mrun {} [.dispatch] = none := by decide
example : mrun {} [.readOk true 1, .dispatch, .handlerRet, .writeOk true, .readOk true 1] = none := by decide

end Fh.Props.C35
