/-
C15 — Shutdown is graceful.
-/
import FhVerif.Model.Shutdown
import FhVerif.Gen.Facts

namespace Fh.Props.C15
open Fh Fh.Model

/-- the gauge is exact: open = (Serve still running) + connections whose loop has not ended;
    handlers in flight are accounted for; a nil return is only ever recorded with open = 0 -/
structure SDInv (s : SDState) : Prop where
  gauge : s.open_ = (if s.serveRunning then 1 else 0) + live s.conns
  listener : s.stop = true → s.listenerOpen = false
  doneCh : s.stop = true → s.doneClosed = true
  answered_le : s.answered + (s.conns.filter (fun p => p == .inHandler || p == .writing || p == .buffered)).length = s.started
  nil_ok : s.returnedNil = true → s.open_ = 0 ∧ s.stop = true

def cnt (f : ConnPhase → Bool) (l : List ConnPhase) : Nat := (l.filter f).length
def hw (p : ConnPhase) : Bool := p == .inHandler || p == .writing || p == .buffered

theorem cnt_set (f : ConnPhase → Bool) (l : List ConnPhase) (i : Nat) (p q : ConnPhase) (h : l[i]? = some p) :
    cnt f (l.set i q) + (if f p then 1 else 0) = cnt f l + (if f q then 1 else 0) := by
  induction l generalizing i with
  | nil => simp at h
  | cons x xs ih =>
    cases i with
    | zero =>
      simp at h; subst h
      simp only [cnt, List.set_cons_zero, List.filter_cons]
      cases f x <;> cases f q <;> simp <;> omega
    | succ i =>
      simp at h
      have := ih i h
      simp only [cnt, List.set_cons_succ, List.filter_cons] at this ⊢
      cases f x <;> simp <;> omega

theorem live_eq_cnt (l : List ConnPhase) : live l = cnt (· != .done) l := rfl

theorem cnt_map_idle (f : ConnPhase → Bool) (hfi : f .idle = true) (hfd : f .done = false) (l : List ConnPhase) :
    cnt f (l.map closeIdle) + (l.filter (· == .idle)).length = cnt f l := by
  induction l with
  | nil => rfl
  | cons x xs ih =>
    simp only [cnt] at ih
    cases x <;> simp only [cnt, closeIdle, List.map_cons, List.filter_cons] <;> simp [hfi, hfd]
    all_goals first
      | omega
      | (split <;> simp <;> omega)
      | (split <;> (try simp only [List.length_cons]) <;> omega)

theorem cnt_map_idle_other (f : ConnPhase → Bool) (hfi : f .idle = false) (hfd : f .done = false) (l : List ConnPhase) :
    cnt f (l.map closeIdle) = cnt f l := by
  induction l with
  | nil => rfl
  | cons x xs ih =>
    simp only [cnt] at ih
    cases x <;> simp only [cnt, closeIdle, List.map_cons, List.filter_cons] <;> simp [hfi, hfd, ih]
    all_goals (split <;> simp [ih])

theorem sd_init : SDInv {} := by
  refine ⟨by simp [live], by simp, by simp, by simp, by simp⟩

theorem sdStep_inv (s s' : SDState) (e : SDEvent) (h : SDInv s) (hs : sdStep s e = some s') : SDInv s' := by
  have hg := h.gauge; rw [live_eq_cnt] at hg
  have ha := h.answered_le
  have hhw : (s.conns.filter (fun p => p == .inHandler || p == .writing || p == .buffered)).length = cnt hw s.conns := rfl
  rw [hhw] at ha
  cases e with
  | accept =>
    simp only [sdStep] at hs
    split at hs
    · rename_i hc
      injection hs with hs; subst hs
      simp only [Bool.and_eq_true] at hc
      refine ⟨?_, h.listener, h.doneCh, ?_, ?_⟩
      · simp [live_eq_cnt, cnt, List.filter_append, hc.2] at hg ⊢; omega
      · show _ + cnt hw _ = _
        simp [cnt, List.filter_append, hw] at ha ⊢; exact ha
      · intro hn
        have hst := (h.nil_ok hn).2
        have := h.listener hst
        rw [this] at hc; simp at hc
    · cases hs
  | firstByte i =>
    simp only [sdStep] at hs
    split at hs
    · rename_i hc
      injection hs with hs; subst hs
      have c1 := cnt_set (· != .done) s.conns i .idle .reading hc
      have c2 := cnt_set hw s.conns i .idle .reading hc
      simp [hw] at c1 c2
      refine ⟨by simp only [live_eq_cnt, setPhase]; omega, h.listener, h.doneCh, ?_, h.nil_ok⟩
      show _ + cnt hw (setPhase _ _ _) = _; simp only [setPhase]; omega
    · cases hs
  | headerDone i =>
    simp only [sdStep] at hs
    split at hs
    · rename_i hc
      injection hs with hs; subst hs
      have c1 := cnt_set (· != .done) s.conns i .reading .inHandler hc
      have c2 := cnt_set hw s.conns i .reading .inHandler hc
      simp [hw] at c1 c2
      refine ⟨by simp only [live_eq_cnt, setPhase]; omega, h.listener, h.doneCh, ?_, h.nil_ok⟩
      show _ + cnt hw (setPhase _ _ _) = _; simp only [setPhase]; omega
    · cases hs
  | handlerReturn i =>
    simp only [sdStep] at hs
    split at hs
    · rename_i hc
      injection hs with hs; subst hs
      have c1 := cnt_set (· != .done) s.conns i .inHandler .writing hc
      have c2 := cnt_set hw s.conns i .inHandler .writing hc
      simp [hw] at c1 c2
      refine ⟨by simp only [live_eq_cnt, setPhase]; omega, h.listener, h.doneCh, ?_, h.nil_ok⟩
      show _ + cnt hw (setPhase _ _ _) = _; simp only [setPhase]; omega
    · cases hs
  | responseWritten i =>
    simp only [sdStep] at hs
    split at hs
    · rename_i hc
      split at hs
      · injection hs with hs; subst hs
        have c1 := cnt_set (· != .done) s.conns i .writing .done hc
        have c2 := cnt_set hw s.conns i .writing .done hc
        simp [hw] at c1 c2
        refine ⟨by simp only [live_eq_cnt, setPhase]; split at hg <;> simp_all <;> omega, h.listener, h.doneCh, ?_, ?_⟩
        · show _ + cnt hw (setPhase _ _ _) = _; simp only [setPhase]; omega
        · intro hn; have := h.nil_ok hn; exact ⟨by dsimp only; omega, this.2⟩
      · injection hs with hs; subst hs
        have c1 := cnt_set (· != .done) s.conns i .writing .idle hc
        have c2 := cnt_set hw s.conns i .writing .idle hc
        simp [hw] at c1 c2
        refine ⟨by simp only [live_eq_cnt, setPhase]; omega, h.listener, h.doneCh, ?_, h.nil_ok⟩
        show _ + cnt hw (setPhase _ _ _) = _; simp only [setPhase]; omega
    · cases hs
  | responseBuffered i =>
    simp only [sdStep] at hs
    split at hs
    · rename_i hc
      injection hs with hs; subst hs
      have c1 := cnt_set (· != .done) s.conns i .writing .buffered hc
      have c2 := cnt_set hw s.conns i .writing .buffered hc
      simp [hw] at c1 c2
      refine ⟨by simp only [live_eq_cnt, setPhase]; omega, h.listener, h.doneCh, ?_, h.nil_ok⟩
      show _ + cnt hw (setPhase _ _ _) = _; simp only [setPhase]; omega
    · cases hs
  | bufferedNext i =>
    simp only [sdStep] at hs
    split at hs
    · rename_i hc
      split at hs
      · injection hs with hs; subst hs
        have c1 := cnt_set (· != .done) s.conns i .buffered .done hc
        have c2 := cnt_set hw s.conns i .buffered .done hc
        simp [hw] at c1 c2
        refine ⟨by simp only [live_eq_cnt, setPhase]; split at hg <;> simp_all <;> omega, h.listener, h.doneCh, ?_, ?_⟩
        · show _ + cnt hw (setPhase _ _ _) = _; simp only [setPhase]; omega
        · intro hn; have := h.nil_ok hn; exact ⟨by dsimp only; omega, this.2⟩
      · injection hs with hs; subst hs
        have c1 := cnt_set (· != .done) s.conns i .buffered .reading hc
        have c2 := cnt_set hw s.conns i .buffered .reading hc
        simp [hw] at c1 c2
        refine ⟨by simp only [live_eq_cnt, setPhase]; omega, h.listener, h.doneCh, ?_, h.nil_ok⟩
        show _ + cnt hw (setPhase _ _ _) = _; simp only [setPhase]; omega
    · cases hs
  | connError i =>
    simp only [sdStep] at hs
    split at hs
    · rename_i hc
      injection hs with hs; subst hs
      have c1 := cnt_set (· != .done) s.conns i .reading .done hc
      have c2 := cnt_set hw s.conns i .reading .done hc
      simp [hw] at c1 c2
      refine ⟨by simp only [live_eq_cnt, setPhase]; split at hg <;> simp_all <;> omega, h.listener, h.doneCh, ?_, ?_⟩
      · show _ + cnt hw (setPhase _ _ _) = _; simp only [setPhase]; omega
      · intro hn; have := h.nil_ok hn; exact ⟨by dsimp only; omega, this.2⟩
    · cases hs
  | shutdownBegin =>
    simp only [sdStep] at hs
    injection hs with hs; subst hs
    exact ⟨h.gauge, fun _ => rfl, fun _ => rfl, h.answered_le, fun hn => ⟨(h.nil_ok hn).1, rfl⟩⟩
  | closeIdleTick =>
    simp only [sdStep] at hs
    split at hs
    · injection hs with hs; subst hs
      have c1 := cnt_map_idle (· != .done) (by decide) (by decide) s.conns
      have c2 := cnt_map_idle_other hw (by decide) (by decide) s.conns
      refine ⟨by simp only [live_eq_cnt]; omega, h.listener, h.doneCh, ?_, ?_⟩
      · show _ + cnt hw _ = _; rw [c2]; exact ha
      · intro hn; have := h.nil_ok hn; exact ⟨by dsimp only; omega, this.2⟩
    · cases hs
  | serveReturn =>
    simp only [sdStep] at hs
    split at hs
    · rename_i hc
      injection hs with hs; subst hs
      simp only [Bool.and_eq_true] at hc
      refine ⟨by simp [live_eq_cnt, hc.1] at hg ⊢; omega, h.listener, h.doneCh, h.answered_le, ?_⟩
      intro hn; have := h.nil_ok hn; exact ⟨by dsimp only; omega, this.2⟩
    · cases hs
  | shutdownPoll =>
    simp only [sdStep] at hs
    split at hs
    · rename_i hc
      injection hs with hs; subst hs
      simp only [Bool.and_eq_true, decide_eq_true_eq] at hc
      exact ⟨h.gauge, h.listener, h.doneCh, h.answered_le, fun _ => ⟨hc.2, hc.1⟩⟩
    · split at hs
      · injection hs with hs; subst hs; exact h
      · cases hs


theorem sdRun_inv (es : List SDEvent) : ∀ s s', SDInv s → sdRun s es = some s' → SDInv s' := by
  induction es with
  | nil => intro s s' h hr; simp [sdRun] at hr; subst hr; exact h
  | cons e rest ih =>
    intro s s' h hr
    simp only [sdRun] at hr
    split at hr
    · cases hr
    · rename_i s1 hs
      exact ih s1 s' (sdStep_inv s s1 e h hs) hr

theorem cnt_zero_none (f : ConnPhase → Bool) (l : List ConnPhase) (h : cnt f l = 0) : ∀ p ∈ l, f p = false := by
  intro p hp
  cases hf : f p with
  | false => rfl
  | true =>
    have : p ∈ l.filter f := List.mem_filter.2 ⟨hp, hf⟩
    unfold cnt at h
    have := List.length_pos_of_mem this
    omega

/-- C15: in every execution, once Shutdown has returned nil: every listener is closed, Serve has returned, no connection
    is inside a handler or writing (every connection's loop has ended), every handler that started had its response
    written, and the Done channel is closed. -/
theorem nil_implies_quiescent (es : List SDEvent) (s : SDState) (hr : sdRun {} es = some s) (hnil : s.returnedNil = true) :
    s.listenerOpen = false ∧ s.serveRunning = false ∧ (∀ p ∈ s.conns, p = .done) ∧ s.answered = s.started ∧ s.doneClosed = true := by
  have h := sdRun_inv es {} s sd_init hr
  obtain ⟨hopen, hstop⟩ := h.nil_ok hnil
  have hg := h.gauge
  rw [hopen] at hg
  have hserve : s.serveRunning = false := by
    cases hs : s.serveRunning with
    | false => rfl
    | true => rw [hs] at hg; simp at hg; omega
  have hlive : live s.conns = 0 := by rw [hserve] at hg; simp at hg; omega
  have hall : ∀ p ∈ s.conns, p = .done := by
    intro p hp
    have := cnt_zero_none (· != .done) s.conns hlive p hp
    simpa using this
  have hhw : (s.conns.filter (fun p => p == .inHandler || p == .writing || p == .buffered)).length = 0 := by
    apply List.length_eq_zero_iff.2
    apply List.filter_eq_nil_iff.2
    intro p hp; rw [hall p hp]; decide
  have ha := h.answered_le
  rw [hhw] at ha
  exact ⟨h.listener hstop, hserve, hall, by omega, h.doneCh hstop⟩

/-- Done is closed as soon as shutdown begins, and listeners are closed with it -/
theorem done_closed_at_begin (s : SDState) : ∀ s', sdStep s .shutdownBegin = some s' → s'.doneClosed = true ∧ s'.listenerOpen = false ∧ s'.stop = true := by
  intro s' h; simp only [sdStep] at h; injection h with h; subst h; exact ⟨rfl, rfl, rfl⟩

/-- idle keep-alive connections are closed by the next tick, not waited for -/
theorem idle_closed_not_awaited (s s' : SDState) (h : sdStep s .closeIdleTick = some s') : ∀ p ∈ s'.conns, p ≠ .idle := by
  simp only [sdStep] at h
  split at h
  · injection h with h; subst h
    intro p hp
    simp only [List.mem_map] at hp
    obtain ⟨q, _, rfl⟩ := hp
    unfold closeIdle; split <;> simp_all
  · cases h

/-- a connection whose response still sits in the write buffer (further pipelined requests were already read) is not
    an idle connection: the tick that closes idle connections leaves it alone, so its response is still flushed -/
theorem buffered_not_closed_by_idle_tick (s s' : SDState) (h : sdStep s .closeIdleTick = some s') (i : Nat)
    (hb : s.conns[i]? = some .buffered) : s'.conns[i]? = some .buffered := by
  simp only [sdStep] at h
  split at h
  · injection h with h; subst h
    simp [List.getElem?_map, hb, closeIdle]
  · cases h

/-- regenerated from /repo: the serve loop stamps the connection as idle only under `br == nil || br.Buffered() == 0`,
    i.e. never in the model's `buffered` phase (the repaired defect b7ee3f4 was an unconditional stamp) -/
theorem idle_stamp_only_when_nothing_buffered :
    Gen.idleStampGuards = ["br == nil || br.Buffered() == 0"] := by decide

/-! non-vacuity: a connection with a handler in flight while Shutdown begins; nil only after its response is written -/
example : (sdRun {} [.accept, .firstByte 0, .headerDone 0, .shutdownBegin, .serveReturn, .shutdownPoll, .handlerReturn 0,
    .responseWritten 0, .shutdownPoll]).map (fun s => (s.returnedNil, s.answered, s.open_)) = some (true, 1, 0) := by decide
example : (sdRun {} [.accept, .firstByte 0, .headerDone 0, .shutdownBegin, .serveReturn, .shutdownPoll]).map
    (fun s => s.returnedNil) = some false := by decide
-- pipelined: the first response is buffered when Shutdown begins; idle ticks do not touch it; it is flushed, then nil
example : (sdRun {} [.accept, .firstByte 0, .headerDone 0, .handlerReturn 0, .responseBuffered 0, .shutdownBegin, .closeIdleTick,
    .serveReturn, .shutdownPoll, .bufferedNext 0, .shutdownPoll]).map (fun s => (s.returnedNil, s.answered, s.started, s.open_)) =
    some (true, 1, 1, 0) := by decide

end Fh.Props.C15
