/-
C09 — Head parsing is decided by the head's own bytes.
For every fields parser `parse`, every buffer `H` on which the head is complete and every continuation `S`:
parsing `H ++ S` gives the same result (same first line, same block, same consumed length) as parsing `H`;
in particular a complete head is never answered with "need more input".
-/
import FhVerif.Model.HeadEnd

namespace Fh.Props.C09
open Fh Fh.Model

theorem firstLineGo_append (H S : Bytes) : ∀ (cur : Bytes) (off : Nat) (r : Bytes × Nat),
    firstLineGo H cur off = some r → firstLineGo (H ++ S) cur off = some r := by
  induction H with
  | nil => intro cur off r h; simp [firstLineGo] at h
  | cons c t ih =>
    intro cur off r h
    simp only [List.cons_append, firstLineGo] at h ⊢
    split
    · rename_i hc
      simp only [hc, if_true] at h
      split
      · rename_i he; simp only [he, if_true] at h; exact ih _ _ _ h
      · rename_i he; simp only [he, Bool.false_eq_true, if_false] at h; exact h
    · rename_i hc
      simp only [hc, Bool.false_eq_true, if_false] at h
      exact ih _ _ _ h

theorem firstLineGo_le (H : Bytes) : ∀ (cur : Bytes) (off : Nat) (l : Bytes) (m : Nat),
    firstLineGo H cur off = some (l, m) → off < m ∧ m ≤ off + H.length := by
  induction H with
  | nil => intro cur off l m h; simp [firstLineGo] at h
  | cons c t ih =>
    intro cur off l m h
    simp only [firstLineGo] at h
    split at h
    · split at h
      · have := ih _ _ _ _ h; simp; omega
      · injection h with h; injection h with _ h2; simp; omega
    · have := ih _ _ _ _ h; simp; omega

theorem rawEndGo_append (H S : Bytes) : ∀ (cur : Bytes) (off n : Nat),
    rawEndGo H cur off = some n → rawEndGo (H ++ S) cur off = some n := by
  induction H with
  | nil => intro cur off n h; simp [rawEndGo] at h
  | cons c t ih =>
    intro cur off n h
    simp only [List.cons_append, rawEndGo] at h ⊢
    split
    · rename_i hc
      simp only [hc, if_true] at h
      split
      · rename_i he; simp only [he, if_true] at h; exact h
      · rename_i he; simp only [he, if_false] at h; exact ih _ _ _ h
    · rename_i hc
      simp only [hc, if_false] at h
      exact ih _ _ _ h

theorem rawEndGo_le (H : Bytes) : ∀ (cur : Bytes) (off n : Nat),
    rawEndGo H cur off = some n → off < n ∧ n ≤ off + H.length := by
  induction H with
  | nil => intro cur off n h; simp [rawEndGo] at h
  | cons c t ih =>
    intro cur off n h
    simp only [rawEndGo] at h
    split at h
    · split at h
      · injection h with h; simp; omega
      · have := ih _ _ _ h; simp; omega
    · have := ih _ _ _ h; simp; omega

theorem blockOK_append (R S : Bytes) (n : Nat) (hn : n ≤ R.length) : blockOK (R ++ S) n = blockOK R n := by
  unfold blockOK
  by_cases h2 : n ≥ 2
  · have h1 : (R ++ S).getD (n - 2) 0 = R.getD (n - 2) 0 := by
      simp only [List.getD_eq_getElem?_getD]
      rw [List.getElem?_append_left (by omega)]
    have h3 : (R ++ S).getD (n - 1) 0 = R.getD (n - 1) 0 := by
      simp only [List.getD_eq_getElem?_getD]
      rw [List.getElem?_append_left (by omega)]
    rw [h1, h3]
  · simp [h2]

theorem startsCRLF_append (R S : Bytes) (h : 2 ≤ R.length) : startsCRLF (R ++ S) = startsCRLF R := by
  unfold startsCRLF
  simp only [List.getD_eq_getElem?_getD]
  rw [List.getElem?_append_left (by omega), List.getElem?_append_left (by omega)]

theorem rawEnd_short (R : Bytes) (h : R.length < 2) (n : Nat) (hr : rawEnd R = some n) : blockOK R n = false := by
  have := rawEndGo_le R [] 0 n hr
  unfold blockOK
  have : ¬ n ≥ 2 := by omega
  simp [this]

/-- C09: the result of parsing a complete head does not depend on the bytes that follow it, and is never "need more". -/
theorem head_verdict_suffix_independent {α : Type} (parse : Bytes → Bytes → α) (H S : Bytes) (a : α) (c : Nat)
    (h : parseHead parse H = .parsed a c) : parseHead parse (H ++ S) = .parsed a c := by
  unfold parseHead at h ⊢
  cases hf : firstLineGo H [] 0 with
  | none => simp [hf] at h
  | some r =>
    obtain ⟨line, m⟩ := r
    have hle := firstLineGo_le H [] 0 line m hf
    rw [firstLineGo_append H S [] 0 _ hf]
    simp only [hf] at h
    have hdrop : (H ++ S).drop m = H.drop m ++ S := by
      rw [List.drop_append_of_le_length (by omega)]
    simp only [hdrop]
    generalize H.drop m = R at h ⊢
    by_cases hlen : 2 ≤ R.length
    · rw [startsCRLF_append R S hlen]
      split at h
      · rename_i hs; simp only [hs, if_true]; exact h
      · rename_i hs
        simp only [hs, Bool.false_eq_true, if_false]
        cases hre : rawEnd R with
        | none => simp [hre] at h
        | some n =>
          simp only [hre] at h
          have hnle := rawEndGo_le R [] 0 n hre
          have happ : rawEnd (R ++ S) = some n := rawEndGo_append R S [] 0 n hre
          simp only [happ]
          rw [blockOK_append R S n (by omega)]
          split at h
          · rename_i hok
            simp only [hok, if_true]
            rw [List.take_append_of_le_length (by omega)]; exact h
          · cases h
    · -- fewer than two bytes cannot hold a complete block
      have hs : startsCRLF R = false := by
        unfold startsCRLF
        cases R with
        | nil => simp
        | cons x xs => cases xs with
          | nil => simp
          | cons y ys => simp at hlen
      simp only [hs, Bool.false_eq_true, if_false] at h
      cases hre : rawEnd R with
      | none => simp [hre] at h
      | some n =>
        simp only [hre, rawEnd_short R (by omega) n hre, Bool.false_eq_true, if_false] at h
        cases h

/-- consequence: a complete head is never answered with "need more input", whatever follows -/
theorem no_needMore_on_complete_head {α : Type} (parse : Bytes → Bytes → α) (H S : Bytes) (a : α) (c : Nat)
    (h : parseHead parse H = .parsed a c) : parseHead parse (H ++ S) ≠ .needMore := by
  rw [head_verdict_suffix_independent parse H S a c h]; intro e; cases e

def consumedOf {α : Type} : HeadRes α → Option Nat
  | .needMore => none
  | .parsed _ c => some c

/-- a block whose blank line is a bare LF is never complete, whatever follows it
    (before the repair it was accepted exactly when a CRLFCRLF appeared later in the buffer) -/
example : consumedOf (parseHead (fun l b => (l, b))
    (ofString "GET / HTTP/1.1\r\nHost: a\n\nGET /x HTTP/1.1\r\nHost: b\r\n\r\n")) = none := by decide +kernel
/-! non-vacuity: a complete head (LF line end, CRLF blank line) followed by other bytes -/
example : consumedOf (parseHead (fun l b => (l, b)) (ofString "GET / HTTP/1.1\r\nHost: a\n\r\nBODY")) = some 26 := by decide +kernel

end Fh.Props.C09
