/-
C26 — Request paths are fully normalised.
URI.Path() (model: Model.normalizePath, tied to uri.go by exhaustive small-scope + random correspondence)
equals RFC 3986 §5.2.4 remove_dot_segments applied to the path after adding a leading slash,
percent-decoding it and collapsing runs of slashes.
-/
import FhVerif.Proofs.NormPath

namespace Fh.Props.C26
open Fh Fh.Model Fh.Spec Fh.Proofs.NormPath

/-- the property's right-hand side -/
def rfcPath (src : Bytes) : Bytes :=
  unsegs (removeDotSegments (segs (collapseSlashes (addLeadingSlash src ++ decodeNoPlus src))))

/-- C26: for every request path, the normalised path is the RFC 3986 result. -/
theorem normalize_eq_rfc (src : Bytes) : normalizePath src = rfcPath src := by
  simp only [normalizePath, rfcPath, normalizeSegs_eq_rds]

/-! ### consequences: leading slash, no "." / ".." segment anywhere (including the end) -/

theorem rds_ne_nil (l : List Seg) : ∀ st, (st ≠ [] ∨ l ≠ []) → rds st l ≠ [] := by
  induction l with
  | nil => intro st h; rcases h with h | h <;> simp_all [rds]
  | cons s t ih =>
    intro st _
    cases t with
    | nil =>
      simp only [rds]
      split
      · simp
      · split <;> simp
    | cons y ys =>
      simp only [rds]
      split
      · exact ih st (Or.inr (by simp))
      · split
        · exact ih _ (Or.inr (by simp))
        · exact ih _ (Or.inr (by simp))

/-- the output always starts with '/' -/
theorem starts_with_slash (src : Bytes) : ∃ rest, normalizePath src = 47 :: rest := by
  rw [normalize_eq_rfc]
  have hseg : segs (collapseSlashes (addLeadingSlash src ++ decodeNoPlus src)) ≠ [] := by
    generalize collapseSlashes (addLeadingSlash src ++ decodeNoPlus src) = b
    have hs : ∀ x : Bytes, splitSlash x ≠ [] := by
      intro x; induction x with
      | nil => simp [splitSlash]
      | cons c t ih =>
        simp only [splitSlash]
        split
        · simp
        · split <;> simp
    unfold segs; split <;> exact hs _
  have := rds_ne_nil _ [] (Or.inr hseg)
  unfold rfcPath removeDotSegments
  cases h : rds [] (segs (collapseSlashes (addLeadingSlash src ++ decodeNoPlus src))) with
  | nil => exact absurd h this
  | cons x xs => exact ⟨x ++ unsegs xs, by simp [unsegs]⟩

theorem rds_no_dot (l : List Seg) : ∀ st, (∀ s ∈ st, s ≠ dot ∧ s ≠ dotdot) →
    ∀ s ∈ rds st l, s ≠ dot ∧ s ≠ dotdot := by
  induction l with
  | nil => intro st hst s hs; exact hst s (by simpa [rds] using hs)
  | cons x t ih =>
    intro st hst
    have htail : ∀ s ∈ st.tail, s ≠ dot ∧ s ≠ dotdot := fun s hs => hst s (List.mem_of_mem_tail hs)
    have hempty : ([] : Seg) ≠ dot ∧ ([] : Seg) ≠ dotdot := by simp [dot, dotdot]
    cases t with
    | nil =>
      intro s hs
      simp only [rds] at hs
      split at hs
      · rcases List.mem_append.1 hs with h | h
        · exact hst s (by simpa using h)
        · simp at h; subst h; exact hempty
      · split at hs
        · rcases List.mem_append.1 hs with h | h
          · exact htail s (by simpa using h)
          · simp at h; subst h; exact hempty
        · rename_i h1 h2
          simp only [List.reverse_cons, List.mem_append, List.mem_reverse, List.mem_singleton] at hs
          rcases hs with h | h
          · exact hst s h
          · subst h; exact ⟨by simpa using h1, by simpa using h2⟩
    | cons y ys =>
      simp only [rds]
      split
      · exact ih st hst
      · split
        · exact ih _ htail
        · rename_i h1 h2
          refine ih _ ?_
          intro s hs
          rcases List.mem_cons.1 hs with h | h
          · subst h; exact ⟨by simpa using h1, by simpa using h2⟩
          · exact hst s h

/-- no segment of the normalised path is "." or "..", wherever it stands (also at the end) -/
theorem no_dot_or_dotdot_segment (src : Bytes) :
    ∃ l : List Seg, normalizePath src = unsegs l ∧ ∀ s ∈ l, s ≠ dot ∧ s ≠ dotdot :=
  ⟨_, normalize_eq_rfc src, rds_no_dot _ [] (by simp)⟩

/-! ### non-vacuity (the inputs the original code got wrong are covered) -/
example : normalizePath (ofString "/a/.") = ofString "/a/" := by decide +kernel
example : normalizePath (ofString ".") = ofString "/" := by decide +kernel
example : normalizePath (ofString "/a/b/../%2e%2E/c//d/./e/..") = ofString "/c/d/" := by decide +kernel
example : normalizePath (ofString "a/%2") = ofString "/a/%2" := by decide +kernel

end Fh.Props.C26
