/-
C38 — PipelineClient deadline calls return on time with bounded queues.

All theorems quantify over ARBITRARY event lists `evs` of Model/Pipeline.lean: any interleaving of DoDeadline / Do
callers, timers, the writer and reader goroutines, connection failures, worker teardown and restart, for any
MaxPendingRequests.
Time appears only as the events `timerFired w` / `deadlinePassed w` (DESIGN §4): "returns by its deadline" is stated as
"once the call's own timer has fired, its return is enabled and needs no event of any other actor".
Residue (not provable here): the scheduler runs the caller within the slack after its timer fired; the Go runtime
delivers the timer at the deadline; wall-clock cost of the caller's own straight-line code before its first select
(request copy, acquirePipelineConnChannels under chLock).
-/
import FhVerif.Proofs.Pipeline
import FhVerif.Gen.PipeShape

namespace Fh.Props.C38
open Fh.Model.PL Fh.Proofs.Pipeline

theorem step_max (s s' : State) (e : Event) (hs : step s e = some s') : s'.max = s.max := by
  have ha : ∀ (t : State) w r, (answer t w r).max = t.max := by
    intro t w r; unfold answer; split <;> (try split) <;> rfl
  cases e <;> simp only [step] at hs <;>
    (repeat' (split at hs)) <;>
    first
      | (injection hs with hs; subst hs; first | rfl | (rw [ha]))
      | cases hs

theorem run_max (evs : List Event) (s s' : State) (hr : run s evs = some s') : s'.max = s.max := by
  induction evs generalizing s with
  | nil => simp [run] at hr; subst hr; rfl
  | cons e es ih =>
    simp only [run] at hr
    cases hs : step s e with
    | none => simp [hs] at hr
    | some s1 => simp [hs] at hr; rw [ih s1 hr, step_max s s1 e hs]

/-- A DoDeadline call is always at a point where its own timer is selectable (blocked sending into chW, or waiting
    for the answer) or has returned; and once its timer has fired, its return with ErrTimeout is enabled in the
    current state — no event of the writer, the reader, the server or another caller is needed. -/
theorem deadline_return_enabled_by_own_timer (m : Nat) (evs : List Event) (s : State) (h : run (init m) evs = some s)
    (w : Nat) (x : Work) (hget : s.works[w]? = some x) (hd : x.deadline = true) :
    (x.pc = .sending ∨ x.pc = .waiting ∨ ∃ r, x.pc = .returned r) ∧
    (x.timerFired = true → x.pc = .sending ∨ x.pc = .waiting → (step s (.returnTimeout w)).isSome) := by
  have hi := run_inv evs _ s (inv_init m) h
  have hp := (hi.hWork w x hget).ddl hd
  constructor
  · cases hpc : x.pc with
    | sending => simp
    | waiting => simp
    | returned r => simp
    | doPop => exact absurd hpc hp.1
    | doRetry => exact absurd hpc hp.2
  · intro hf hpc
    rcases hpc with hpc | hpc <;> simp [step, hget, hd, hf, hpc]

/-- A call that fails with ErrPipelineOverflow never has its request transmitted: an item answered with
    ErrPipelineOverflow (the oldest item replaced by `Do`, or `Do`'s own item that found no room) was never handed
    to the connection writer — neither before (it was still in chW, or never enqueued) nor afterwards (it is in no
    queue any more). -/
theorem overflow_never_transmitted (m : Nat) (evs : List Event) (s : State) (h : run (init m) evs = some s)
    (w : Nat) (x : Work) (hget : s.works[w]? = some x) (hov : x.done = some .overflow ∨ x.pc = .returned .overflow) :
    x.written = false ∧ cnt s w = 0 := by
  have hi := run_inv evs _ s (inv_init m) h
  have hp := hi.hWork w x hget
  have hd : x.done = some .overflow := by
    rcases hov with h1 | h1
    · exact h1
    · rcases hp.ret _ h1 with h2 | h2
      · cases h2
      · exact h2
  exact ⟨hp.ovf hd, hp.ans (by rw [hd]; simp)⟩

/-- the queues are bounded: PendingRequests() = len(chR) + len(chW) ≤ 2·MaxPendingRequests -/
theorem pending_le_2max (m : Nat) (evs : List Event) (s : State) (h : run (init m) evs = some s) :
    s.chW.length ≤ m ∧ s.chR.length ≤ m ∧ pending s ≤ 2 * m := by
  have hi := run_inv evs _ s (inv_init m) h
  have hm : s.max = m := run_max evs _ s h
  have h1 := hi.hCapW
  have h2 := hi.hCapR
  rw [hm] at h1 h2
  refine ⟨h1, h2, ?_⟩
  unfold pending; omega

/-- FIFO matching on a connection: the items whose responses were read are, in order, exactly the first items written
    on that connection — the k-th response goes to the k-th request written, also when earlier calls have timed out
    (their items still consume their responses) or were answered without transmission. -/
theorem fifo_matching (m : Nat) (evs : List Event) (s : State) (h : run (init m) evs = some s) :
    (∃ rest, s.wire = s.answered ++ rest) ∧ ∀ (k w : Nat), s.answered[k]? = some w → s.wire[k]? = some w := by
  have hf := frun_inv evs _ s (finv_init m) h
  refine ⟨hf.pre, fun k w hk => ?_⟩
  rcases hf.pre with ⟨rest, hrest⟩
  rw [hrest, List.getElem?_append_left (getElem?_lt hk)]
  exact hk

/-- every work item is answered at most once (a second `w.done <-` would block its sender forever), is in at most
    one place of the pipeline, and an answered item is in none -/
theorem answered_once (m : Nat) (evs : List Event) (s : State) (h : run (init m) evs = some s) :
    s.dbl = false ∧ (∀ w, cnt s w ≤ 1) ∧ ∀ w x, s.works[w]? = some x → x.done ≠ none → cnt s w = 0 := by
  have hi := run_inv evs _ s (inv_init m) h
  exact ⟨hi.hDbl, hi.hLoc, fun w x hget hd => (hi.hWork w x hget).ans hd⟩

/-! ### the writer and the reader of client.go have the shape the model assumes

`pipeline_fifo` rests on `FInv.eq`: every request written on a connection is, in order, in `answered`, with the reader,
in chR, or with the writer on its way into chR.  In the model the writer has no step between "written" (`writerWrite`)
and "in chR" (`writerPush`) that drops the item while the connection lives on, and a failed read ends the reader.
`fhextract` recomputes the control skeletons of the two goroutine bodies on every run (Gen/PipeShape.lean); these
theorems pin the stretches that matter: a `continue` (or any other way back to the loop head) between `w.req.Write`
and `chR <- w`, or a reader that goes on after a failed read, stops the proof. -/

/-- written ⇒ queued, or the writer returns (and the worker drops the connection): between `w.req.Write(bw)` and the
    first `chR <- w` the writer can only fail (`w.done <- …; return err`) -/
theorem writer_written_implies_queued :
    Gen.pipeShape_writer_writeToPush =
      ["for true | if err = w.req.Write(bw); err != nil => send w.done",
       "for true | if err = w.req.Write(bw); err != nil => return",
       "for true => label againChR"] ∧
    Gen.pipeShape_writer_actionsAfterWrite =
      ["send w.done", "return", "label againChR", "select-send chR", "select-send chR", "send w.done", "return",
       "bw.Flush", "send w.done", "return", "goto againChR"] := by decide

/-- a failed `w.resp.Read` (connection error or ReadTimeout) answers the item and ends the reader -/
theorem reader_stops_after_failed_read :
    Gen.pipeShape_reader_afterRead =
      ["for true | if err != nil => send w.done", "for true | if err != nil => return", "for true => send w.done"] := by decide

/-- chR is drained only after BOTH goroutines have stopped (the model's `drainOne` needs writer and reader `exited`):
    in `worker` the loop that fails the items still waiting in chR comes after the join of the reader AND the writer on
    either path; the reader itself — deferred code included — takes items out of chR only to read their responses.
    (A drain on the reader's exit would miss what the still-running writer queues afterwards: the item would survive
    the reconnect and be matched with the first response of the next connection.) -/
theorem chR_drained_after_both_stopped :
    Gen.pipeJoins_worker =
      ["recv doneW", "case err = <-doneW => conn.Close", "case err = <-doneW => close stopR", "case err = <-doneW => recv doneR",
       "recv doneR", "case err = <-doneR => conn.Close", "case err = <-doneR => close stopW", "case err = <-doneR => recv doneW",
       "for len(chs.chR) > 0 => recv chs.chR", "for len(chs.chR) > 0 => send w.done"] ∧
    Gen.pipeJoins_reader = ["for true => recv chR", "for true | default => recv chR"] := by decide

/-! ### non-vacuity -/

/-- MaxPendingRequests = 1, stalled server: item 0 written and waiting for its response, item 1 written and held by
    the writer (chR full), item 2 in chW; `Do` number 3 replaces item 2, which is answered with overflow, unwritten -/
def overflowRun : List Event := [.callDo, .writerTake, .writerBegin, .writerWrite, .writerPush, .readerTake, .callDo, .writerTake, .writerBegin, .writerWrite,
    .writerPush, .callDo, .writerTake, .writerBegin, .writerWrite, .callDo, .callDo, .doPop 4, .doRetry 4]
example : (run (init 1) overflowRun).map (fun s => (s.chW, s.chR, s.writer, s.reader, s.wire)) =
    some ([4], [1], .push 2, .reading 0, [0, 1, 2]) := by decide
example : (run (init 1) overflowRun).map (fun s => (s.works.map (·.done), s.works.map (·.written))) =
    some ([none, none, none, some .overflow, none], [true, true, true, false, false]) := by decide

/-- a DoDeadline call whose timer fires while it waits returns ErrTimeout at once; its item still consumes its response -/
example : (run (init 2) [.callDeadline, .writerTake, .writerBegin, .writerWrite, .writerPush, .readerTake, .timerFired 0, .returnTimeout 0,
    .callDo, .writerTake, .writerBegin, .writerWrite, .writerPush, .readerOk, .readerTake, .readerOk, .returnDone 1]).map
    (fun s => (s.works.map (·.pc), s.wire, s.answered)) =
    some ([.returned .timeout, .returned .ok], [0, 1], [0, 1]) := by decide

/-- deadline-expired work is answered with ErrTimeout without transmission -/
example : (run (init 2) [.callDeadline, .deadlinePassed 0, .writerTake, .writerExpire]).map
    (fun s => (s.wire, s.works.map (·.done), s.works.map (·.written))) = some ([], [some .timeout], [false]) := by decide

/-- reader failure, teardown, drain and restart -/
example : (run (init 2) [.callDo, .callDo, .writerTake, .writerBegin, .writerWrite, .writerPush, .writerTake, .writerBegin, .writerWrite, .writerPush,
    .readerTake, .readerFail, .writerStop, .drainOne, .restart]).map
    (fun s => (s.works.map (·.done), s.wire, s.writer, s.reader)) =
    some ([some .connErr, some .stopped], [], .idle, .idle) := by decide

end Fh.Props.C38
