/-
C14 — ConnState hook follows the documented state machine.
-/
import FhVerif.Model.ConnStates

namespace Fh.Props.C14
open Fh Fh.Model

theorem emit_from_idle_or_new (l : List Iter) : (emit l).foldl dfaStep 1 = 4 ∧ (emit l).foldl dfaStep 3 = 4 := by
  induction l with
  | nil => simp [emit, dfaStep]
  | cons i rest ih => cases i <;> simp [emit, dfaStep, ih.2]

/-- C14: for every run of the serve loop the hook sequence is a word of
    New · (Active · (Idle · Active)* · Idle?)? · (Closed | Hijacked) -/
theorem connstate_language (l : List Iter) : accepts (states l) = true := by
  simp [accepts, states, dfaStep, (emit_from_idle_or_new l).1]

/-- exactly one terminal state, and it is the last call -/
theorem terminal_unique_and_last (l : List Iter) :
    ∃ pre t, states l = pre ++ [t] ∧ (t = .closed ∨ t = .hijacked) ∧ ∀ s ∈ pre, s ≠ .closed ∧ s ≠ .hijacked := by
  have h : ∀ l : List Iter, ∃ pre t, emit l = pre ++ [t] ∧ (t = .closed ∨ t = .hijacked) ∧
      ∀ s ∈ pre, s ≠ .closed ∧ s ≠ .hijacked := by
    intro l
    induction l with
    | nil => exact ⟨[], .closed, rfl, Or.inl rfl, by simp⟩
    | cons i rest ih =>
      cases i with
      | noByte => exact ⟨[], .closed, rfl, Or.inl rfl, by simp⟩
      | served =>
        obtain ⟨pre, t, h1, h2, h3⟩ := ih
        refine ⟨.active :: .idle :: pre, t, by simp [emit, h1], h2, ?_⟩
        intro s hs
        simp at hs
        rcases hs with rfl | rfl | hs
        · simp
        · simp
        · exact h3 s hs
      | servedClose => exact ⟨[.active], .closed, rfl, Or.inl rfl, by simp⟩
      | parseError => exact ⟨[.active], .closed, rfl, Or.inl rfl, by simp⟩
      | hijack => exact ⟨[.active], .hijacked, rfl, Or.inr rfl, by simp⟩
  obtain ⟨pre, t, h1, h2, h3⟩ := h l
  refine ⟨.new :: pre, t, by simp [states, h1], h2, ?_⟩
  intro s hs
  simp at hs
  rcases hs with rfl | hs
  · simp
  · exact h3 s hs

/-- number of iterations in which at least one byte of a request arrived -/
def byteIters : List Iter → Nat
  | [] => 0
  | .noByte :: rest => byteIters rest
  | _ :: rest => byteIters rest + 1

def countActive : List CS → Nat
  | [] => 0
  | .active :: rest => countActive rest + 1
  | _ :: rest => countActive rest

/-- StateActive is reported at most once per iteration in which a byte arrived, never for an iteration without one -/
theorem active_needs_byte (l : List Iter) : countActive (emit l) ≤ byteIters l := by
  induction l with
  | nil => simp [emit, countActive, byteIters]
  | cons i rest ih => cases i <;> simp [emit, countActive, byteIters] <;> omega

/-- a connection on which nothing ever arrives is reported New then Closed, never Active -/
theorem silent_connection_never_active (rest : List Iter) : states (.noByte :: rest) = [.new, .closed] := rfl

/-! non-vacuity -/
example : states [.served, .served, .noByte] = [.new, .active, .idle, .active, .idle, .closed] := by decide
example : states [.noByte] = [.new, .closed] := by decide

end Fh.Props.C14
