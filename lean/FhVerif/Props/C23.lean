/-
C23 — FS never serves a file outside its root.

For every request path and host, every configuration (osFS with a non-empty root, or an fs.FS with any root;
no rewriter or one of the three built-in rewriters with any strip count; compression on or off), every name the
handler hands to Open / Stat / Remove / MkdirAll / CreateTemp / ReadDir (Model.fsNames — a superset over all
file-system states) is  root ⊕ p  (or compressRoot ⊕ p)  where p is a '/'-separated list of segments none of
which is ".." and which contains no NUL byte.  Paths with a NUL byte are rejected, and so are paths with a
".." segment after rewriting; without a rewriter the absence of ".." is DERIVED from C26
(`hasDotDot_normalizePath`, via `Props.C26.normalize_eq_rfc` / `rds_no_dot`), not tested by the code.

Model = fs.go after the commit "fix: FS does not probe <root><compressed suffix> …" (before it, a request for "/"
with compression opened, served and removed the sibling  <root>.fasthttp.gz  — outside the root).
Configuration hypotheses (not request input): compressed suffix is slash- and NUL-free and ≥ 3 bytes,
index names contain no ".." segment and no NUL.  Residue: symlinks, Windows branches, filepath.Clean inside
filepath.Dir (lexical: it cannot climb without a ".." segment).
-/
import FhVerif.Proofs.FsPath
import FhVerif.Gen.Facts

namespace Fh.Props.C23
open Fh Fh.Model Fh.Proofs.FsPath

/-! ### the handler never panics, and what it serves is clean -/

theorem rewrite_ok (rw : Rewriter) (host orig : Bytes) : ∃ p, rewritePath rw host orig = some p := by
  obtain ⟨t, ht⟩ := normalizePath_leading orig
  unfold rewritePath
  cases rw with
  | none => exact ⟨_, rfl⟩
  | pfx n => exact ⟨_, rfl⟩
  | slashes n =>
    obtain ⟨q, _, h, _, _⟩ := strip_ok n (normalizePath orig) (Or.inr ⟨t, ht⟩)
    exact ⟨q, h⟩
  | vhost n =>
    obtain ⟨q, _, h, _, _⟩ := strip_ok n (normalizePath orig) (Or.inr ⟨t, ht⟩)
    simp only [h]
    exact ⟨_, rfl⟩

/-- stripLeadingSlashes' "BUG: path must start with slash" panic is unreachable from a request -/
theorem strip_no_panic (cfg : FsCfg) (host orig : Bytes) : handlePath cfg host orig ≠ .panic := by
  obtain ⟨p, hp⟩ := rewrite_ok cfg.rw host orig
  unfold handlePath
  rw [hp]
  simp only
  split
  · simp
  · split <;> simp

/-- without a rewriter the served path is ctx.Path(), which has no ".." segment by C26 -/
theorem no_rewriter_never_dotdot (host orig p : Bytes) (h : rewritePath .none host orig = some p) :
    hasDotDot p = false := by
  simp only [rewritePath] at h
  injection h with h
  rw [← h]
  exact hasDotDot_normalizePath orig

/-- whatever reaches pathToFilePath has no ".." segment and no NUL byte -/
theorem served_path_clean (cfg : FsCfg) (host orig path fp : Bytes)
    (h : handlePath cfg host orig = .serve path fp) :
    hasDotDot path = false ∧ 0 ∉ path ∧ fp = pathToFilePath cfg.osfs cfg.root path := by
  unfold handlePath at h
  cases hr : rewritePath cfg.rw host orig with
  | none => simp [hr] at h
  | some p =>
    simp only [hr] at h
    split at h
    · cases h
    · rename_i hn
      split at h
      · cases h
      · rename_i hd
        injection h with h1 h2
        subst h1
        refine ⟨?_, by simpa using hn, h2.symm⟩
        by_cases hrw : cfg.rw = .none
        · rw [hrw] at hr
          exact no_rewriter_never_dotdot host orig p hr
        · have : (cfg.rw != .none) = true := by simpa using hrw
          simpa [this] using hd

/-- C23: a rewritten path with a NUL byte is rejected (400) and nothing is opened -/
theorem nul_rejected (cfg : FsCfg) (mc : Bool) (host orig path : Bytes)
    (h : rewritePath cfg.rw host orig = some path) (hn : 0 ∈ path) :
    handlePath cfg host orig = .badRequest ∧ fsNames cfg mc host orig = [] := by
  have h1 : handlePath cfg host orig = .badRequest := by
    unfold handlePath
    rw [h]
    have : path.contains 0 = true := by simpa using hn
    simp only [this, if_true]
  exact ⟨h1, by simp [fsNames, h1]⟩

/-- C23: with a rewriter, a rewritten path with a ".." segment is rejected (500) and nothing is opened -/
theorem dotdot_after_rewrite_rejected (cfg : FsCfg) (mc : Bool) (host orig path : Bytes)
    (hrw : cfg.rw ≠ .none) (h : rewritePath cfg.rw host orig = some path) (hn : 0 ∉ path)
    (hd : hasDotDot path = true) :
    handlePath cfg host orig = .dotdot ∧ fsNames cfg mc host orig = [] := by
  have h1 : handlePath cfg host orig = .dotdot := by
    unfold handlePath
    rw [h]
    have h0 : path.contains 0 = false := by simpa using hn
    have h2 : (cfg.rw != .none) = true := by simpa using hrw
    simp only [h0, h2, hd, Bool.false_eq_true, if_false, Bool.and_self, if_true]
  exact ⟨h1, by simp [fsNames, h1]⟩

/-! ### confinement -/

/-- well-formed configuration (set by the programmer, not by the request) -/
structure GoodCfg (cfg : FsCfg) : Prop where
  root : cfg.osfs = true → cfg.root ≠ []
  suffix : GoodSuffix cfg.suffix
  index : ∀ ix ∈ cfg.indexNames, GoodName ix

/-- osFS: the name is root or compressRoot followed by a clean relative part ("" or "/seg/seg…") -/
def ConfinedOS (cfg : FsCfg) (name : Bytes) : Prop :=
  ∃ rel, RelOK rel ∧ (name = cfg.root ++ rel ∨ name = cfg.croot ++ rel)

/-- fs.FS: the name is the root, or root/"p", or — for the roots "" and "." — p itself or "." -/
def ConfinedFS (root name : Bytes) : Prop :=
  ∃ rel, hasDotDot rel = false ∧ 0 ∉ rel ∧
    (name = root ∨ name = root ++ 47 :: rel ∨ ((root = [] ∨ root = dotRoot) ∧ (name = rel ∨ name = dotRoot)))

def Confined (cfg : FsCfg) (name : Bytes) : Prop :=
  if cfg.osfs then ConfinedOS cfg name else ConfinedFS cfg.root name

theorem toCompressed_eq (cfg : FsCfg) (rel : Bytes) :
    filePathToCompressed cfg (cfg.root ++ rel) = cfg.root ++ rel ∨
    filePathToCompressed cfg (cfg.root ++ rel) = cfg.croot ++ rel := by
  unfold filePathToCompressed
  split
  · exact Or.inl rfl
  · have : cfg.root.isPrefixOf (cfg.root ++ rel) = true := by
      rw [List.isPrefixOf_iff_prefix]; exact List.prefix_append _ _
    simp only [this, Bool.not_true, Bool.false_eq_true, if_false]
    right
    simp

theorem compressNames_os (cfg : FsCfg) (hg : GoodCfg cfg) (rel : Bytes) (hrel : RelOK rel) (hne : rel ≠ []) :
    ∀ on ∈ compressNames cfg (cfg.root ++ rel), ConfinedOS cfg on.2 := by
  intro on hon
  have hsfx := hg.suffix
  have hc := toCompressed_eq cfg rel
  -- names of the form C ++ x with C = R ++ rel
  have hC : ∀ x, GoodSuffix x → ConfinedOS cfg (filePathToCompressed cfg (cfg.root ++ rel) ++ x) := by
    intro x hx
    rcases hc with h | h <;> rw [h, List.append_assoc]
    · exact ⟨rel ++ x, relOK_suffix rel x hrel hne hx, Or.inl rfl⟩
    · exact ⟨rel ++ x, relOK_suffix rel x hrel hne hx, Or.inr rfl⟩
  have hD : ConfinedOS cfg (dirOf (filePathToCompressed cfg (cfg.root ++ rel))) := by
    obtain ⟨hd, hm⟩ := relOK_dirOf rel hrel hne
    rcases hc with h | h <;> rw [h, dirOf_append _ _ hm]
    · exact ⟨_, hd, Or.inl rfl⟩
    · exact ⟨_, hd, Or.inr rfl⟩
  unfold compressNames at hon
  rcases List.mem_cons.1 hon with h | h
  · subst h; exact ⟨rel, hrel, Or.inl rfl⟩
  · split at h
    · rcases List.mem_append.1 h with h | h
      · unfold mkdirNames at h
        split at h
        · simp only [List.mem_cons, List.not_mem_nil, or_false] at h; subst h; exact hD
        · simp at h
      · unfold tmpNames at h
        simp only [List.mem_cons, List.not_mem_nil, or_false] at h
        rcases h with h | h | h | h <;> subst h
        · exact hC _ hsfx
        · show ConfinedOS cfg (_ ++ cfg.suffix ++ tmpMark)
          rw [List.append_assoc]; exact hC _ (goodSuffix_tmp _ hsfx)
        · show ConfinedOS cfg (_ ++ cfg.suffix ++ tmpMark)
          rw [List.append_assoc]; exact hC _ (goodSuffix_tmp _ hsfx)
        · exact hC _ hsfx
    · simp at h

theorem openNames_os (cfg : FsCfg) (hg : GoodCfg cfg) (mc : Bool) (rel : Bytes) (hrel : RelOK rel) :
    ∀ on ∈ openNames cfg mc (cfg.root ++ rel), ConfinedOS cfg on.2 := by
  intro on hon
  have hfp : ConfinedOS cfg (cfg.root ++ rel) := ⟨rel, hrel, Or.inl rfl⟩
  unfold openNames at hon
  rcases List.mem_append.1 hon with h | h
  · split at h
    · rename_i hcond
      have hne : rel ≠ [] := by
        intro he; subst he
        simp at hcond
      have hs : ConfinedOS cfg (cfg.root ++ rel ++ cfg.suffix) := by
        rw [List.append_assoc]
        exact ⟨_, relOK_suffix rel _ hrel hne hg.suffix, Or.inl rfl⟩
      unfold probeNames at h
      simp only [List.mem_cons] at h
      rcases h with h | h | h | h
      · subst h; exact hs
      · subst h; exact hfp
      · subst h; exact hs
      · exact compressNames_os cfg hg rel hrel hne on h
    · simp at h
  · simp only [List.mem_cons, List.not_mem_nil, or_false] at h
    subst h; exact hfp

theorem fsNames_os (cfg : FsCfg) (hos : cfg.osfs = true) (hg : GoodCfg cfg) (mc : Bool) (host orig : Bytes) :
    ∀ on ∈ fsNames cfg mc host orig, ConfinedOS cfg on.2 := by
  intro on hon
  unfold fsNames at hon
  split at hon
  · rename_i path fp hserve
    obtain ⟨hdd, hnul, hfp⟩ := served_path_clean cfg host orig path fp hserve
    rw [hos] at hfp
    obtain ⟨rel, hrel1, hrel⟩ := p2f_os cfg.root path (hg.root hos) hdd hnul
    rw [hrel1] at hfp
    subst hfp
    rcases List.mem_append.1 hon with h | h
    · exact openNames_os cfg hg mc rel hrel on h
    · unfold indexNamesOf at h
      have hdp : (cfg.root ++ rel != []) = true := by
        have := hg.root hos
        cases hroot : cfg.root with
        | nil => exact absurd hroot this
        | cons c t => simp
      rcases List.mem_append.1 h with h | h
      · obtain ⟨ix, hix, h⟩ := List.mem_flatMap.1 h
        rw [if_pos hdp, List.append_assoc] at h
        exact openNames_os cfg hg mc _ (relOK_index rel ix hrel (hg.index ix hix)) on h
      · unfold readDirNames at h
        split at h
        · simp only [List.mem_cons, List.not_mem_nil, or_false] at h
          subst h
          have : (cfg.root ++ rel == []) = false := by simpa using hdp
          simp only [this, Bool.false_eq_true, if_false]
          exact ⟨rel, hrel, Or.inl rfl⟩
        · simp at h
  · simp at hon

theorem confinedFS_of_shape (root fp : Bytes) (h : FsShape root fp) : ConfinedFS root fp := by
  cases h with
  | root => exact ⟨[], hasDotDot_nil, by simp, Or.inl rfl⟩
  | bare _ hr h1 h2 => exact ⟨fp, h1, h2, Or.inr (Or.inr ⟨hr, Or.inl rfl⟩)⟩
  | below q h1 h2 => exact ⟨q, h1, h2, Or.inr (Or.inl rfl)⟩

theorem shape_suffix (root fp x : Bytes) (h : FsShape root fp) (hne : fp ≠ root) (hx : GoodSuffix x) :
    FsShape root (fp ++ x) := by
  cases h with
  | root => exact absurd rfl hne
  | bare _ hr h1 h2 =>
    refine .bare _ hr (hasDotDot_append_suffix _ x hx.noslash hx.len h1) ?_
    intro hm
    rcases List.mem_append.1 hm with h | h
    · exact h2 h
    · exact hx.nonul h
  | below q h1 h2 =>
    rw [List.append_assoc, List.cons_append]
    refine .below _ (hasDotDot_append_suffix q x hx.noslash hx.len h1) ?_
    intro hm
    rcases List.mem_append.1 hm with h | h
    · exact h2 h
    · exact hx.nonul h

theorem shape_index (root fp ix : Bytes) (h : FsShape root fp) (hi : GoodName ix) :
    FsShape root (if fp != [] then fp ++ 47 :: ix else ix) := by
  have hmem : ∀ q : Bytes, 0 ∉ q → 0 ∉ q ++ 47 :: ix := by
    intro q hq hm
    rcases List.mem_append.1 hm with h | h
    · exact hq h
    · rcases List.mem_cons.1 h with h | h
      · simp at h
      · exact hi.nonul h
  by_cases hfp : fp = []
  · have hb : (fp != []) = false := by simp [hfp]
    simp only [hb, Bool.false_eq_true, if_false]
    have hr : root = [] ∨ root = dotRoot := by
      cases h with
      | root => exact Or.inl hfp
      | bare _ hr _ _ => exact hr
      | below q _ _ => simp at hfp
    exact .bare ix hr hi.nodd hi.nonul
  · have : (fp != []) = true := by simpa using hfp
    simp only [this, if_true]
    cases h with
    | root => exact .below ix hi.nodd hi.nonul
    | bare _ hr h1 h2 =>
      exact .bare _ hr (by rw [hasDotDot_append_slash, h1, hi.nodd]; rfl) (hmem _ h2)
    | below q h1 h2 =>
      rw [List.append_assoc, List.cons_append]
      exact .below _ (by rw [hasDotDot_append_slash, h1, hi.nodd]; rfl) (hmem q h2)

theorem openNames_fs (cfg : FsCfg) (hfs : cfg.osfs = false) (hg : GoodCfg cfg) (mc : Bool) (fp : Bytes)
    (h : FsShape cfg.root fp) : ∀ on ∈ openNames cfg mc fp, ConfinedFS cfg.root on.2 := by
  intro on hon
  have hfp := confinedFS_of_shape _ _ h
  unfold openNames at hon
  rcases List.mem_append.1 hon with h1 | h1
  · split at h1
    · rename_i hcond
      have hne : fp ≠ cfg.root := by
        intro he
        simp [he] at hcond
      have hs := confinedFS_of_shape _ _ (shape_suffix _ _ _ h hne hg.suffix)
      unfold probeNames compressNames at h1
      simp only [hfs, Bool.false_eq_true, if_false, List.mem_cons, List.not_mem_nil, or_false] at h1
      rcases h1 with h1 | h1 | h1 | h1 <;> subst h1
      · exact hs
      · exact hfp
      · exact hs
      · exact hfp
    · simp at h1
  · simp only [List.mem_cons, List.not_mem_nil, or_false] at h1
    subst h1; exact hfp

theorem fsNames_fs (cfg : FsCfg) (hfs : cfg.osfs = false) (hg : GoodCfg cfg) (mc : Bool) (host orig : Bytes) :
    ∀ on ∈ fsNames cfg mc host orig, ConfinedFS cfg.root on.2 := by
  intro on hon
  unfold fsNames at hon
  split at hon
  · rename_i path fp hserve
    obtain ⟨hdd, hnul, hfp⟩ := served_path_clean cfg host orig path fp hserve
    rw [hfs] at hfp
    have hshape := p2f_fs cfg.root path hdd hnul
    rw [← hfp] at hshape
    rcases List.mem_append.1 hon with h | h
    · exact openNames_fs cfg hfs hg mc fp hshape on h
    · unfold indexNamesOf at h
      rcases List.mem_append.1 h with h | h
      · obtain ⟨ix, hix, h⟩ := List.mem_flatMap.1 h
        exact openNames_fs cfg hfs hg mc _ (shape_index _ _ ix hshape (hg.index ix hix)) on h
      · unfold readDirNames at h
        split at h
        · simp only [List.mem_cons, List.not_mem_nil, or_false] at h
          subst h
          by_cases he : fp = []
          · have hb : (fp == []) = true := by simp [he]
            simp only [hb, if_true]
            refine ⟨[], hasDotDot_nil, by simp, Or.inr (Or.inr ⟨?_, Or.inr rfl⟩)⟩
            cases hshape with
            | root => exact Or.inl he
            | bare _ hr _ _ => exact hr
            | below q _ _ => simp at he
          · have : (fp == []) = false := by simpa using he
            simp only [this, Bool.false_eq_true, if_false]
            exact confinedFS_of_shape _ _ hshape
        · simp at h
  · simp at hon

/-- C23: every name handed to Open / Stat / Remove / MkdirAll / CreateTemp / ReadDir is root ⊕ p (or compressRoot ⊕ p)
    with no ".." segment and no NUL byte in p — for every request path, host, rewriter, strip count. -/
theorem opened_path_confined (cfg : FsCfg) (hg : GoodCfg cfg) (mc : Bool) (host orig : Bytes) :
    ∀ on ∈ fsNames cfg mc host orig, Confined cfg on.2 := by
  intro on hon
  unfold Confined
  cases hos : cfg.osfs with
  | true => simpa using fsNames_os cfg hos hg mc host orig on hon
  | false => simpa using fsNames_fs cfg hos hg mc host orig on hon

/-! ### from the request line to the FS path: every branch of URI.parse normalises -/

/-- regenerated from uri.go on every run: every assignment to `u.path` in URI.parse (no '?'/'#', query, fragment only),
    SetPathBytes and SetPath stores the result of normalizePath — so ctx.Path() = normalizePath(pathOriginal) whatever
    the request target looks like, which is what `handlePath` assumes. -/
theorem uri_parse_always_normalises :
    (∀ f ∈ Gen.assigns_URI_parse_path, f = "normalizePath") ∧ Gen.assigns_URI_parse_path ≠ [] ∧
    Gen.assigns_URI_SetPathBytes_path = ["normalizePath"] ∧ Gen.assigns_URI_SetPath_path = ["normalizePath"] := by
  decide

/-- confinement stated from the raw request target (query and fragment cut off as URI.parse does) -/
theorem opened_path_confined_target (cfg : FsCfg) (hg : GoodCfg cfg) (mc : Bool) (host target : Bytes) :
    ∀ on ∈ fsNames cfg mc host (requestPath target), Confined cfg on.2 :=
  opened_path_confined cfg hg mc host (requestPath target)

/-! ### non-vacuity -/



def gz : Bytes := ofString ".fasthttp.gz"
def cfgOS (rw : Rewriter) : FsCfg :=
  { osfs := true, root := ofString "/srv/www", croot := ofString "/srv/z", rw := rw, suffix := gz,
    indexNames := [ofString "index.html"], genIndex := true }
def cfgFS (root : String) (rw : Rewriter) : FsCfg :=
  { osfs := false, root := ofString root, croot := ofString root, rw := rw, suffix := gz,
    indexNames := [ofString "index.html"], genIndex := true }

-- encoded traversal is normalised away; the file path stays below the root
example : handlePath (cfgOS .none) (ofString "h") (ofString "/a/%2e%2e/%2E./..%2fb//c/") =
    .serve (ofString "/b/c/") (ofString "/srv/www/b/c") := by decide +kernel
-- the prefix stripper can manufacture a ".." segment; the guard rejects it
example : handlePath (cfgOS (.pfx 2)) (ofString "h") (ofString "/x../secret") = .dotdot := by decide +kernel
example : rewritePath (.pfx 2) (ofString "h") (ofString "/x../secret") = some (ofString "../secret") := by
  decide +kernel
-- NUL
example : handlePath (cfgOS .none) (ofString "h") (ofString "/a%00b") = .badRequest := by decide +kernel
-- vhost rewriter: host with '/' becomes invalid-host; a ".." host is normalised away
example : handlePath (cfgFS "" (.vhost 1)) (ofString "a/b") (ofString "/img/x.png") =
    .serve (ofString "/invalid-host/x.png") (ofString "invalid-host/x.png") := by decide +kernel
example : handlePath (cfgFS "sub" (.vhost 0)) (ofString "..") (ofString "/x") =
    .serve (ofString "/x") (ofString "sub/x") := by decide +kernel
-- the root directory itself is opened without the compressed suffix; a file gets all the compression names
example : (fsNames (cfgOS .none) true (ofString "h") (ofString "/")).map (·.2) =
    [ofString "/srv/www", ofString "/srv/www/index.html.fasthttp.gz", ofString "/srv/www/index.html",
     ofString "/srv/www/index.html.fasthttp.gz", ofString "/srv/www/index.html", ofString "/srv/z",
     ofString "/srv/z/index.html.fasthttp.gz", ofString "/srv/z/index.html.fasthttp.gz.tmp-",
     ofString "/srv/z/index.html.fasthttp.gz.tmp-", ofString "/srv/z/index.html.fasthttp.gz",
     ofString "/srv/www/index.html", ofString "/srv/www"] := by decide +kernel
example : GoodCfg (cfgOS .none) :=
  ⟨fun _ => by decide +kernel, ⟨by decide +kernel, by decide +kernel, by decide +kernel⟩, fun ix hix => by
    have : ix = ofString "index.html" := by simpa [cfgOS] using hix
    subst this
    exact ⟨by decide +kernel, by decide +kernel⟩⟩

-- a fragment (or query) does not protect dot segments from normalisation
example : handleTarget (cfgOS .none) (ofString "h") (ofString "/../secret.txt#frag") =
    .serve (ofString "/secret.txt") (ofString "/srv/www/secret.txt") := by decide +kernel
example : requestPath (ofString "/a/../b#x?y/../..") = ofString "/a/../b" := by decide +kernel
example : requestPath (ofString "/a%23/..?q#f") = ofString "/a%23/.." := by decide +kernel

end Fh.Props.C23
