/-
C07 — Configured size limits bound what is buffered.
-/
import FhVerif.Model.Limits

namespace Fh.Props.C07
open Fh Fh.Model

def buffered : LimRes → Nat
  | .ok n => n
  | .tooLarge n => n

/-- Content-Length bodies: refused (nothing buffered) exactly when larger than L, else exactly cl ≤ L bytes -/
theorem fixed_le_limit (L cl : Nat) (hL : 0 < L) :
    buffered (limFixed L cl) ≤ L ∧ ((∃ n, limFixed L cl = .tooLarge n) ↔ cl > L) := by
  unfold limFixed
  by_cases h : cl > L
  · simp [h, hL, buffered]
  · simp [h, buffered]; omega

/-- chunked bodies: at no point more than L body bytes are buffered, and the body is refused exactly when its
    total size exceeds L -/
theorem chunked_le_limit (L : Nat) (hL : 0 < L) (cs : List Nat) :
    ∀ h0, h0 ≤ L → buffered (limChunked L h0 cs) ≤ L ∧
      ((∃ n, limChunked L h0 cs = .tooLarge n) ↔ h0 + cs.sum > L) := by
  induction cs with
  | nil => intro h0 h; simp [limChunked, buffered, h]
  | cons c rest ih =>
    intro h0 h
    simp only [limChunked]
    by_cases hc : h0 + c > L
    · simp [hL, hc, buffered, h]; omega
    · have := ih (h0 + c) (by omega)
      simp only [hL, hc, and_false, if_false, true_and]
      refine ⟨this.1, ?_⟩
      rw [this.2]; simp [Nat.add_assoc]

/-- identity bodies: the buffer never holds more than max(L+1, initial capacity) bytes — the +1 is the probe byte that
    detects "larger than L" — and a body that is accepted has at most L bytes -/
theorem identity_bound (L : Nat) (hL : 0 < L) (grow : Nat → Nat) (hgrow : ∀ n, n ≤ grow n) (reads : List Nat) :
    ∀ cap offset, offset ≤ cap → offset ≤ L → cap ≤ max (L + 1) cap →
      buffered (limIdentity L grow cap offset reads) ≤ max (L + 1) cap ∧
      (∀ n, limIdentity L grow cap offset reads = .ok n → n ≤ L) := by
  induction reads with
  | nil => intro cap offset h1 h2 _; simp [limIdentity, buffered]; omega
  | cons r rest ih =>
    intro cap offset h1 h2 h3
    simp only [limIdentity]
    have hnn : min r (cap - offset) ≤ cap - offset := Nat.min_le_right _ _
    by_cases hbig : offset + min r (cap - offset) > L
    · simp only [hL, hbig, and_self, if_true, buffered]
      refine ⟨?_, fun n h => by cases h⟩
      have : offset + min r (cap - offset) ≤ cap := by omega
      omega
    · simp only [hL, hbig, and_false, if_false, true_and]
      -- the new capacity is either unchanged, or grown but capped at L+1
      have hcap' : ∀ cap', cap' = (if cap = offset + min r (cap - offset) then
            (if grow (offset + min r (cap - offset)) > L then L + 1 else grow (offset + min r (cap - offset))) else cap) →
          max (L + 1) cap' ≤ max (L + 1) cap := by
        intro cap' hc
        subst hc
        split
        · split <;> omega
        · omega
      by_cases hfull : cap = offset + min r (cap - offset)
      · simp only [hfull.symm, if_true]
        by_cases hg : grow cap > L
        · simp only [hg, if_true]
          have := ih (L + 1) cap (by omega) (by omega) (by omega)
          rw [← hfull] at hbig
          refine ⟨by have := this.1; omega, this.2⟩
        · simp only [hg, if_false]
          have hgc : cap ≤ grow cap := hgrow cap
          have := ih (grow cap) cap hgc (by omega) (by omega)
          refine ⟨by have := this.1; omega, this.2⟩
      · simp only [hfull, if_false]
        have := ih cap (offset + min r (cap - offset)) (by omega) (by omega) h3
        exact this

end Fh.Props.C07

namespace Fh.Props.C07
open Fh Fh.Model

/-- the growth policy of the real code satisfies the hypothesis of `identity_bound`: roundUpForSliceCap(2·n) ≥ n -/
example : ∀ n : Nat, n ≤ 2 * n := fun n => by omega

/-- the *WithLimit helpers never return more than L bytes: they fail instead -/
theorem withLimit_le (L total : Nat) (hL : 0 < L) :
    (∀ n, limReturned (limCopy L total) = some n → n ≤ L) ∧ buffered (limCopy L total) ≤ L + 1 ∧
    (limReturned (limCopy L total) = none ↔ total > L) := by
  unfold limCopy
  have h0 : ¬ L = 0 := by omega
  simp only [h0, if_false]
  by_cases h : total > L
  · have : min total (L + 1) = L + 1 := by omega
    simp [this, limReturned, buffered, h]
  · have : min total (L + 1) = total := by omega
    simp [this, limReturned, buffered, h]; omega

/-- MaxRequestBodySize ≤ 0 means the 4 MiB default (constant regenerated from server.go) -/
theorem default_limit (c : Int) (h : c ≤ 0) : effectiveMaxBody c = 4 * 1024 * 1024 := by
  simp [effectiveMaxBody, h, Gen.defaultMaxRequestBodySize]

/-- a request head larger than ReadBufferSize is answered with 431 and the connection is closed -/
theorem head_gt_buf_431 (bufSize headLen : Nat) (h : headLen > bufSize) :
    headFitResponse (headFit bufSize headLen) = some (431, true) := by
  have : ¬ headLen ≤ bufSize := by omega
  simp [headFit, this, headFitResponse]

/-! non-vacuity -/
example : limChunked 10 0 [4, 4, 4] = .tooLarge 8 := by decide
example : limChunked 10 0 [4, 6] = .ok 10 := by decide
example : limIdentity 10 (fun n => 2 * n) 4 0 [4, 4, 4] = .tooLarge 11 := by decide

end Fh.Props.C07
