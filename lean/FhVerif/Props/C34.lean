/-
C34 — Body streams deliver exact bytes and are closed exactly once.
Property theorems only (helpers in Proofs/StreamC34.lean).  `m` is maxHexIntChars (regenerated: Gen.maxHexIntChars64/32).

A body stream is the list `reads` of its successive Read results up to io.EOF; a "split into parts" is exactly such
a list (its concatenation `reads.flatten` is the content the stream produced).
-/
import FhVerif.Proofs.StreamC34

namespace Fh.Props.C34
open Fh Fh.Model Fh.Model.C34 Fh.Proofs.StreamC34

/-- C34 (chunked): for EVERY split of the produced bytes into Read results (empty results are skipped by the writer)
    fasthttp's chunked reader decodes what fasthttp's chunked writer wrote to exactly the produced bytes, and stops
    exactly behind the end chunk (at the trailer section), whatever follows. -/
theorem chunked_decode_encode (m : Nat) (hm : 1 ≤ m) (parts : List Bytes) (rest : Bytes)
    (hlen : ∀ p ∈ parts, p.length < 16 ^ m) :
    decodeChunked m (writeBodyChunked parts ++ rest) = .ok (parts.flatten, rest) := by
  have := readBodyChunked_write m hm parts ((writeBodyChunked parts ++ rest).length + 1) rest [] hlen
    (by simp only [List.length_append]; omega)
  simpa [decodeChunked] using this

/-- instantiated with the regenerated platform limits: a chunk is shorter than 2^60 (64-bit) / 2^28 (32-bit) bytes -/
theorem chunked_decode_encode64 (parts : List Bytes) (rest : Bytes)
    (hlen : ∀ p ∈ parts, p.length < 16 ^ Gen.maxHexIntChars64) :
    decodeChunked Gen.maxHexIntChars64 (writeBodyChunked parts ++ rest) = .ok (parts.flatten, rest) :=
  chunked_decode_encode _ (by decide) parts rest hlen

theorem chunked_decode_encode32 (parts : List Bytes) (rest : Bytes)
    (hlen : ∀ p ∈ parts, p.length < 16 ^ Gen.maxHexIntChars32) :
    decodeChunked Gen.maxHexIntChars32 (writeBodyChunked parts ++ rest) = .ok (parts.flatten, rest) :=
  chunked_decode_encode _ (by decide) parts rest hlen

/-- what the peer decodes does not depend on how the stream chunked its output -/
theorem chunk_split_irrelevant (m : Nat) (hm : 1 ≤ m) (p q : List Bytes) (rest : Bytes)
    (hp : ∀ x ∈ p, x.length < 16 ^ m) (hq : ∀ x ∈ q, x.length < 16 ^ m) (hsame : p.flatten = q.flatten) :
    (decodeChunked m (writeBodyChunked p ++ rest)).toOption = (decodeChunked m (writeBodyChunked q ++ rest)).toOption := by
  rw [chunked_decode_encode m hm p rest hp, chunked_decode_encode m hm q rest hq, hsame]

/-- the whole chunked body as written when there are no trailer fields: body, then the final CRLF is left for
    the trailer reader -/
theorem chunked_wire_decodes (m : Nat) (hm : 1 ≤ m) (parts : List Bytes) (hlen : ∀ p ∈ parts, p.length < 16 ^ m) :
    decodeChunked m (chunkedWire parts) = .ok (parts.flatten, crlf) :=
  chunked_decode_encode m hm parts crlf hlen

/-- "the chunked encoding decodes to them for any chunk split" — also for a decoder that was NOT written from
    fasthttp: the RFC 9112 reference decoder (Spec/Rfc9112.lean) reads fasthttp's chunked body (end chunk, no trailer
    fields, final CRLF) as exactly the produced bytes and stops exactly behind it. No size hypothesis is needed. -/
theorem chunked_decodes_by_rfc_reference (parts : List Bytes) (rest : Bytes) :
    Spec.Rfc.readChunks ((chunkedWire parts ++ rest).length + 1) (chunkedWire parts ++ rest) [] =
      .ok parts.flatten rest := by
  have := rfc_readChunks_write parts ((chunkedWire parts ++ rest).length + 1) rest []
    (by simp only [chunkedWire, List.length_append]; omega)
  simpa [chunkedWire] using this

/-! ### chunk framing: data chunks are never empty, the end chunk is written exactly once -/

/-- regenerated fact: `(*chunkedBodyWriter).Write` frames one write as one chunk (a single writeChunk call, no loop) -/
theorem cbw_one_chunk_per_write : Gen.cbwWriteChunkCalls = 1 ∧ Gen.cbwLoops = 0 := by decide

/-- a write of n > 0 bytes emits chunks whose sizes are all > 0 and sum to n; a write of 0 bytes emits nothing -/
theorem cbw_write_chunks (p : Bytes) : (∀ c ∈ cbwWrite p, c ≠ []) ∧ (cbwWrite p).flatten = p := by
  unfold cbwWrite
  cases p with
  | nil => simp
  | cons a t => simp

theorem dataChunks_nonempty (reads : List Bytes) : ∀ c ∈ dataChunks reads, c ≠ [] := by
  intro c hc
  simp only [dataChunks, List.mem_flatMap] at hc
  obtain ⟨p, _, hcp⟩ := hc
  exact (cbw_write_chunks p).1 c hcp

theorem dataChunks_flatten (reads : List Bytes) : (dataChunks reads).flatten = reads.flatten := by
  induction reads with
  | nil => rfl
  | cons p t ih =>
    simp only [dataChunks, List.flatMap_cons, List.flatten_append, List.flatten_cons] at ih ⊢
    rw [(cbw_write_chunks p).2, ih]

/-- the wire is: every data chunk (all non-empty, so every size line is non-zero) framed by writeChunk, followed by the
    end chunk — which therefore occurs exactly once, at the end; the Read loop and the WriteTo framing produce the same
    bytes for the same sequence of reads/writes -/
theorem chunked_wire_shape (reads : List Bytes) :
    writeBodyChunked reads = (dataChunks reads).flatMap writeChunk ++ writeChunk [] ∧
    writeBodyChunkedWT reads = writeBodyChunked reads := by
  have h1 : writeBodyChunked reads = (dataChunks reads).flatMap writeChunk ++ writeChunk [] := by
    induction reads with
    | nil => rfl
    | cons p t ih =>
      cases p with
      | nil => simpa [writeBodyChunked, dataChunks, cbwWrite] using ih
      | cons a u =>
        simp only [writeBodyChunked, dataChunks, cbwWrite, List.isEmpty_cons, Bool.false_eq_true, if_false,
          List.flatMap_cons, List.flatMap_nil, List.append_nil, List.singleton_append] at ih ⊢
        rw [ih]; simp [List.append_assoc]
  exact ⟨h1, by rw [h1]; rfl⟩

/-- a data chunk's size line is never the end-of-body marker: `writeChunk c` for c ≠ [] does not start with "0\r\n" … -/
theorem data_chunk_is_not_end_chunk (c : Bytes) (hc : c ≠ []) (hlen : c.length < 16 ^ 15) (rest : Bytes) :
    decodeChunked 15 (writeChunk c ++ writeChunk [] ++ rest) = .ok (c, rest) := by
  have := chunked_decode_encode 15 (by decide) [c] rest (by simpa using hlen)
  have hce : c.isEmpty = false := by cases c <;> simp_all
  simpa [writeBodyChunked, hce, List.append_assoc] using this

/-- the chunked reader terminates: with the fuel `decodeChunked` gives it, it never runs out (for ANY input) -/
theorem decode_never_out_of_fuel (m : Nat) (s : Bytes) : decodeChunked m s ≠ .error .fuel :=
  readBodyChunked_fuel m 0 (s.length + 1) s [] (by omega)

/-- C34 (fixed length): when the stream produces exactly the declared number of bytes, exactly those bytes are
    written and no error is returned; -/
theorem fixed_bytes_exact (reads : List Bytes) (size : Nat) (h : reads.flatten.length = size) :
    writeBodyFixedSize reads size = (reads.flatten, false) := by
  simp [writeBodyFixedSize, h]

/-- … and whenever the produced length differs from the declared size the writer returns an error
    (the caller then closes the connection), in both directions. -/
theorem fixed_mismatch_is_reported (reads : List Bytes) (size : Nat) :
    (writeBodyFixedSize reads size).2 = true ↔ reads.flatten.length ≠ size := by
  simp [writeBodyFixedSize]

/-- The full fixed-length statement: never more body bytes on the wire than the declared Content-Length. -/
def C34_fixed_full : Prop :=
  ∀ (reads : List Bytes) (size : Nat), (writeBodyFixedSize reads size).1.length ≤ size

/-- The faithful model violates it: a stream that produces more than it declared is copied in full
    (writeBodyFixedSize compares the sizes only after the copy).  Recorded finding `fixed-overrun`. -/
theorem fixed_overrun_counterexample : ¬ C34_fixed_full := by
  intro h
  have := h [[1, 2, 3]] 1
  simp [writeBodyFixedSize] at this

/-- what holds of the code as it is: the wire never carries more than the declared size as long as the stream
    does not produce more than it declared -/
theorem fixed_within_declared_partial (reads : List Bytes) (size : Nat) (h : reads.flatten.length ≤ size) :
    (writeBodyFixedSize reads size).1.length ≤ size := by
  simpa [writeBodyFixedSize] using h

/-! ### closed exactly once -/

theorem count_le_one_of_nodup (l : List Nat) (h : l.Nodup) (a : Nat) : l.count a ≤ 1 := by
  induction l with
  | nil => simp
  | cons x t ih =>
    obtain ⟨hx, ht⟩ := List.nodup_cons.mp h
    by_cases hxa : x = a
    · subst hxa
      have : t.count x = 0 := List.count_eq_zero.mpr hx
      simp [List.count_cons, this]
    · have := ih ht
      simp only [List.count_cons, beq_iff_eq, hxa, if_false]; omega

/-- C34 (close): for every sequence of API events on a Request/Response — attaching streams, wrapping by a compressing
    handler, writes that succeed, fail, or panic in Read, ResetBody/Reset/ReleaseBody/CloseBodyStream whose Close call succeeds OR
    returns an error, and the
    compressing goroutine finishing at ANY point — no stream is ever closed twice, the attached plain stream is not
    closed yet, and every stream that was attached and is no longer attached has been closed exactly once. -/
theorem closed_exactly_once (evs : List CloseEv) (hfresh : FreshTrace [] evs) :
    let s := closeRun evs
    (∀ id, closeCount s id ≤ 1) ∧
    (∀ id, s.att = .plain id → closeCount s id = 0) ∧
    (∀ id, id ∈ s.everSet → s.att ≠ .plain id → s.att ≠ .comp id → closeCount s id = 1) := by
  intro s
  have hinv : CloseInv s := closeFold_inv evs {} closeInv_init hfresh
  refine ⟨fun id => count_le_one_of_nodup _ hinv.nodup id, ?_, ?_⟩
  · intro id hatt
    exact List.count_eq_zero.mpr (hinv.attPlain id hatt).1
  · intro id hset h1 h2
    have hin := hinv.detached id hset h1 h2
    have hle := count_le_one_of_nodup _ hinv.nodup id
    have hpos : 0 < s.log.count id := List.count_pos_iff.mpr hin
    unfold closeCount; omega

/-- every path that ends with the object being written (without panic), reset or released — the last event is a
    `detachClose` — leaves EVERY stream ever attached closed exactly once -/
theorem closed_exactly_once_after_release (evs : List CloseEv) (ce : Bool)
    (hfresh : FreshTrace [] (evs ++ [.detachClose ce])) :
    let s := closeRun (evs ++ [.detachClose ce])
    s.att = .none ∧ ∀ id, id ∈ s.everSet → closeCount s id = 1 := by
  intro s
  have hinv0 : CloseInv (closeRun evs) := by
    apply closeFold_inv evs {} closeInv_init
    -- a prefix of a fresh trace is fresh
    have : ∀ (l : List CloseEv) (seen : List Nat), FreshTrace seen (l ++ [.detachClose ce]) → FreshTrace seen l := by
      intro l; induction l with
      | nil => intro _ _; trivial
      | cons e t ih =>
        intro seen h
        cases e <;> first | exact ih _ h | exact ⟨h.1, ih _ h.2⟩
    exact this evs [] hfresh
  have hs : s = detach (closeRun evs) := by
    simp [s, closeRun, List.foldl_append, closeStep]
  have hatt : s.att = .none := by rw [hs]; exact (detach_inv _ hinv0).2.1
  refine ⟨hatt, ?_⟩
  intro id hset
  exact (closed_exactly_once (evs ++ [.detachClose ce]) hfresh).2.2 id hset (by rw [hatt]; simp) (by rw [hatt]; simp)

/-! ### non-vacuity: the five paths named by the property, and concrete encodings -/

-- success / write error: Write ends with closeBodyStream
example : closeCount (closeRun [.set 7, .detachClose false]) 7 = 1 := by decide
-- Read panic in Response.Write (recovered, not closed there), then the response is reset
example : closeCount (closeRun [.set 7, .panicWrite]) 7 = 0 ∧ closeCount (closeRun [.set 7, .panicWrite, .detachClose false]) 7 = 1 := by decide
-- Reset before write, then a second Reset / ReleaseBody: still once
example : closeCount (closeRun [.set 7, .detachClose false, .detachClose false, .noop]) 7 = 1 := by decide
-- a stream whose Close returns an ERROR is detached all the same: a later Reset does not close it again
example : closeCount (closeRun [.set 7, .detachClose true, .detachClose false, .detachClose true]) 7 = 1 := by decide
example : (closeRun [.set 7, .detachClose true]).att = .none := by decide
-- replacing a stream closes the old one; release closes the new one
example : (closeRun [.set 1, .set 2, .detachClose false]).log = [2, 1] := by decide
-- compressed wrapper: the goroutine finishes before or after the consumer closes — once either way
example : closeCount (closeRun [.set 3, .compress, .writerFinish 3, .detachClose false]) 3 = 1 := by decide
example : closeCount (closeRun [.set 3, .compress, .detachClose false, .writerFinish 3]) 3 = 1 := by decide
example : FreshTrace [] [.set 3, .compress, .detachClose false, .writerFinish 3, .set 4, .panicWrite, .detachClose false] := by
  simp [FreshTrace]
example : writeBodyChunked [ofString "ab", [], ofString "c"] = ofString "2\r\nab\r\n1\r\nc\r\n0\r\n" := by
  decide +kernel
example : (decodeChunked 15 (ofString "2\r\nab\r\n1;x=y\r\nc\r\n0\r\n\r\nNEXT")).toOption =
    some (ofString "abc", ofString "\r\nNEXT") := by decide +kernel
example : (decodeChunked 15 (ofString "2\r\nabXX0\r\n\r\n")).toOption = none := by decide +kernel
example : writeBodyFixedSize [[1, 2], [3]] 3 = ([1, 2, 3], false) := by decide
example : dataChunks [[1], [], [2, 3], []] = [[1], [2, 3]] := by decide

end Fh.Props.C34
