/-
C28 — Query arguments behave as an ordered multimap and round-trip.
-/
import FhVerif.Proofs.Args

namespace Fh.Props.C28
open Fh Fh.Model Fh.Spec Fh.Proofs.Args

/-- abstraction map: the argsKV slice read as the reference multimap -/
def abs (l : ArgList) : MM := l.map fun e => ⟨e.key, e.value⟩

theorem add_refines (l : ArgList) (k : Bytes) (v : Option Bytes) : abs (appendArg l k v) = (abs l).add k v := by
  simp [abs, appendArg, MM.add]

theorem set_refines (l : ArgList) (k : Bytes) (v : Option Bytes) : abs (setArg l k v) = (abs l).set k v := by
  induction l with
  | nil => simp [abs, setArg, MM.set]
  | cons e rest ih =>
    unfold MM.set at ih ⊢
    by_cases h : e.key = k
    · simp [abs, setArg, h, List.findIdx?_cons]
    · simp only [abs, setArg, h, if_false, List.map_cons, List.findIdx?_cons, decide_false,
        Bool.false_eq_true] at ih ⊢
      cases hf : List.findIdx? (fun x : Entry => decide (x.key = k)) (List.map (fun e => ({ key := e.key, value := e.value } : Entry)) rest) with
      | none => simp [hf] at ih ⊢; exact ih
      | some i => simp [hf] at ih ⊢; exact ih

theorem del_refines (l : ArgList) (k : Bytes) : abs (delAllArgsStable l k) = (abs l).del k := by
  induction l with
  | nil => rfl
  | cons e rest ih =>
    by_cases h : e.key = k
    · simp only [delAllArgsStable, h, if_true]; rw [ih]; simp [abs, MM.del, h]
    · simp only [delAllArgsStable, h, if_false]
      simp only [abs, MM.del, List.map_cons] at ih ⊢
      rw [ih]; simp [h]

theorem peek_refines (l : ArgList) (k : Bytes) : peekArg l k = (abs l).peek k := by
  induction l with
  | nil => rfl
  | cons e rest ih =>
    by_cases h : e.key = k
    · simp [peekArg, abs, MM.peek, h, KV.val]
    · simp only [peekArg, h, if_false, ih]; simp [abs, MM.peek, h]

theorem peekMulti_refines (l : ArgList) (k : Bytes) : peekAll l k = (abs l).peekMulti k := by
  induction l with
  | nil => rfl
  | cons e rest ih =>
    by_cases h : e.key = k
    · simp only [peekAll, h, if_true, ih]; simp [abs, MM.peekMulti, h, KV.val]
    · simp only [peekAll, h, if_false, ih]; simp [abs, MM.peekMulti, h]

theorem has_refines (l : ArgList) (k : Bytes) : hasArg l k = (abs l).has k := by
  induction l with
  | nil => rfl
  | cons e rest ih => simp only [hasArg, ih]; simp [abs, MM.has]

theorem len_refines (l : ArgList) : l.length = (abs l).length := by simp [abs]

/-! operation sequences: every reachable state refines the multimap reached by the same operations -/
inductive Op
  | add (k : Bytes) (v : Option Bytes)
  | set (k : Bytes) (v : Option Bytes)
  | del (k : Bytes)

def stepImpl (l : ArgList) : Op → ArgList
  | .add k v => appendArg l k v
  | .set k v => setArg l k v
  | .del k => delAllArgsStable l k

def stepSpec (m : MM) : Op → MM
  | .add k v => m.add k v
  | .set k v => m.set k v
  | .del k => m.del k

/-- C28: for any sequence of Add/Set/SetNoValue/Del operations the args list is the ordered multimap
    reached by the same operations; hence Peek/PeekMulti/Has/Len/All agree with it (`*_refines`). -/
theorem ops_refine_multimap (ops : List Op) : abs (ops.foldl stepImpl []) = ops.foldl stepSpec [] := by
  suffices h : ∀ (l : ArgList), abs (ops.foldl stepImpl l) = ops.foldl stepSpec (abs l) from h []
  induction ops with
  | nil => intro l; rfl
  | cons op rest ih =>
    intro l
    simp only [List.foldl_cons]
    rw [ih]
    congr 1
    cases op <;> simp [stepImpl, stepSpec, add_refines, set_refines, del_refines]

/-- Del removes every entry with that key while keeping the order of the rest (stated outright) -/
theorem del_is_filter (l : ArgList) (k : Bytes) : delAllArgsStable l k = l.filter (fun e => e.key ≠ k) := by
  induction l with
  | nil => rfl
  | cons e rest ih => by_cases h : e.key = k <;> simp [delAllArgsStable, h, ih]

/-! round trips -/

/-- percent-decoding undoes AppendQuotedArg for every byte string -/
theorem dec_enc (s : Bytes) : decodeArg (appendQuotedArg s) = s := decode_quote s

/-- encoded keys and values never contain the separators '&' and '=' -/
theorem enc_has_no_separators (s : Bytes) : ∀ x ∈ appendQuotedArg s, x ≠ 38 ∧ x ≠ 61 := quote_no_sep s

/-- C28: parsing QueryString() yields the same ordered (key, value, has '=') list,
    except entries whose key and value are both empty. -/
theorem parse_serialise_roundtrip (l : ArgList) :
    parseArgs (argsAppendBytes l) = l.filter (fun e => !e.isBlank) := parse_serialise l

/-! non-vacuity -/
example : parseArgs (ofString "a=1&b&&c=%26+x") =
    [⟨ofString "a", some (ofString "1")⟩, ⟨ofString "b", none⟩, ⟨ofString "c", some (ofString "& x")⟩] := by
  decide +kernel
example : argsAppendBytes [⟨ofString "k=&", some (ofString "v v")⟩, ⟨ofString "n", none⟩] = ofString "k%3D%26=v+v&n" := by
  decide +kernel

end Fh.Props.C28
