/-
C21 — https requests are never sent over a plaintext connection.

Proved here: the decision logic.  For every sequence of Client.Do / HostClient.Do calls (every hop of a redirect
chain is such a call; LBClient hands the request unchanged to the HostClient it chose) on one Client and any number of
caller-made HostClients: an https request is written only to a connection that dialAddr wrapped in TLS and that was
dialled for the request's own host (AddMissingPort host, 443 by default); an http request is written only to a
connection dialled without TLS by a plaintext HostClient; a HostClient whose IsTLS does not match the request's scheme
returns ErrHostClientRedirectToDifferentScheme and writes nothing; no connection ever carries requests of both schemes.

Partial (residue): the TLS handshake itself.  `Conn.tls` says that dialAddr took the tls.Client path; that the
resulting session protects the bytes and authenticates the peer is crypto/tls' business and appears below as the
hypothesis `handshake` of `C21_partial`.
-/
import FhVerif.Proofs.TlsRoute
import FhVerif.Gen.Facts
import FhVerif.Gen.PoolShape

namespace Fh.Props.C21
open Fh Fh.Model.TlsRoute Fh.Proofs.TlsRoute

/-- C21 (Client.Do): an https request is written only to a TLS connection dialled for its own host -/
theorem https_only_over_tls_to_own_host (dialOk : Bytes → Bool) (s : St) (hinv : Inv s) (scheme host : Bytes) (keep cfgOk : Bool)
    (id : Nat) (hw : (clientDo dialOk s scheme host keep cfgOk).2 = .wrote id) (hs : isHTTPS scheme = true) :
    ∃ cn : Conn, (clientDo dialOk s scheme host keep cfgOk).1.conns[id]? = some cn ∧ cn.tls = true ∧
      cn.addr = addMissingPort host true := by
  obtain ⟨_, _, h3, _⟩ := clientDo_spec dialOk hinv scheme host keep cfgOk
  obtain ⟨cn, _, e, t, a, _, _⟩ := h3 id hw
  exact ⟨cn, e, by rw [t, hs], by rw [a, hs]⟩

/-- C21 (Client.Do): an http request is written only to a plaintext connection that belongs to a plaintext
    HostClient (one of `m`, never one of `ms`), dialled for its own host -/
theorem http_never_on_https_pool (dialOk : Bytes → Bool) (s : St) (hinv : Inv s) (scheme host : Bytes) (keep cfgOk : Bool)
    (id : Nat) (hw : (clientDo dialOk s scheme host keep cfgOk).2 = .wrote id) (hs : isHTTPS scheme = false) :
    ∃ (cn : Conn) (hc : HC), (clientDo dialOk s scheme host keep cfgOk).1.conns[id]? = some cn ∧ cn.tls = false ∧
      cn.addr = addMissingPort host false ∧
      (clientDo dialOk s scheme host keep cfgOk).1.hcs[cn.owner]? = some hc ∧ hc.isTLS = false := by
  obtain ⟨_, _, h3, _⟩ := clientDo_spec dialOk hinv scheme host keep cfgOk
  obtain ⟨cn, hc, e, t, a, o, ot⟩ := h3 id hw
  exact ⟨cn, hc, e, by rw [t, hs], by rw [a, hs], o, by rw [ot, hs]⟩

/-- C21: a HostClient whose IsTLS does not match the scheme refuses: error, state untouched, nothing written -/
theorem hostclient_refuses_scheme_mismatch (dialOk : Bytes → Bool) (s : St) (hinv : Inv s) (i : Nat) (hc : HC)
    (hi : s.hcs[i]? = some hc) (scheme : Bytes) (keep : Bool) (hne : hc.isTLS ≠ isHTTPS scheme) :
    hcDo dialOk s i scheme keep = (s, .mismatch) :=
  (hcDo_spec dialOk hinv i scheme keep).2.2.2.2.2.2 hc hi hne

/-- ... and what it does write goes to a connection it dialled itself, for its own address, with its own TLS setting -/
theorem hostclient_writes_own_conn (dialOk : Bytes → Bool) (s : St) (hinv : Inv s) (i : Nat) (scheme : Bytes) (keep : Bool)
    (id : Nat) (hw : (hcDo dialOk s i scheme keep).2 = .wrote id) :
    ∃ hc : HC, s.hcs[i]? = some hc ∧ hc.isTLS = isHTTPS scheme ∧
      (hcDo dialOk s i scheme keep).1.conns[id]? = some ⟨hc.addr, isHTTPS scheme, i⟩ := by
  obtain ⟨hc, e, t, c⟩ := (hcDo_spec dialOk hinv i scheme keep).2.2.2.2.2.1 id hw
  exact ⟨hc, e, t, by rw [← t]; exact c⟩

/-- C21: the TLS wrapping of a dialled connection is a function of the IsTLS flag alone: a TLS HostClient whose
    TLS-config lookup fails (no server name derivable, none configured, verification on) gets an error and the state is
    untouched - so the same happens on EVERY later call; nothing is dialled, nothing is written. -/
theorem tls_config_failure_is_an_error_every_time (dialOk : Bytes → Bool) (s : St) (i : Nat) (hc : HC)
    (hi : s.hcs[i]? = some hc) (ht : hc.isTLS = true) (hcfg : hc.cfgOk = false) (hp : hc.pool = [])
    (scheme : Bytes) (keep : Bool) :
    (hcDo dialOk s i scheme keep).1 = s ∧ ∀ id, (hcDo dialOk s i scheme keep).2 ≠ .wrote id := by
  unfold hcDo
  simp only [hi, hp, List.getLast?_nil, ht, hcfg]
  by_cases hm : (true != isHTTPS scheme) = true
  · simp [hm]
  · simp [hm]

/-- REGENERATED fact: the condition guarding dialAddr's tls.Client / tlsClientHandshake calls reads `isTLS` (and the
    "already TLS" type test) and nothing else - in particular not the TLS config -/
theorem dialAddr_wraps_iff_isTLS_flag :
    Gen.dialAddr_tls_guard = ["isTLS", "isTLSAlready"] ∧ Gen.dialAddr_tls_guard_count = 1 := by decide

/-- C21, per ATTEMPT: in HostClient.Do's retry loop the hooks may rewrite the request between attempts (the script
    gives the scheme the request has when each attempt starts).  Whatever they do, an attempt that wrote its request
    wrote it to a connection of this HostClient whose TLS flag is `isHTTPS` of the scheme the request had AT THAT
    attempt, and the HostClient's IsTLS equals it: a request rewritten to the other scheme is never written. -/
theorem every_attempt_rechecks_scheme (dialOk : Bytes → Bool) (s : St) (hinv : Inv s) (i : Nat)
    (atts : List (Bytes × Bool × Bool)) (k id : Nat) (hw : (retryOn dialOk s i atts).2[k]? = some (.wrote id)) :
    ∃ (a : Bytes × Bool × Bool) (hc : HC), atts[k]? = some a ∧ s.hcs[i]? = some hc ∧ hc.isTLS = isHTTPS a.1 ∧
      (retryOn dialOk s i atts).1.conns[id]? = some (⟨hc.addr, isHTTPS a.1, i⟩ : Conn) :=
  (retryOn_spec dialOk i atts s hinv).2.2.2 k id hw

/-- ... so an attempt whose (rewritten) scheme does not match IsTLS writes nothing -/
theorem rewritten_attempt_is_refused (dialOk : Bytes → Bool) (s : St) (hinv : Inv s) (i : Nat) (hc : HC)
    (hi : s.hcs[i]? = some hc) (atts : List (Bytes × Bool × Bool)) (k : Nat) (a : Bytes × Bool × Bool)
    (ha : atts[k]? = some a) (hne : hc.isTLS ≠ isHTTPS a.1) : ∀ id, (retryOn dialOk s i atts).2[k]? ≠ some (.wrote id) := by
  intro id hw
  obtain ⟨a', hc', ea, eh, th, _⟩ := every_attempt_rechecks_scheme dialOk s hinv i atts k id hw
  rw [ha] at ea; injection ea with ea; subst ea
  rw [hi] at eh; injection eh with eh; subst eh
  exact hne th

/-- REGENERATED fact: the condition guarding ErrHostClientRedirectToDifferentScheme is `c.IsTLS != req.URI().isHTTPS()`
    as far as identifiers go: it reads the HostClient's IsTLS and the scheme of the request URI and NO other field of
    the request (not where the request came from, not its server-side isTLS flag, not its method or headers).  This is
    what `hcDo` models: the refusal is a function of (hc.isTLS, scheme) alone. -/
theorem scheme_check_reads_only_scheme_and_IsTLS :
    Gen.schemeCheck_cond_idents = ["IsTLS", "URI", "c", "isHTTPS", "req"] := by decide

/-- the scheme check precedes the RoundTrip call among the top-level statements of doNonNilReqResp -/
def checkBeforeWrite : Bool :=
  match Gen.schemeCheck_stmt_index, Gen.roundTrip_stmt_index with
  | some a, some b => decide (a < b)
  | _, _ => false

/-- REGENERATED facts: the scheme-vs-IsTLS check is a top-level statement of the per-attempt function
    HostClient.doNonNilReqResp, it precedes the statement that calls RoundTrip (which writes the request), and no
    other function of the package calls a RoundTrip method - so every transmission is preceded by the check -/
theorem scheme_check_guards_every_transmission :
    Gen.roundTrip_callers = ["doNonNilReqResp"] ∧ checkBeforeWrite = true := by decide

/-- REGENERATED fact (skeleton emitted by extract/pool_c18.go): CloseIdleConnections takes a COPY of the idle list
    under the lock, truncates the list, unlocks and closes the copies.  The invariant above (`poolOk`: whatever sits in
    a HostClient's idle list was dialled by that HostClient, with its TLS setting) relies on an idle entry never
    being shared with anything else; walking the list's own backing array outside the lock would close - and hand to
    the global clientConn pool - a connection another goroutine has just put back as idle. -/
theorem closeIdle_hands_out_a_copy :
    Gen.poolShape_CloseIdleConnections =
      ["lock", "scratch = copy of c.conns", "c.conns = c.conns[:0]", "unlock", "range scratch => CloseConn"] := by decide

/-- Client.Do itself never reports a scheme mismatch: it always picks a HostClient of the right kind -/
theorem client_never_mismatches (dialOk : Bytes → Bool) (s : St) (hinv : Inv s) (scheme host : Bytes) (keep cfgOk : Bool) :
    (clientDo dialOk s scheme host keep cfgOk).2 ≠ .mismatch :=
  (clientDo_spec dialOk hinv scheme host keep cfgOk).2.2.2

/-! ### whole runs (interleaved requests, redirect chains, LBClient) -/

def schemeOf : Op → Option Bytes
  | .newHC _ _ _ => none
  | .closeIdle _ => none
  | .client scheme _ _ _ => some scheme
  | .host _ scheme _ => some scheme

/-- the event wrote its request to connection `id` -/
def Wrote (e : Op × Option Res × St) (id : Nat) : Prop := e.2.1 = some (.wrote id)

/-- what must hold for a write -/
def WriteOK (e : Op × Option Res × St) : Prop :=
  ∀ id, Wrote e id →
    match e.1 with
    | .client scheme host _ _ =>
      ∃ cn : Conn, e.2.2.conns[id]? = some cn ∧ cn.tls = isHTTPS scheme ∧ cn.addr = addMissingPort host (isHTTPS scheme)
    | .host i scheme _ =>
      ∃ (cn : Conn) (hc : HC), e.2.2.conns[id]? = some cn ∧ e.2.2.hcs[i]? = some hc ∧ hc.isTLS = isHTTPS scheme ∧
        cn.tls = isHTTPS scheme ∧ cn.addr = hc.addr
    | .newHC _ _ _ => False
    | .closeIdle _ => False

theorem step_inv (dialOk : Bytes → Bool) (s : St) (hinv : Inv s) (op : Op) :
    Inv (step dialOk s op).1 ∧ Ext s (step dialOk s op).1 ∧ WriteOK (op, (step dialOk s op).2, (step dialOk s op).1) := by
  cases op with
  | newHC addr isTLS cfgOk =>
    obtain ⟨h1, h2⟩ := inv_addHC hinv ⟨addr, isTLS, [], cfgOk⟩ rfl
    refine ⟨h1, h2, ?_⟩
    intro id hw; simp [Wrote, step] at hw
  | closeIdle i =>
    simp only [step]
    cases hi : s.hcs[i]? with
    | none => exact ⟨hinv, Ext.refl s, fun id hw => by simp [Wrote] at hw⟩
    | some hc =>
      have := inv_setPool hinv hi [] s.conns (fun _ _ h => h) (fun _ _ h => Or.inl h) (fun x hx => by cases hx)
      exact ⟨this.1, this.2, fun id hw => by simp [Wrote] at hw⟩
  | client scheme host keep cfgOk =>
    obtain ⟨h1, h2, h3, _⟩ := clientDo_spec dialOk hinv scheme host keep cfgOk
    refine ⟨h1, h2, ?_⟩
    intro id hw
    simp only [Wrote, step] at hw
    injection hw with hw
    obtain ⟨cn, _, e, t, a, _, _⟩ := h3 id hw
    exact ⟨cn, e, t, a⟩
  | host i scheme keep =>
    obtain ⟨h1, h2, _, _, _, h6, _⟩ := hcDo_spec dialOk hinv i scheme keep
    refine ⟨h1, h2, ?_⟩
    intro id hw
    simp only [Wrote, step] at hw
    injection hw with hw
    obtain ⟨hc, e, t, c⟩ := h6 id hw
    obtain ⟨hc', e', a', t'⟩ := h2.hcKeep i hc e
    exact ⟨_, hc', c, e', t'.trans t, t, a'.symm⟩

def lastState (dialOk : Bytes → Bool) : St → List Op → St
  | s, [] => s
  | s, op :: rest => lastState dialOk (step dialOk s op).1 rest

theorem ext_last (dialOk : Bytes → Bool) : ∀ (ops : List Op) (s : St), Inv s → Ext s (lastState dialOk s ops) := by
  intro ops
  induction ops with
  | nil => intro s _; exact Ext.refl s
  | cons op rest ih =>
    intro s hinv
    obtain ⟨h1, h2, _⟩ := step_inv dialOk s hinv op
    exact h2.trans (ih _ h1)

/-- C21 for whole runs: from any state satisfying the invariant (in particular the empty one), every event keeps
    the invariant, every write is routed as the property demands, and the connection it used is still the same
    connection in the final state -/
theorem run_sound (dialOk : Bytes → Bool) : ∀ (ops : List Op) (s : St), Inv s →
    ∀ e ∈ run dialOk s ops, Inv e.2.2 ∧ WriteOK e ∧ Ext e.2.2 (lastState dialOk s ops) := by
  intro ops
  induction ops with
  | nil => intro s _ e he; simp [run] at he
  | cons op rest ih =>
    intro s hinv e he
    obtain ⟨h1, _, h3⟩ := step_inv dialOk s hinv op
    simp only [run, List.mem_cons] at he
    rcases he with rfl | he
    · exact ⟨h1, h3, ext_last dialOk rest _ h1⟩
    · exact ih _ h1 e he

/-- C21: no connection ever carries both an https and an http request -/
theorem no_conn_serves_both_schemes (dialOk : Bytes → Bool) (ops : List Op)
    (e1 e2 : Op × Option Res × St) (h1 : e1 ∈ run dialOk {} ops) (h2 : e2 ∈ run dialOk {} ops)
    (id : Nat) (w1 : Wrote e1 id) (w2 : Wrote e2 id) (sc1 sc2 : Bytes)
    (s1 : schemeOf e1.1 = some sc1) (s2 : schemeOf e2.1 = some sc2) : isHTTPS sc1 = isHTTPS sc2 := by
  have key : ∀ e ∈ run dialOk {} ops, ∀ sc, Wrote e id → schemeOf e.1 = some sc →
      ∃ cn : Conn, (lastState dialOk {} ops).conns[id]? = some cn ∧ cn.tls = isHTTPS sc := by
    intro e he sc hw hs
    obtain ⟨_, ok, ext⟩ := run_sound dialOk ops {} inv_empty e he
    have := ok id hw
    obtain ⟨op, r, st⟩ := e
    cases op with
    | newHC a t c => simp [schemeOf] at hs
    | closeIdle j => simp [schemeOf] at hs
    | client scheme host keep c =>
      simp only [schemeOf] at hs; injection hs with hs; subst hs
      obtain ⟨cn, e', t, _⟩ := this
      exact ⟨cn, ext.connKeep id cn e', t⟩
    | host i scheme keep =>
      simp only [schemeOf] at hs; injection hs with hs; subst hs
      obtain ⟨cn, _, e', _, _, t, _⟩ := this
      exact ⟨cn, ext.connKeep id cn e', t⟩
  obtain ⟨c1, e1', t1⟩ := key e1 h1 sc1 w1 s1
  obtain ⟨c2, e2', t2⟩ := key e2 h2 sc2 w2 s2
  rw [e1'] at e2'; injection e2' with e2'; subst e2'
  rw [← t1, ← t2]

/-! ### the full statement and its residue -/

/-- The property as stated: `secure cn` = "the bytes written to `cn` are protected by a TLS session with the server
    the connection was dialled for".  Establishing it needs the handshake, which is outside the model. -/
def C21_full (secure : Conn → Prop) : Prop :=
  ∀ (dialOk : Bytes → Bool) (ops : List Op), ∀ e ∈ run dialOk {} ops, ∀ id, Wrote e id →
    match e.1 with
    | .client scheme host _ _ =>
      ∃ cn : Conn, e.2.2.conns[id]? = some cn ∧
        (isHTTPS scheme = true → secure cn ∧ cn.addr = addMissingPort host true) ∧
        (isHTTPS scheme = false → cn.tls = false)
    | .host i scheme _ =>
      ∃ (cn : Conn) (hc : HC), e.2.2.conns[id]? = some cn ∧ e.2.2.hcs[i]? = some hc ∧ hc.isTLS = isHTTPS scheme ∧
        cn.addr = hc.addr ∧ (isHTTPS scheme = true → secure cn) ∧ (isHTTPS scheme = false → cn.tls = false)
    | .newHC _ _ _ => False
    | .closeIdle _ => False

/-- C21 up to the handshake: if every connection that dialAddr wrapped in TLS is secure, the property holds -/
theorem C21_partial (secure : Conn → Prop) (handshake : ∀ cn : Conn, cn.tls = true → secure cn) : C21_full secure := by
  intro dialOk ops e he id hw
  obtain ⟨_, ok, _⟩ := run_sound dialOk ops {} inv_empty e he
  have := ok id hw
  obtain ⟨op, r, st⟩ := e
  cases op with
  | newHC a t c => exact this
  | closeIdle j => exact this
  | client scheme host keep c =>
    obtain ⟨cn, e', t, a⟩ := this
    refine ⟨cn, e', ?_, ?_⟩
    · intro hs; exact ⟨handshake cn (by rw [t, hs]), by rw [a, hs]⟩
    · intro hs; rw [t, hs]
  | host i scheme keep =>
    obtain ⟨cn, hc, e', eh, th, t, a⟩ := this
    refine ⟨cn, hc, e', eh, th, a, ?_, ?_⟩
    · intro hs; exact handshake cn (by rw [t, hs])
    · intro hs; rw [t, hs]

/-! ### non-vacuity -/

def allOk : Bytes → Bool := fun _ => true
def aTest : Bytes := ofString "a.test"

/-- http then https then http again to the same name, an https request with an explicit port, a caller-made plaintext
    HostClient asked for https, and a redirect hop from http to https -/
def demoOps : List Op :=
  [.client strHTTP aTest true, .client strHTTPS aTest true, .client strHTTP aTest true,
   .client strHTTPS (ofString "a.test:8443") false, .newHC (ofString "a.test:80") false,
   .host 3 strHTTPS true, .host 3 strHTTP true, .client (ofString "ftp") aTest true]

example : (run allOk {} demoOps).map (·.2.1) =
    [some (.wrote 0), some (.wrote 1), some (.wrote 0), some (.wrote 2), none, some .mismatch, some (.wrote 3), some .err] := by
  decide +kernel
example : (lastState allOk {} demoOps).conns =
    [⟨ofString "a.test:80", false, 0⟩, ⟨ofString "a.test:443", true, 1⟩, ⟨ofString "a.test:8443", true, 2⟩,
     ⟨ofString "a.test:80", false, 3⟩] := by decide +kernel
/-- a TLS HostClient for "[::1]" (no port: no server name derivable, verification on): every request is refused -/
example : ((run allOk {} [.newHC (ofString "[::1]") true false, .host 0 strHTTPS true, .host 0 strHTTPS true,
      .host 0 strHTTPS false]).map (·.2.1)) = [none, some .err, some .err, some .err] ∧
    (lastState allOk {} [.newHC (ofString "[::1]") true false, .host 0 strHTTPS true, .host 0 strHTTPS true]).conns = [] := by
  decide +kernel
/-- a plaintext HostClient; the first attempt (http) fails after the write, the hook rewrites the URL to https: refused -/
example : (retryOn allOk (step allOk {} (.newHC (ofString "a.test:80") false)).1 0
      [(strHTTP, true, true), (strHTTPS, true, false)]).2 = [.wrote 0, .mismatch] := by decide +kernel
example : (retryOn allOk (step allOk {} (.newHC (ofString "a.test:80") false)).1 0
      [(strHTTP, true, true), (strHTTP, true, false)]).2 = [.wrote 0, .wrote 1] := by decide +kernel
/-- CloseIdleConnections empties the pool: the next request dials a fresh connection of the right kind -/
example : ((run allOk {} [.client strHTTPS aTest true, .client strHTTPS aTest true, .closeIdle 0, .client strHTTPS aTest true]).map (·.2.1)) =
    [some (.wrote 0), some (.wrote 0), none, some (.wrote 1)] := by decide +kernel
example : addMissingPort (ofString "[::1]") true = ofString "[::1]:443" := by decide +kernel
example : addMissingPort (ofString "[::1]:8080") true = ofString "[::1]:8080" := by decide +kernel

end Fh.Props.C21
