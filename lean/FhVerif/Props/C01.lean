/-
C01 — Server request framing follows RFC 9112 (no request smuggling).

What is proved here (for every list of field lines): fasthttp's framing decision (Model.parseDecision, mirroring
RequestHeader.parseHeaders + validate, tied to header.go by field-level correspondence) never frames a request
differently from RFC 9112 §6.3 (Spec.Rfc.framingOf), rejects everything the RFC calls invalid, and marks
`connectionClose` whenever the RFC calls the framing ambiguous; and in the serve loop nothing is dispatched after a
request that asked for close.  Partial: the byte-level head scanner and body readers are not modelled here; the
byte-level statement is decided on concrete streams by the reference framer `Spec.Rfc.frame` used as monitor.
-/
import FhVerif.Proofs.ReqFraming
import FhVerif.Proofs.RfcProgress

namespace Fh.Props.C01
open Fh Fh.Model Fh.Spec.Rfc Fh.Proofs.ReqFraming

/-- the scanner's output: validated names (in particular no CR) and OWS-trimmed values -/
def Scanned (fs : List (Bytes × Bytes)) : Prop := ∀ f ∈ fs, (∀ x ∈ f.1, x ≠ 13) ∧ trimWs f.2 = f.2

/- The full statement of C01 quantifies over byte streams: the sequence of requests the server dispatches is a
   prefix of `(Spec.Rfc.frame input).1` (same method, target, body and boundaries) and nothing follows an `ambiguous`
   message.  It is evaluated on every generated stream by the C01 harness against the real server
   (key `dispatch-differs` / `dispatch-beyond-reference-*` / `continued-after-ambiguous`); the theorems below prove the
   decision logic behind it for all field lists. -/

/-- C01 (decision logic): whenever fasthttp accepts a head, its body framing is the one RFC 9112 §6.3 assigns,
    RFC-invalid framing is never accepted, and RFC-ambiguous framing forces `Connection: close`. -/
theorem framing_agrees_partial (noH11 : Bool) (fs : List (Bytes × Bytes)) (hs : Scanned fs) (cl : Int) (close : Bool)
    (h : parseDecision noH11 fs = .ok cl close) :
    match framingOf (!noH11) fs with
    | .invalid => False
    | .noBody => cl = -2
    | .length n amb => (cl = (n : Int) ∨ (n = 0 ∧ cl = -2)) ∧ (amb = true → close = true)
    | .chunked amb => cl = -1 ∧ (amb = true → close = true) := by
  unfold parseDecision at h
  split at h
  · cases h
  · rename_i st hloop
    have hinv := loop_inv noH11 fs {} st [] (inv_init noH11) hs hloop
    simp only [List.nil_append] at hinv
    split at h
    · cases h
    · rename_i hhost
      injection h with hcl hclose
      have hcode := hinv.code
      -- closing flag when the framing is ambiguous
      have hclose_amb : st.teSeen = true → (st.clSeen = true ∨ st.contentLength ≠ -1) → close = true := by
        intro h1 h2
        have hte : tes fs ≠ [] := by
          have := hinv.teSeen; rw [h1] at this
          intro e; rw [e] at this; simp at this
        have hno : noH11 = false := hinv.teH11 hte
        rw [← hclose]
        have : (st.teSeen && (st.clSeen || st.contentLength != -1)) = true := by
          rcases h2 with h2 | h2
          · simp [h1, h2]
          · simp [h1, h2]
        simp [this, hno]
      have hteSeen : tes fs ≠ [] → st.teSeen = true := by
        intro hne; rw [hinv.teSeen]; cases h : tes fs <;> simp_all
      have hclSeen : cls fs ≠ [] → st.clSeen = true := by
        intro hne; rw [hinv.clSeen]; cases h : cls fs <;> simp_all
      rw [framingOf_shape (!noH11) fs hinv.clLen hinv.teLen hinv.teVal hinv.clVal
        (fun hne => by have := hinv.teH11 hne; simp [this])]
      rw [hcl] at hcode
      cases ht : tes fs with
      | nil =>
        cases hc : cls fs with
        | nil => simp [framingShape]; rw [hcode, ht, hc]; simp [clCode]
        | cons v r =>
          simp only [framingShape]
          refine ⟨Or.inl ?_, by simp⟩
          rw [hcode, ht, hc]; simp [clCode]
      | cons t r =>
        have hr : r = [] := by
          have := hinv.teLen; rw [ht] at this
          cases r with
          | nil => rfl
          | cons _ _ => simp at this
        subst hr
        have hts : st.teSeen = true := hteSeen (by rw [ht]; simp)
        simp only [framingShape]
        by_cases hch : lowerB t = chunkedB
        · simp only [hch, if_true]
          refine ⟨?_, ?_⟩
          · rw [hcode, ht]; simp [clCode, hch]
          · intro hamb
            have : cls fs ≠ [] := by intro e; rw [e] at hamb; simp at hamb
            exact hclose_amb hts (Or.inl (hclSeen this))
        · simp only [hch, if_false]
          have hany : List.any [t] (fun t => lowerB t == chunkedB) = false := by simp [hch]
          cases hc : cls fs with
          | nil =>
            simp only []
            have hv : cl = -2 := by rw [hcode, ht, hc]; simp [clCode, hany]
            refine ⟨Or.inr ⟨by simp, hv⟩, fun _ => ?_⟩
            exact hclose_amb hts (Or.inr (by rw [hcl, hv]; decide))
          | cons v r2 =>
            simp only []
            refine ⟨Or.inl ?_, fun _ => ?_⟩
            · rw [hcode, ht, hc]; simp [clCode, hany]
            · exact hclose_amb hts (Or.inl (hclSeen (by rw [hc]; simp)))

/-- RFC-invalid framing (TE on HTTP/1.0, unknown final coding, duplicate or malformed Content-Length, ...) is never accepted -/
theorem invalid_framing_rejected (noH11 : Bool) (fs : List (Bytes × Bytes)) (hs : Scanned fs)
    (hinv : framingOf (!noH11) fs = .invalid) : parseDecision noH11 fs = .reject := by
  cases h : parseDecision noH11 fs with
  | reject => rfl
  | ok cl close =>
    have := framing_agrees_partial noH11 fs hs cl close h
    rw [hinv] at this
    exact absurd this id

/-- ambiguous framing (CL together with TE, a lone `identity`) always carries connectionClose -/
theorem ambiguous_forces_close (noH11 : Bool) (fs : List (Bytes × Bytes)) (hs : Scanned fs) (cl : Int) (close : Bool)
    (h : parseDecision noH11 fs = .ok cl close)
    (hamb : (∃ n, framingOf (!noH11) fs = .length n true) ∨ framingOf (!noH11) fs = .chunked true) :
    close = true := by
  have := framing_agrees_partial noH11 fs hs cl close h
  rcases hamb with ⟨n, hn⟩ | hc
  · rw [hn] at this; exact this.2 rfl
  · rw [hc] at this; exact this.2 rfl

/-! ### the serve loop: nothing is dispatched after a request that asked for close -/

/-- per-request outcome as the loop of serveConnCounted sees it -/
structure ReqOutcome where
  parsedOk : Bool      -- head + body read without error
  close : Bool         -- connectionClose after this request (request header, config, handler, limits)

/-- dispatched request indices: the loop stops at the first parse error or close -/
def dispatched : Nat → List ReqOutcome → List Nat
  | _, [] => []
  | i, r :: rest => if !r.parsedOk then [] else if r.close then [i] else i :: dispatched (i + 1) rest

theorem no_dispatch_after_close (rs : List ReqOutcome) (i k : Nat) (hk : k < rs.length)
    (hclose : (rs.get ⟨k, hk⟩).close = true) : ∀ j ∈ dispatched i rs, j ≤ i + k := by
  induction rs generalizing i k with
  | nil => simp at hk
  | cons r rest ih =>
    intro j hj
    simp only [dispatched] at hj
    split at hj
    · simp at hj
    · split at hj
      · simp at hj; omega
      · rename_i hnc
        cases k with
        | zero => simp at hclose; exact absurd hclose hnc
        | succ k =>
          rcases List.mem_cons.1 hj with h | h
          · omega
          · have := ih (i + 1) k (by simpa using hk) (by simpa using hclose) j h
            omega

/-! ### the byte-level monitor itself: `Spec.Rfc.frame`

The byte-level statement of C01 is decided per stream by the reference framer.  Two facts about the reference that
the monitor relies on, for every input: its verdict is not an artefact of the fuel its loops are given, and the messages
it reports are consecutive, strictly advancing pieces of the stream (no byte is attributed to two messages, none
lies beyond the input). -/

/-- more fuel never changes what the reference framer reports: `input.length + 1` is enough for every input, so
    `.incomplete` always means "the stream ends inside a message", never "out of fuel" -/
theorem reference_fuel_adequate (input : Bytes) (k : Nat) :
    frameLoop (input.length + 1 + k) 0 input [] = frame input :=
  Proofs.RfcProgress.frameLoop_fuel _ _ 0 input [] (by omega) (by omega)

/-- the end offsets of the reported messages are strictly increasing and lie inside the stream -/
theorem reference_messages_advance (input : Bytes) :
    ((frame input).1.map (·.endOff)).Pairwise (· < ·) ∧ ∀ m ∈ (frame input).1, m.endOff ≤ input.length := by
  have := Proofs.RfcProgress.frameLoop_offsets (input.length + 1) 0 input [] input.length (by omega)
    (by intro m hm; cases hm) (by simp)
  simpa [frame] using this

/-- one message of the reference: what is left is strictly shorter than what it started from -/
theorem reference_message_consumes (off : Nat) (input : Bytes) (m : Msg) (rest : Bytes)
    (h : frameOne off input = .msg m rest) : rest.length < input.length ∧ m.endOff = off + (input.length - rest.length) :=
  Proofs.RfcProgress.frameOne_progress off input m rest h

example : ((frame (ofString "GET /a HTTP/1.1\r\nHost: h\r\n\r\nPOST /b HTTP/1.1\r\nHost: h\r\nContent-Length: 2\r\n\r\nhiGET")).1.map
    (·.endOff)) = [28, 78] := by decide +kernel

/-! ### non-vacuity: the decision on concrete heads -/
example : parseDecision false [(ofString "Host", ofString "h"), (ofString "Content-Length", ofString "3"),
    (ofString "Transfer-Encoding", ofString "chunked")] = .ok (-1) true := by decide +kernel
example : parseDecision false [(ofString "Host", ofString "h"), (ofString "Transfer-Encoding", ofString "Identity")] =
    .ok (-2) true := by decide +kernel
example : parseDecision false [(ofString "Host", ofString "h"), (ofString "content-length", ofString "12")] =
    .ok 12 false := by decide +kernel
example : parseDecision true [(ofString "Transfer-Encoding", ofString "chunked")] = .reject := by decide +kernel
example : framingOf true [(ofString "Content-Length", ofString "3"), (ofString "Transfer-Encoding", ofString "chunked")] =
    .chunked true := by decide +kernel

end Fh.Props.C01
