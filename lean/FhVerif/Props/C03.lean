/-
C03 — Server responses are framed exactly as the handler built them.
-/
import FhVerif.Model.RespWrite
import FhVerif.Spec.RespParse
import FhVerif.Proofs.HeaderSet
import FhVerif.Props.C30
import FhVerif.Proofs.BodyOps
import FhVerif.Gen.Facts

namespace Fh.Props.C03
open Fh Fh.Model Fh.Spec Fh.Proofs.HeaderSet Fh.Proofs.Cookie

/-- the head reader on a serialised head followed by anything -/
theorem parseHead_serialize_rest (first : Bytes) (fs : List (Bytes × Bytes)) (h1 : NoNL first)
    (hfs : ∀ kv ∈ fs, NoNL kv.1 ∧ NoNL kv.2) (rest : Bytes) :
    Spec.parseHead (c05Serialize first fs ++ rest) = some ⟨first, fs.map seenField, rest⟩ := by
  unfold Spec.parseHead c05Serialize
  have e : first ++ c05CRLF ++ fs.flatMap (fun kv => c05Line kv.1 kv.2) ++ c05CRLF ++ rest =
      first ++ 13 :: 10 :: (fs.flatMap (fun kv => c05Line kv.1 kv.2) ++ c05CRLF ++ rest) := by
    simp [c05CRLF, List.append_assoc]
  rw [e, readLine_clean first _ h1]
  simp only
  rw [fields_serialized fs hfs rest _ (by
    have := flatMap_len fs
    simp only [List.length_append, c05CRLF, List.length_cons, List.length_nil]; omega)]
  rfl

/-- C03 (framing): a head whose lines are clean, followed by a body of the length its Content-Length field announces,
    followed by anything, is read back by the reference reader as exactly that head and that body, and the reader
    continues exactly at the end of the body. -/
theorem write_parses_back (method first : Bytes) (fs : List (Bytes × Bytes)) (body rest : Bytes) (st : Nat)
    (h1 : NoNL first) (hfs : ∀ kv ∈ fs, NoNL kv.1 ∧ NoNL kv.2)
    (hst : rpStatus first = some st) (hbody : rpNoBody method st = false)
    (hcl : rpContentLength (fs.map seenField) = some body.length) :
    parseResponse method (c05Serialize first fs ++ body ++ rest) = some ⟨first, fs.map seenField, body, rest⟩ := by
  unfold parseResponse
  rw [List.append_assoc, parseHead_serialize_rest first fs h1 hfs (body ++ rest)]
  simp only [hst, hbody, Bool.false_eq_true, if_false, hcl]
  have : ¬ (body ++ rest).length < body.length := by simp
  simp [this]

/-- responses to HEAD and 1xx/204/304 responses are read back without a body, whatever their fields say -/
theorem no_body_for_head_204_304 (method first : Bytes) (fs : List (Bytes × Bytes)) (rest : Bytes) (st : Nat)
    (h1 : NoNL first) (hfs : ∀ kv ∈ fs, NoNL kv.1 ∧ NoNL kv.2)
    (hst : rpStatus first = some st) (hbody : rpNoBody method st = true) :
    parseResponse method (c05Serialize first fs ++ rest) = some ⟨first, fs.map seenField, [], rest⟩ := by
  unfold parseResponse
  rw [parseHead_serialize_rest first fs h1 hfs rest]
  simp [hst, hbody]

/-- Response.Write announces the buffered body's length: after SetContentLength(len body) the header carries the
    field `Content-Length: <decimal len>` -/
theorem content_length_field_present (s : C05Resp) (n : Nat) (h : s.mustSkipCL = false) :
    (Gen.strContentLength, appendUint n) ∈ (s.setContentLength n).fields := by
  unfold C05Resp.setContentLength
  simp only [h, Bool.false_eq_true, if_false]
  have hn : (n : Int) ≥ 0 := Int.natCast_nonneg n
  simp only [hn, if_true, Int.toNat_natCast]
  unfold C05Resp.fields
  have hne : (appendUint n).isEmpty = false := by
    have := (Props.C30.appendUint_spec n).1
    cases h : appendUint n <;> simp_all
  simp [hne]

/-- the decimal rendering is read back as the same number by the reference reader -/
theorem content_length_value_roundtrip (n : Nat) :
    (!(appendUint n).isEmpty && (appendUint n).all rpIsDigit) = true ∧ rpNat (appendUint n) = n := by
  obtain ⟨h1, h2, h3⟩ := Props.C30.appendUint_spec n
  have hd : (appendUint n).all rpIsDigit = true := by
    rw [List.all_eq_true] at h2 ⊢
    intro c hc
    have := h2 c hc
    simp only [Spec.isDigitB, decide_eq_true_eq] at this
    simp only [rpIsDigit, Bool.and_eq_true, decide_eq_true_eq]
    exact ⟨by simpa [UInt8.le_iff_toNat_le] using this.1, by simpa [UInt8.le_iff_toNat_le] using this.2⟩
  have hne : (appendUint n).isEmpty = false := by cases h : appendUint n <;> simp_all
  refine ⟨by simp [hne, hd], ?_⟩
  have := h3 0
  simp only [Nat.zero_mul, Nat.zero_add] at this
  have e : rpNat (appendUint n) = Spec.decFrom 0 (appendUint n) := by
    unfold rpNat Spec.decFrom; congr 1
  rw [e, this]

/-! ### body streams with a declared size -/

def C03_full_stream : Prop :=
  ∀ (declared : Nat) (stream : Bytes), (writeBodyFixedSize declared stream).1.length ≤ declared

/-- the unrepaired defect (KNOWN_FINDINGS: stream-longer-than-declared): a stream longer than its declared size is
    copied in full -/
theorem stream_longer_counterexample : ¬ C03_full_stream := by
  intro h
  have := h 1 [115, 115, 115]
  simp [writeBodyFixedSize] at this

/-- streams that are not longer than declared never exceed it, and any size mismatch is reported (connection closed) -/
theorem stream_never_exceeds_declared_partial (declared : Nat) (stream : Bytes) (h : stream.length ≤ declared) :
    (writeBodyFixedSize declared stream).1.length ≤ declared ∧
    ((writeBodyFixedSize declared stream).2 = true ↔ stream.length ≠ declared) := by
  simp [writeBodyFixedSize, h]

/-! ### bodies built in several steps through the body API -/

open Fh.Model.BodyOps in
/-- C03 (body): whatever sequence of body operations a handler performs on a fresh Response, the bytes sent as the body
    are the body the handler built, in the reading a handler author has (`absStep`): the last replacement, extended by
    the appends after it. -/
theorem body_sent_is_body_built (ops : List Op) : sent (BodyOps.run init ops) = (absRun absInit ops).cur :=
  (Proofs.BodyOps.bodyRel_run ops init absInit (by simp [Proofs.BodyOps.BodyRel, init, absInit, sent])).1

open Fh.Model.BodyOps in
/-- a raw body or a stream never has an earlier buffered body underneath it (which a later append would resurrect) -/
theorem raw_or_stream_has_empty_buffer (ops : List Op) :
    ((BodyOps.run init ops).raw.isSome ∨ (BodyOps.run init ops).stream.isSome) → (BodyOps.run init ops).body = [] := by
  have inv : ∀ (ops : List Op) (s : RB), ((s.raw.isSome ∨ s.stream.isSome) → s.body = []) →
      (((BodyOps.run s ops).raw.isSome ∨ (BodyOps.run s ops).stream.isSome) → (BodyOps.run s ops).body = []) := by
    intro ops
    induction ops with
    | nil => intro s h; simpa [BodyOps.run] using h
    | cons op ops ih =>
      intro s h
      have : ((step s op).raw.isSome ∨ (step s op).stream.isSome) → (step s op).body = [] := by
        cases op <;> simp [step, resetBody]
      simpa [BodyOps.run] using ih _ this
  exact inv ops init (by simp [init])

open Fh.Model.BodyOps in
/-- the last replacement wins: after `SetBody b` followed only by appends, exactly `b` and the appended pieces are sent,
    whatever was done to the response before -/
theorem last_set_then_appends (before : List Op) (b : Bytes) (pieces : List Bytes) :
    sent (BodyOps.run init (before ++ Op.set b :: pieces.map Op.app)) = b ++ pieces.flatten := by
  have happ : ∀ (pieces : List Bytes) (s : RB), s.raw = none → s.stream = none →
      sent (BodyOps.run s (pieces.map Op.app)) = s.body ++ pieces.flatten := by
    intro pieces
    induction pieces with
    | nil => intro s hr hs; simp [BodyOps.run, sent, hr, hs]
    | cons p ps ih =>
      intro s hr hs
      have := ih (step s (.app p)) (by simp [step]) (by simp [step])
      simpa [BodyOps.run, step, List.append_assoc] using this
  have : BodyOps.run init (before ++ Op.set b :: pieces.map Op.app) =
      BodyOps.run (step (BodyOps.run init before) (.set b)) (pieces.map Op.app) := by
    simp [BodyOps.run, List.foldl_append]
  rw [this, happ pieces _ (by simp [step]) (by simp [step])]
  simp [step]

/-- regenerated from /repo (extract/effects_c03.go): the Response body methods do what `Model.BodyOps.step` and `sent`
    assume — Set* and Append* close a stream and go through `bodyBuffer()`, which drops the raw body; SetBodyRaw and
    SetBodyStream start with `ResetBody()`, which drops raw body, stream and buffer contents; `bodyBytes()` prefers the
    raw body to the buffer.  A rewrite of any of these methods breaks this obligation (the step sequences run by the
    harness then look for a failing input). -/
theorem body_methods_have_modelled_shape :
    Gen.effects_Response_SetBody = ["call:closeBodyStream", "call:bodyBuffer", "local:bodyBuf.Reset", "local:bodyBuf.Write"] ∧
    Gen.effects_Response_SetBodyString = ["call:closeBodyStream", "call:bodyBuffer", "local:bodyBuf.Reset", "local:bodyBuf.WriteString"] ∧
    Gen.effects_Response_AppendBody = ["call:closeBodyStream", "onresult:Write", "call:bodyBuffer"] ∧
    Gen.effects_Response_AppendBodyString = ["call:closeBodyStream", "onresult:WriteString", "call:bodyBuffer"] ∧
    Gen.effects_Response_ResetBody = ["set:bodyRaw=nil", "call:closeBodyStream", "if:resp.body != nil", "if:resp.keepBodyBuffer",
      "other:resp.body.Reset", "local:responseBodyPool.Put", "set:body=nil"] ∧
    Gen.effects_Response_SetBodyRaw = ["call:ResetBody", "set:bodyRaw=body"] ∧
    Gen.effects_Response_SetBodyStream = ["call:ResetBody", "set:bodyStream=bodyStream", "other:resp.Header.SetContentLength"] ∧
    Gen.effects_Response_bodyBuffer = ["if:resp.body == nil", "set:body=responseBodyPool.Get()", "local:responseBodyPool.Get",
      "set:bodyRaw=nil", "return:resp.body"] ∧
    Gen.effects_Response_bodyBytes = ["if:resp.bodyRaw != nil", "return:resp.bodyRaw", "if:resp.body == nil", "return:nil",
      "return:resp.body.B"] := by decide

/-! non-vacuity: a raw body over a buffered one, then an append -/
example : Model.BodyOps.sent (Model.BodyOps.run Model.BodyOps.init
    [.set (ofString "first draft. "), .raw (ofString "RAW"), .app (ofString "tail")]) = ofString "tail" := by decide +kernel
example : Model.BodyOps.sent (Model.BodyOps.run Model.BodyOps.init
    [.app (ofString "a"), .stream (ofString "S"), .rawNil, .app (ofString "b"), .app (ofString "c")]) = ofString "bc" := by
  decide +kernel

/-! non-vacuity -/
example : parseResponse (ofString "GET") (ofString "HTTP/1.1 200 OK\r\nContent-Length: 2\r\n\r\nhiNEXT") =
    some ⟨ofString "HTTP/1.1 200 OK", [(ofString "Content-Length", ofString "2")], ofString "hi", ofString "NEXT"⟩ := by
  decide +kernel

end Fh.Props.C03
