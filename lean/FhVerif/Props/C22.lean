/-
C22 — Compression is transparent at every level of load.
Property theorems only (helpers in Proofs/CompressC22.lean).

`c : Codecs` are the third-party codecs with their round-trip laws as hypothesis FIELDS (`c.roundtrip`,
`c.roundtripStream`) — the residue of this property (level: proof, partial).  Everything fasthttp itself decides is
proved: which coding is chosen, when nothing is compressed, the Vary header, and that a compression call which
returned had its job run exactly once whatever the load on the stackless worker queue.
-/
import FhVerif.Proofs.CompressC22

namespace Fh.Props.C22
open Fh Fh.Model.C22 Fh.Proofs.CompressC22

/-! ### regenerated structural facts -/

/-- every user of the stackless queue (stacklessWriteGzip/Deflate/Brotli/Zstd, (*writer).do) runs the job on the
    caller's goroutine when the queue is full; the queue capacity is GOMAXPROCS * 2048; the preference order of the
    two handler wrappers.  Re-checked against /repo on every run. -/
theorem call_sites_run_inline_when_full :
    Gen.stacklessInlineOnFull = true ∧ Gen.stacklessWriterDoInline = true ∧
    Gen.stacklessSites.all (fun s => s.2.1 && s.2.2) = true ∧ Gen.stacklessSites.length = 4 ∧
    Gen.stacklessQueueFactor = 2048 ∧
    Gen.compressHandlerOrder = ["strGzip", "strDeflate", "strZstd"] ∧
    Gen.compressHandlerBrotliOrder = ["strBr", "strGzip", "strDeflate", "strZstd"] := by decide

/-- regenerated fact: when the queue is full `(*writer).do` runs the operation on the caller's goroutine WHATEVER the
    operation — Reset (re-acquiring a pooled stackless writer) is an operation like Write, Flush and Close; in the queue
    model every `do` is one call, so `append_roundtrip_any_schedule` covers it only under this fact -/
theorem writer_fallback_is_op_independent : Gen.stacklessWriterDoUniform = true := by decide

theorem kindOfName_name (k : Kind) : kindOfName k.name = some k := by cases k <;> decide
theorem kindOfName_nil : kindOfName [] = none := by decide

/-! ### the handler wrappers -/

/-- one body compressor: the peer decodes the result to what it would have obtained from the handler's response -/
theorem compressBody_transparent (c : Codecs) (k : Kind) (level : Int) (h : Resp) :
    decodeResp c (compressBody c k level h) = decodeResp c h := by
  unfold compressBody
  split
  · rfl
  · rename_i hce
    have hce' : h.ce = [] := by simpa using hce
    split
    · rfl
    · cases hb : h.body with
      | stream reads =>
        simp only [decodeResp, kindOfName_name, hce', kindOfName_nil, Body.bytes, hb]
        simp [c.roundtripStream]
      | buf b =>
        simp only
        split
        · rfl
        · simp only [decodeResp, kindOfName_name, hce', kindOfName_nil, Body.bytes, hb]
          simp [c.roundtrip]
      | raw b =>
        simp only
        split
        · rfl
        · simp only [decodeResp, kindOfName_name, hce', kindOfName_nil, Body.bytes, hb]
          simp [c.roundtrip]

/-- C22: for any body (buffered or streamed), level and Accept-Encoding, the CompressHandlerLevel response decodes,
    per the Content-Encoding it declares, to exactly what the wrapped handler's response decodes to … -/
theorem response_decodes_to_handler_body (c : Codecs) (level : Int) (ae : Bytes) (h : Resp) :
    decodeResp c (compressHandlerLevel c level ae h) = decodeResp c h := by
  unfold compressHandlerLevel
  split
  · exact compressBody_transparent c _ level h
  · rfl

theorem response_decodes_to_handler_body_brotli (c : Codecs) (bl ol : Int) (ae : Bytes) (h : Resp) :
    decodeResp c (compressHandlerBrotliLevel c bl ol ae h) = decodeResp c h := by
  unfold compressHandlerBrotliLevel
  split
  · exact compressBody_transparent c _ bl h
  · exact compressBody_transparent c _ ol h
  · rfl

/-- … in particular to exactly the handler's body bytes when the handler did not encode the body itself. -/
theorem response_decodes_to_plain_handler_body (c : Codecs) (bl ol : Int) (ae : Bytes) (h : Resp) (hce : h.ce = []) :
    decodeResp c (compressHandlerLevel c ol ae h) = some h.body.bytes ∧
    decodeResp c (compressHandlerBrotliLevel c bl ol ae h) = some h.body.bytes := by
  rw [response_decodes_to_handler_body, response_decodes_to_handler_body_brotli]
  simp [decodeResp, hce, kindOfName_nil]

theorem compressBody_ce (c : Codecs) (k : Kind) (level : Int) (h : Resp) :
    (compressBody c k level h).ce = h.ce ∨
    ((compressBody c k level h).ce = k.name ∧ h.ce = [] ∧ (compressBody c k level h).vary = addVary h.vary) := by
  unfold compressBody
  split
  · exact Or.inl rfl
  · rename_i hce
    have hce' : h.ce = [] := by simpa using hce
    split
    · exact Or.inl rfl
    · cases hb : h.body with
      | stream reads => exact Or.inr ⟨rfl, hce', rfl⟩
      | buf b =>
        simp only
        split
        · exact Or.inl rfl
        · exact Or.inr ⟨rfl, hce', rfl⟩
      | raw b =>
        simp only
        split
        · exact Or.inl rfl
        · exact Or.inr ⟨rfl, hce', rfl⟩

theorem pickKind_accepts (order : List String) (ae : Bytes) (k : Kind) (h : pickKind order ae = some k) :
    hasAcceptEncoding ae k.name = true := by
  unfold pickKind at h
  split at h
  · rename_i k' hf
    injection h with h; subst h
    have := List.find?_some hf
    simpa using this
  · cases h

/-- a list element of a comma-separated field value: delimited by commas (or the ends), containing none -/
def IsElement (e s : Bytes) : Prop :=
  ∃ l r, s = l ++ e ++ r ∧ (l = [] ∨ l.getLast? = some 44) ∧ (r = [] ∨ r.head? = some 44) ∧ (44 : UInt8) ∉ e

/-- what HasAcceptEncodingBytes = true means: the coding name ends a list element of the request's Accept-Encoding
    value — hence carries NO parameters, in particular no `;q=0` — and is preceded, inside that element, by nothing
    or by a space -/
theorem hasAcceptEncoding_meaning (ae name : Bytes) (hn : (44 : UInt8) ∉ name)
    (h : hasAcceptEncoding ae name = true) :
    ∃ e w, IsElement e ae ∧ e = w ++ name ∧ (w = [] ∨ w.getLast? = some 32) := by
  unfold hasAcceptEncoding at h
  split at h
  · cases h
  · rename_i pre post hs
    have hsplit := splitFirst_eq name ae pre post hs
    simp only [Bool.and_eq_true, Bool.or_eq_true, beq_iff_eq, List.isEmpty_iff] at h
    obtain ⟨hpost, hpre⟩ := h
    obtain ⟨l, w, hlw, hl, hw⟩ := split_last_comma pre
    refine ⟨w ++ name, w, ⟨l, post, ?_, hl, hpost, ?_⟩, rfl, ?_⟩
    · rw [hsplit, hlw]; simp
    · simp only [List.mem_append, not_or]; exact ⟨hw, hn⟩
    · by_cases hwe : w = []
      · exact Or.inl hwe
      · right
        rcases hpre with hpre | hpre
        · subst hpre
          have : w = [] := by
            have := congrArg List.length hlw; simp at this; exact List.eq_nil_of_length_eq_zero (by omega)
          exact absurd this hwe
        · rw [hlw, List.getLast?_append] at hpre
          cases hg : w.getLast? with
          | none => exact absurd (List.getLast?_eq_none_iff.mp hg) hwe
          | some x => rw [hg] at hpre; simpa using hpre

/-- C22: the response uses only an encoding the request accepts: whenever a handler wrapper changes the
    Content-Encoding, the new coding is one of gzip/deflate/br/zstd and `HasAcceptEncodingBytes` holds for it, i.e.
    (`hasAcceptEncoding_meaning`) it is listed in the request's Accept-Encoding without parameters. -/
theorem encoding_is_accepted (c : Codecs) (bl ol : Int) (ae : Bytes) (h : Resp) :
    (∀ out, out = compressHandlerLevel c ol ae h ∨ out = compressHandlerBrotliLevel c bl ol ae h → out.ce ≠ h.ce →
      ∃ k : Kind, out.ce = k.name ∧ hasAcceptEncoding ae k.name = true ∧
        ∃ e w, IsElement e ae ∧ e = w ++ k.name ∧ (w = [] ∨ w.getLast? = some 32)) := by
  intro out hout hne
  have key : ∀ (order : List String) (k : Kind) (lvl : Int), pickKind order ae = some k →
      out = compressBody c k lvl h →
      ∃ k : Kind, out.ce = k.name ∧ hasAcceptEncoding ae k.name = true ∧
        ∃ e w, IsElement e ae ∧ e = w ++ k.name ∧ (w = [] ∨ w.getLast? = some 32) := by
    intro order k lvl hp ho
    have hacc := pickKind_accepts order ae k hp
    rcases compressBody_ce c k lvl h with hs | ⟨hk, _, _⟩
    · exact absurd (ho ▸ hs) hne
    · exact ⟨k, ho ▸ hk, hacc, hasAcceptEncoding_meaning ae k.name (by cases k <;> decide) hacc⟩
  rcases hout with hout | hout
  · unfold compressHandlerLevel at hout
    split at hout
    · rename_i k hp; exact key _ k ol hp hout
    · exact absurd (hout ▸ rfl) hne
  · unfold compressHandlerBrotliLevel at hout
    split at hout
    · rename_i hp; exact key _ .br bl hp hout
    · rename_i k _ hp; exact key _ k ol hp hout
    · exact absurd (hout ▸ rfl) hne

/-- C22: a body the handler already encoded (any non-empty Content-Encoding) is never compressed again: the
    response is passed through untouched -/
theorem never_compressed_twice (c : Codecs) (bl ol : Int) (ae : Bytes) (h : Resp) (hce : h.ce ≠ []) :
    compressHandlerLevel c ol ae h = h ∧ compressHandlerBrotliLevel c bl ol ae h = h := by
  have hb : ∀ k lvl, compressBody c k lvl h = h := by
    intro k lvl; unfold compressBody
    have : (!h.ce.isEmpty) = true := by cases hc : h.ce <;> simp_all
    simp [this]
  constructor
  · unfold compressHandlerLevel; split <;> simp [hb]
  · unfold compressHandlerBrotliLevel; split <;> simp [hb]

/-- … and stacked handler wrappers compress once: applying a wrapper to its own output changes nothing -/
theorem compress_idempotent (c : Codecs) (ol : Int) (ae : Bytes) (h : Resp) :
    compressHandlerLevel c ol ae (compressHandlerLevel c ol ae h) = compressHandlerLevel c ol ae h := by
  have hb : ∀ k, compressBody c k ol (compressBody c k ol h) = compressBody c k ol h := by
    intro k
    have hkn : k.name ≠ [] := by cases k <;> decide
    by_cases h1 : h.ce = []
    · by_cases h2 : isCompressibleContentType h.ct = true
      · cases hbd : h.body with
        | stream reads =>
          have e1 : compressBody c k ol h =
              { h with clen := -1, body := .stream [c.encStream k ol reads], ce := k.name, vary := addVary h.vary } := by
            simp [compressBody, h1, h2, hbd]
          rw [e1]
          simp [compressBody, hkn]
        | buf b =>
          by_cases h3 : b.length < Gen.minCompressLen
          · have e1 : compressBody c k ol h = h := by simp [compressBody, h1, h2, hbd, h3]
            rw [e1, e1]
          · have e1 : compressBody c k ol h =
                { h with body := .buf (c.enc k ol b), ce := k.name, vary := addVary h.vary } := by
              simp [compressBody, h1, h2, hbd, h3]
            rw [e1]
            simp [compressBody, hkn]
        | raw b =>
          by_cases h3 : b.length < Gen.minCompressLen
          · have e1 : compressBody c k ol h = h := by simp [compressBody, h1, h2, hbd, h3]
            rw [e1, e1]
          · have e1 : compressBody c k ol h =
                { h with body := .buf (c.enc k ol b), ce := k.name, vary := addVary h.vary } := by
              simp [compressBody, h1, h2, hbd, h3]
            rw [e1]
            simp [compressBody, hkn]
      · have e1 : compressBody c k ol h = h := by simp [compressBody, h1, h2]
        rw [e1, e1]
    · have e1 : compressBody c k ol h = h := by simp [compressBody, h1]
      rw [e1, e1]
  unfold compressHandlerLevel
  split
  · exact hb _
  · rfl

/-- C22: a response whose Content-Encoding a wrapper set carries `Vary` with `Accept-Encoding` as a list member -/
theorem vary_when_compressed (c : Codecs) (bl ol : Int) (ae : Bytes) (h : Resp) :
    ∀ out, out = compressHandlerLevel c ol ae h ∨ out = compressHandlerBrotliLevel c bl ol ae h → out.ce ≠ h.ce →
      listHasMember out.vary Gen.strAcceptEncoding = true := by
  intro out hout hne
  have key : ∀ (k : Kind) (lvl : Int), out = compressBody c k lvl h →
      listHasMember out.vary Gen.strAcceptEncoding = true := by
    intro k lvl ho
    rcases compressBody_ce c k lvl h with hs | ⟨_, _, hv⟩
    · exact absurd (ho ▸ hs) hne
    · rw [ho, hv]; exact addVary_has_member h.vary
  rcases hout with hout | hout
  · unfold compressHandlerLevel at hout
    split at hout
    · exact key _ ol hout
    · exact absurd (hout ▸ rfl) hne
  · unfold compressHandlerBrotliLevel at hout
    split at hout
    · exact key _ bl hout
    · exact key _ ol hout
    · exact absurd (hout ▸ rfl) hne

/-! ### buffered bodies: the compressed bytes are what EVERY body accessor yields afterwards -/

/-- regenerated fact: each of gzipBody/deflateBody/brotliBody/zstdBody clears resp.bodyRaw (itself or in a Response
    method it calls) when it swaps in the compressed buffer — bodyBytes() prefers bodyRaw -/
theorem compress_clears_body_raw :
    Gen.compressBodyClearsRaw.length = 4 ∧ Gen.compressBodyClearsRaw.all (·.2) = true := by decide

/-- whenever a body compressor sets the Content-Encoding of a non-stream response, the response no longer has a raw body:
    the body is the buffer holding `enc` of the former `bodyBytes()`, whichever API the handler had used (SetBodyRaw
    included) -/
theorem compressed_body_replaces_raw (c : Codecs) (k : Kind) (level : Int) (h : Resp)
    (hchg : (compressBody c k level h).ce ≠ h.ce) (hns : ∀ reads, h.body ≠ .stream reads) :
    (compressBody c k level h).body = .buf (c.enc k level h.body.bytes) ∧
    ∀ b, (compressBody c k level h).body ≠ .raw b := by
  have key : (compressBody c k level h).body = .buf (c.enc k level h.body.bytes) := by
    unfold compressBody at hchg ⊢
    by_cases h1 : (!h.ce.isEmpty) = true
    · simp [h1] at hchg
    · by_cases h2 : (!isCompressibleContentType h.ct) = true
      · simp [h1, h2] at hchg
      · cases hb : h.body with
        | stream reads => exact absurd hb (hns reads)
        | buf b =>
          by_cases h3 : b.length < Gen.minCompressLen
          · simp [h1, h2, hb, h3] at hchg
          · simp [h1, h2, hb, h3, Body.bytes]
        | raw b =>
          by_cases h3 : b.length < Gen.minCompressLen
          · simp [h1, h2, hb, h3] at hchg
          · simp [h1, h2, hb, h3, Body.bytes]
  exact ⟨key, fun b hb => by rw [key] at hb; cases hb⟩

/-! ### streamed bodies: nothing a stream delivers is lost on the way to the compressor -/

/-- regenerated facts: each of the four streamed compressors copies through `copyBodyStream` and has no Read loop of its
    own; `copyBodyStream` reads only through `copyBuffer` (directly or via `copyZeroAlloc`); and `copyBuffer` handles the
    `nr > 0` bytes of a Read before its error. -/
theorem stream_copy_respects_reader_contract :
    Gen.compressStreamCopies.length = 4 ∧
    Gen.compressStreamCopies.all (fun f => f.2.1 && !f.2.2.2 &&
      f.2.2.1.all (fun g => decide (g ∈ ["copyBodyStream",
        "acquireStacklessGzipWriter", "releaseStacklessGzipWriter", "acquireStacklessDeflateWriter", "releaseStacklessDeflateWriter",
        "acquireStacklessBrotliWriter", "releaseStacklessBrotliWriter", "acquireStacklessZstdWriter", "releaseStacklessZstdWriter"]))) = true ∧
    Gen.calls_copyBodyStream = ["copyBuffer", "copyZeroAlloc"] ∧ Gen.calls_copyZeroAlloc = ["copyBuffer"] ∧
    Gen.copyBufferReadBeforeErr = true := by decide

/-- the copy loop delivers EVERY byte of a stream that ends with io.EOF — whether the final bytes come together with
    io.EOF (`last ≠ []`) or io.EOF comes alone (`last = []`), whatever the sizes of the Reads (1 byte, 0 bytes, …) —
    and reports no error; these are the `reads` the model hands to `Codecs.encStream`. -/
theorem copy_delivers_all_bytes (pre : List Bytes) (last : Bytes) :
    copyBuffer (pre.map (fun d => (d, RdErr.none)) ++ [(last, RdErr.eof)]) = (pre.flatten ++ last, false) := by
  induction pre with
  | nil => rfl
  | cons d t ih => simp [copyBuffer, ih, List.append_assoc]

/-- a Read error other than io.EOF ends the copy after the bytes that came with it, and is reported -/
theorem copy_reports_read_error (pre : List Bytes) (last : Bytes) (rest : List (Bytes × RdErr)) :
    copyBuffer (pre.map (fun d => (d, RdErr.none)) ++ (last, RdErr.fail) :: rest) = (pre.flatten ++ last, true) := by
  induction pre with
  | nil => rfl
  | cons d t ih => simp [copyBuffer, ih, List.append_assoc]

/-! ### a failed destination write leaves nothing behind in a pooled stackless writer -/

/-- regenerated facts: `(*writer).do` reaches `w.xw.Reset()` after the destination write on every path (no return in
    between), and `(*writer).Reset` empties the staging buffer too -/
theorem staging_buffer_is_always_cleared :
    Gen.stacklessDoAlwaysClearsStaging = true ∧ Gen.stacklessResetClearsStaging = true := by decide

theorem swFold_staging (ops : List SWOp) : ∀ s : SWSt, s.staging = [] → (ops.foldl swStep s).staging = [] := by
  induction ops with
  | nil => intro s h; exact h
  | cons o t ih => intro s _; exact ih _ (by cases o <;> rfl)

/-- after ANY history of operations — destination writes that succeeded or failed, re-acquisitions — the staging buffer
    is empty, so the next operation hands the destination exactly what the compressor produced for THAT operation:
    nothing of an earlier (failed) response can precede the next body -/
theorem failed_write_leaves_nothing_behind (history : List SWOp) (produced : Bytes) :
    (swRun history).staging = [] ∧
    (swStep (swStep (swRun history) .reset) (.run produced true)).dst = produced := by
  have h := swFold_staging history {} rfl
  exact ⟨h, by simp [swStep]⟩

/-! ### Append*/Write* under any load -/

/-- the general form: whatever the call sites do with a full queue, as long as either they run the job inline or no
    call ever met a full queue, every returned call's job ran exactly once -/
theorem returned_call_ran_once (inl : Bool) (cap workers : Nat) (evs : List QEv) (s : QSt)
    (hg : inl = true ∨ hasFull evs = false) (hrun : qrun inl cap workers {} evs = some s)
    (id : Nat) (hret : id ∈ s.returned) : s.executed.count id = 1 := by
  have hinv := qrun_inv inl cap workers evs {} s qinv_init hg hrun
  rw [hinv.exec id]; simp [hret]

/-- C22: for EVERY schedule — any interleaving of submissions, full-queue rejections, worker pick-ups and
    completions, for any queue capacity and any number of workers — every Append*/Write* call that has returned
    wrote `enc p` (exactly once), so its output decodes to `p`.  Uses the regenerated fact that the call sites of
    /repo run the job inline when the queue is full. -/
theorem append_roundtrip_any_schedule (c : Codecs) (k : Kind) (lvl : Int) (payload : Nat → Bytes)
    (cap workers : Nat) (evs : List QEv) (s : QSt)
    (hrun : qrun Gen.stacklessInlineOnFull cap workers {} evs = some s) (id : Nat) (hret : id ∈ s.returned) :
    output (c.enc k lvl) (payload id) s id = c.enc k lvl (payload id) ∧
    c.dec k (output (c.enc k lvl) (payload id) s id) = some (payload id) := by
  have h1 := returned_call_ran_once Gen.stacklessInlineOnFull cap workers evs s
    (Or.inl call_sites_run_inline_when_full.1) hrun id hret
  have ho : output (c.enc k lvl) (payload id) s id = c.enc k lvl (payload id) := by
    simp [output, h1]
  exact ⟨ho, by rw [ho]; exact c.roundtrip k lvl _⟩

/-- The defect that was repaired (call sites dropping the `false` of a full queue): in that semantics a call returns
    although its job never ran — the output is empty. Kept as the documented counterexample; the witness schedule is
    the replay of the finding (one worker busy, queue of capacity 1 full, third call rejected). -/
theorem queue_full_counterexample :
    ¬ (∀ (cap workers : Nat) (evs : List QEv) (s : QSt) (id : Nat),
        qrun false cap workers {} evs = some s → id ∈ s.returned → s.executed.count id = 1) := by
  intro h
  have := h 1 1 [.submit 0, .take 0, .submit 1, .full 2]
    { queue := [1], running := [0], finished := [], executed := [], returned := [2] } 2 (by decide) (by decide)
  revert this; decide

/-- what held of the unrepaired call sites: round trip as long as no call met a full queue -/
theorem append_roundtrip_partial (c : Codecs) (k : Kind) (lvl : Int) (payload : Nat → Bytes)
    (cap workers : Nat) (evs : List QEv) (s : QSt) (hnofull : hasFull evs = false)
    (hrun : qrun false cap workers {} evs = some s) (id : Nat) (hret : id ∈ s.returned) :
    c.dec k (output (c.enc k lvl) (payload id) s id) = some (payload id) := by
  have h1 := returned_call_ran_once false cap workers evs s (Or.inr hnofull) hrun id hret
  have ho : output (c.enc k lvl) (payload id) s id = c.enc k lvl (payload id) := by
    simp [output, h1]
  rw [ho]; exact c.roundtrip k lvl _

/-! ### non-vacuity -/

/-- a toy codec satisfying the hypothesis fields (shows the structure is inhabited: the theorems are not vacuous) -/
def toyCodecs : Codecs where
  enc := fun _ _ x => 1 :: x
  encStream := fun _ _ xs => 1 :: xs.flatten
  dec := fun _ y => match y with | 1 :: x => some x | _ => none
  roundtrip := by intros; rfl
  roundtripStream := by intros; rfl

def big : Bytes := List.replicate 200 97
def htmlResp (b : Body) : Resp := ⟨[], ofString "text/html", [], 0, b⟩

example : (compressHandlerLevel toyCodecs 6 (ofString "gzip") (htmlResp (.raw big))).body = .buf (1 :: big) := by decide +kernel
example : (swRun [.run [1, 2] false, .reset, .run [3] true]).dst = [3] := by decide
example : copyBuffer [([1], .none), ([], .none), ([2, 3], .eof)] = ([1, 2, 3], false) := by decide
example : hasAcceptEncoding (ofString "deflate, gzip") Gen.strGzip = true := by decide +kernel
example : hasAcceptEncoding (ofString "gzip;q=0") Gen.strGzip = false := by decide +kernel
example : hasAcceptEncoding (ofString "xgzip") Gen.strGzip = false := by decide +kernel
example : hasAcceptEncoding (ofString "identity,gzip") Gen.strGzip = false := by decide +kernel
example : (compressHandlerLevel toyCodecs 6 (ofString "gzip, br") (htmlResp (.buf big))).ce = Gen.strGzip := by decide +kernel
example : (compressHandlerBrotliLevel toyCodecs 4 6 (ofString "gzip, br") (htmlResp (.buf big))).ce = Gen.strBr := by decide +kernel
example : (compressHandlerLevel toyCodecs 6 (ofString "gzip") (htmlResp (.buf (big.take 199)))).ce = [] := by decide +kernel
example : (compressHandlerLevel toyCodecs 6 (ofString "gzip") (htmlResp (.stream [[1], [2]]))).body = .stream [[1, 1, 2]] := by decide +kernel
example : (compressHandlerLevel toyCodecs 6 (ofString "gzip") { htmlResp (.buf big) with vary := ofString "Origin" }).vary
    = ofString "Origin,Accept-Encoding" := by decide +kernel
example : addVary (ofString "X-Accept-Encoding-Like") = ofString "X-Accept-Encoding-Like,Accept-Encoding" := by decide +kernel
example : addVary (ofString "Origin, accept-encoding") = ofString "Origin, accept-encoding" := by decide +kernel
-- a schedule in which a call meets a full queue and still returns with its job done (inline)
example : (qrun true 1 1 {} [.submit 0, .take 0, .submit 1, .full 2, .done 0, .ret 0]).map
    (fun s => (s.returned, s.executed)) = some ([0, 2], [0, 2]) := by decide +kernel

end Fh.Props.C22
