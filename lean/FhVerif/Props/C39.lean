/-
C39 — Prefork keeps its children supervised and never orphans them.
Property theorems only (the invariant and its preservation are in Proofs/Prefork.lean).

Every theorem quantifies over ARBITRARY event lists of the transition system `Model.Prefork.step` started in
`State.init G T backoffOn`, i.e. over every interleaving of the master goroutine, the per-child `startWait`
goroutines and the environment (children exiting at any moment, spawn failures, hook errors, the grace timer firing
or not), for every GOMAXPROCS `G`, RecoverThreshold `T` and RecoverInterval zero / positive.

Residue (not provable here, named in the evidence): the kernel really delivers SIGTERM/SIGKILL and really does not
hand out the same pid twice during one call; real time (the timers fire after the configured durations).
-/
import FhVerif.Proofs.Prefork

namespace Fh.Props.C39
open Fh Fh.Model.Prefork Fh.Proofs.Prefork

/-- the invariant holds in every reachable state -/
private theorem reach_inv {G T : Nat} {b : Bool} {evs : List Ev} {s : State}
    (hr : run (State.init G T b) evs = some s) : Proofs.Prefork.Inv s :=
  inv_run evs _ s (inv_init G T b) hr

private theorem run_G (evs : List Ev) (s s' : State) (h : run s evs = some s') : s'.G = s.G ∧ s'.T = s.T :=
  ⟨(run_frame evs s s' h).1, (run_frame evs s s' h).2.1⟩

/-- **Fleet size.**  Whenever the supervision loop waits for the next exit, `childProcs` holds exactly GOMAXPROCS
    children (each of them alive, or dead with its restart pending: its exit is still in the backoff / in `sigCh`),
    and every exit counted so far was answered by exactly one replacement. -/
theorem fleet_size (G T : Nat) (b : Bool) (evs : List Ev) (s : State)
    (hr : run (State.init G T b) evs = some s) (hw : s.pc = .waiting) :
    live s = G ∧ s.kids.length = G + s.exited ∧ s.recovered = s.exited ∧ s.exited ≤ T := by
  have hp := (reach_inv hr).pcI
  obtain ⟨hG, hT⟩ := run_G evs _ s hr
  simp only [State.init] at hG hT
  unfold PcInv at hp
  rw [hw] at hp
  simp only [PcP] at hp
  omega

/-- A child is removed from `childProcs` only after its process was reaped (`cmd.Wait` returned), and with a
    positive RecoverInterval only after its backoff timer fired. -/
theorem reported_child_was_reaped (G T : Nat) (b : Bool) (evs : List Ev) (s : State)
    (hr : run (State.init G T b) evs = some s) (i : Nat) (c : Child) (hc : s.kids[i]? = some c) :
    (c.delivered = true → c.proc = .reaped ∧ (b = true → c.backedOff = true)) ∧
    (c.reported = true → c.delivered = true) := by
  have hk := (reach_inv hr).kid i c hc
  have hb : s.backoffOn = b := (run_frame evs _ s hr).2.2
  refine ⟨fun hd => ⟨?_, fun hbt => hk.backoff (by rw [hb]; exact hbt) (Or.inr hd)⟩, hk.rep_deliv⟩
  have hw := hk.deliv_done hd
  cases hp : c.proc with
  | reaped => rfl
  | alive => have := hk.wproc.mpr (by rw [hp]; simp); rw [hw] at this; cases this
  | zombie => have := hk.wproc.mpr (by rw [hp]; simp); rw [hw] at this; cases this

/-- **Restart until the threshold.**  While fewer than RecoverThreshold exits have been counted, the loop answers the
    next reported exit by a recovery: the receive is enabled, leads to `doCommand`, and after the replacement started
    (and `OnChildSpawn` accepted it) the loop waits again with a full fleet. -/
theorem restart_until_threshold (G T : Nat) (b : Bool) (evs : List Ev) (s : State)
    (hr : run (State.init G T b) evs = some s) (hw : s.pc = .waiting) (i : Nat) (rest : List Nat)
    (hsig : s.sigCh = i :: rest) (hlt : s.exited < T) :
    ∃ s1 s2 s3, step s .recv = some s1 ∧ s1.pc = .respawn i ∧ s1.exited = s.exited + 1 ∧
      step s1 .spawnOk = some s2 ∧ step s2 .hookOk = some s3 ∧ s3.pc = .waiting ∧ live s3 = G ∧
      s3.kids.length = s.kids.length + 1 := by
  have hinv := reach_inv hr
  obtain ⟨hG, hT⟩ := run_G evs _ s hr
  simp only [State.init] at hG hT
  have hi : i < s.kids.length := hinv.sigLt i (by rw [hsig]; simp)
  obtain ⟨c, hc⟩ : ∃ c, s.kids[i]? = some c := ⟨s.kids[i], by simp [hi]⟩
  have hnot : ¬ (s.exited + 1 > s.T) := by omega
  have h1 : step s .recv = some { s with kids := s.kids.set i { c with reported := true }, sigCh := rest, exited := s.exited + 1, pc := .respawn i } := by
    simp only [step, hw, hsig, updKid, hc, Option.map_some, hnot, if_false]
  let s1 : State := { s with kids := s.kids.set i { c with reported := true }, sigCh := rest, exited := s.exited + 1, pc := .respawn i }
  let s2 : State := { s1 with kids := s1.kids ++ [Child.fresh], pc := .hookRec i }
  let s3 : State := { s2 with pc := .waiting, recovered := s2.recovered + 1 }
  refine ⟨s1, s2, s3, h1, rfl, rfl, rfl, rfl, rfl, ?_, ?_⟩
  · have hinv1 : Proofs.Prefork.Inv s1 := inv_step .recv hinv h1
    have hinv2 : Proofs.Prefork.Inv s2 := inv_step .spawnOk hinv1 (rfl : step s1 .spawnOk = some s2)
    have hinv3 : Proofs.Prefork.Inv s3 := inv_step .hookOk hinv2 (rfl : step s2 .hookOk = some s3)
    have hp := hinv3.pcI
    unfold PcInv at hp
    have hpc3 : s3.pc = .waiting := rfl
    rw [hpc3] at hp
    simp only [PcP] at hp
    have hG3 : s3.G = s.G := rfl
    rw [hG3] at hp
    omega
  · simp [s3, s2, s1]

/-- **ErrOverRecovery.**  The exit that makes the count exceed RecoverThreshold is not answered by a restart: the loop
    leaves with `ErrOverRecovery` (through the teardown). -/
theorem over_recovery_returns_ErrOverRecovery (G T : Nat) (b : Bool) (evs : List Ev) (s : State)
    (hr : run (State.init G T b) evs = some s) (hw : s.pc = .waiting) (i : Nat) (rest : List Nat)
    (hsig : s.sigCh = i :: rest) (heq : s.exited = T) :
    ∃ s1, step s .recv = some s1 ∧ s1.pc = .shutCancel .overRecovery := by
  have hinv := reach_inv hr
  obtain ⟨hG, hT⟩ := run_G evs _ s hr
  simp only [State.init] at hG hT
  have hi : i < s.kids.length := hinv.sigLt i (by rw [hsig]; simp)
  obtain ⟨c, hc⟩ : ∃ c, s.kids[i]? = some c := ⟨s.kids[i], by simp [hi]⟩
  have hgt : s.exited + 1 > s.T := by omega
  refine ⟨{ s with kids := s.kids.set i { c with reported := true }, sigCh := rest, exited := s.exited + 1, pc := .shutCancel .overRecovery }, ?_, rfl⟩
  simp only [step, hw, hsig, updKid, hc, Option.map_some, hgt, if_true]

/-- `prefork` returns `ErrOverRecovery` exactly when more than RecoverThreshold children have exited (then exactly
    `T + 1` exits were counted and exactly `T` replacements started); any other error leaves the count within the
    threshold. -/
theorem returned_error_matches_count (G T : Nat) (b : Bool) (evs : List Ev) (s : State) (e : Err)
    (hr : run (State.init G T b) evs = some s) (hret : s.pc = .returned e) :
    (e = .overRecovery ↔ s.exited > T) ∧
    (e = .overRecovery → s.exited = T + 1 ∧ s.kids.length = G + T ∧ s.recovered = T) ∧
    s.kids.length ≤ G + T := by
  have hp := (reach_inv hr).pcI
  obtain ⟨hG, hT⟩ := run_G evs _ s hr
  simp only [State.init] at hG hT
  unfold PcInv at hp
  rw [hret] at hp
  simp only [PcP, ErrP] at hp
  obtain ⟨h1, h2, h3, h4⟩ := hp
  refine ⟨⟨fun h => by have := h1 h; omega, fun h => ?_⟩, fun h => by have := h1 h; omega, by omega⟩
  by_cases he : e = .overRecovery
  · exact he
  · have := h2 he; omega

/-- **Teardown is total.**  On EVERY return path (spawn failure, hook error, OnMasterReady error, ErrOverRecovery),
    for every child the call ever started: its process has been reaped and its `startWait` goroutine has returned
    before `prefork` returns; it was sent SIGTERM unless its exit had already been received (and it was then already
    reaped); and if the grace period expired it was sent SIGKILL as well. -/
theorem teardown_total (G T : Nat) (b : Bool) (evs : List Ev) (s : State) (e : Err)
    (hr : run (State.init G T b) evs = some s) (hret : s.pc = .returned e) :
    ∀ c ∈ s.kids, c.proc = .reaped ∧ c.w = .done ∧
      (c.reported = true ∨ c.termed = true) ∧
      (s.graceFired = true → c.reported = true ∨ c.killed = true) := by
  intro c hc
  have hinv := reach_inv hr
  have hs := hinv.shI
  unfold ShutInv at hs
  rw [hret] at hs
  simp only [ShutP] at hs
  obtain ⟨_, hterm, hkill, hdone⟩ := hs
  obtain ⟨i, hi⟩ := List.getElem?_of_mem hc
  have hk := hinv.kid i c hi
  have hw : c.w = .done := (allDone_iff s).mp hdone c hc
  refine ⟨?_, hw, ?_, fun g => ?_⟩
  · cases hp : c.proc with
    | reaped => rfl
    | alive => have := hk.wproc.mpr (by rw [hp]; simp); rw [hw] at this; cases this
    | zombie => have := hk.wproc.mpr (by rw [hp]; simp); rw [hw] at this; cases this
  · cases hrp : c.reported
    · exact Or.inr (hterm c hc hrp)
    · exact Or.inl rfl
  · cases hrp : c.reported
    · exact Or.inr (hkill g c hc hrp)
    · exact Or.inl rfl

/-- Signals are sent only by the teardown: SIGTERM only after `cancel()`, SIGKILL only after the grace timer fired
    and only to a child that was sent SIGTERM before; a killed child is not alive any more. -/
theorem kill_only_after_grace (G T : Nat) (b : Bool) (evs : List Ev) (s : State)
    (hr : run (State.init G T b) evs = some s) (i : Nat) (c : Child) (hc : s.kids[i]? = some c) :
    (c.termed = true → s.cancelled = true) ∧
    (c.killed = true → s.graceFired = true ∧ c.termed = true ∧ c.proc ≠ .alive) :=
  ⟨((reach_inv hr).kid i c hc).termed_c, ((reach_inv hr).kid i c hc).killed_g⟩

/-- After the kill loop no child of this call is alive: the final `wg.Wait()` waits only for goroutines of the
    master itself (reaping zombies, leaving through `ctx.Done()`), never for a process that may run forever. -/
theorem no_live_child_after_kill (G T : Nat) (b : Bool) (evs : List Ev) (s : State) (e : Err)
    (hr : run (State.init G T b) evs = some s) (hpc : s.pc = .finalWait e) :
    ∀ c ∈ s.kids, c.proc ≠ .alive := by
  intro c hc
  have hinv := reach_inv hr
  have hs := hinv.shI
  unfold ShutInv at hs
  rw [hpc] at hs
  simp only [ShutP] at hs
  obtain ⟨i, hi⟩ := List.getElem?_of_mem hc
  have hk := hinv.kid i c hi
  cases hrp : c.reported
  · exact (hk.killed_g (hs.2.2.2 c hc hrp)).2.2
  · have hw := hk.deliv_done (hk.rep_deliv hrp)
    intro hal
    have := hk.wproc.mpr (by rw [hal]; simp)
    rw [hw] at this; cases this

/-- The final wait cannot block: in `finalWait` either `wg.Wait()` returns or some `startWait` goroutine can take a
    step (reap its zombie, or leave through the cancelled context). -/
theorem teardown_never_stuck (G T : Nat) (b : Bool) (evs : List Ev) (s : State) (e : Err)
    (hr : run (State.init G T b) evs = some s) (hpc : s.pc = .finalWait e) :
    ∃ ev s', step s ev = some s' := by
  have hinv := reach_inv hr
  have hnl := no_live_child_after_kill G T b evs s e hr hpc
  have hs := hinv.shI
  unfold ShutInv at hs
  rw [hpc] at hs
  simp only [ShutP] at hs
  by_cases hall : allDone s = true
  · exact ⟨.finalDone, { s with pc := .returned e }, by simp only [step, hpc, hall, if_true]⟩
  · have : ∃ c ∈ s.kids, c.w ≠ .done := by
      rw [allDone_iff] at hall
      simpa using hall
    obtain ⟨c, hc, hw⟩ := this
    obtain ⟨i, hi⟩ := List.getElem?_of_mem hc
    have hk := hinv.kid i c hi
    cases hcw : c.w with
    | done => exact absurd hcw hw
    | waiting =>
      have hnr : c.proc ≠ .reaped := hk.wproc.mp hcw
      have hz : c.proc = .zombie := by
        cases hp : c.proc with
        | zombie => rfl
        | alive => exact absurd hp (hnl c hc)
        | reaped => exact absurd hp hnr
      exact ⟨.waitReturns i, _, by simp only [step, updKid, hi, hz, hcw, and_self, if_true]; rfl⟩
    | backoff =>
      exact ⟨.ctxDone i, _, by simp only [step, updKid, hi, hs.1, hcw, true_or, and_self, if_true]; rfl⟩
    | sending =>
      exact ⟨.ctxDone i, _, by simp only [step, updKid, hi, hs.1, hcw, or_true, and_self, if_true]; rfl⟩

/-- **The final wait terminates.**  From the final `wg.Wait()` on, every possible continuation is short: at most three
    steps per unfinished `startWait` goroutine plus the return itself.  Together with `teardown_never_stuck` (some step
    is always enabled until the return): `prefork` returns after the kill loop, whatever the children do. -/
theorem teardown_terminates (G T : Nat) (b : Bool) (evs : List Ev) (s : State) (e : Err)
    (hr : run (State.init G T b) evs = some s) (hpc : s.pc = .finalWait e) (more : List Ev) (s' : State)
    (hmore : run s more = some s') : more.length ≤ 3 * s.kids.length + 1 := by
  have hb := final_run_bounded more s s' e (reach_inv hr) hpc hmore
  have hmu : mu s ≤ 3 * s.kids.length := by
    unfold mu
    generalize s.kids = l
    induction l with
    | nil => simp
    | cons c l ih =>
      have hc : wmu c ≤ 3 := by unfold wmu; split <;> omega
      simp only [Wsum.wsum_cons, List.length_cons]
      omega
  omega

/-- After `prefork` returned nothing it started can move: every event of the model is disabled (no wait goroutine
    outlives the call, no child is left to exit). -/
theorem nothing_outlives_prefork (G T : Nat) (b : Bool) (evs : List Ev) (s : State) (e : Err)
    (hr : run (State.init G T b) evs = some s) (hret : s.pc = .returned e) (ev : Ev) : step s ev = none :=
  returned_no_step (reach_inv hr) hret ev

/-! ### non-vacuity -/

/-- G = 2, T = 1, no backoff: both children start, child 0 crashes and is replaced, child 1 crashes → ErrOverRecovery;
    the replacement ignores SIGTERM, the grace timer fires, it is killed, reaped, and only then prefork returns. -/
private def crashTwice : List Ev :=
  [.spawnOk, .hookOk, .spawnOk, .hookOk, .readyOk,
   .childExit 0, .waitReturns 0, .deliver 0, .recv, .spawnOk, .hookOk,
   .childExit 1, .waitReturns 1, .deliver 1, .recv,
   .cancel, .sigterm, .graceTimeout, .kill, .waitReturns 2, .ctxDone 2, .finalDone]

example : ((run (State.init 2 1 false) crashTwice).map fun s => (s.pc, s.exited, s.kids.length, s.recovered, s.graceFired))
  = some (.returned .overRecovery, 2, 3, 1, true) := by decide
example : ((run (State.init 2 1 false) crashTwice).map fun s => s.kids)
  = some [⟨.reaped, .done, false, false, false, true, true⟩, ⟨.reaped, .done, false, false, false, true, true⟩,
          ⟨.reaped, .done, true, true, false, false, false⟩] := by decide

/-- the loop waits with a full fleet after the first recovery -/
example : ((run (State.init 2 1 false) (crashTwice.take 11)).map fun s => (s.pc, live s, s.exited)) =
    some (.waiting, 2, 1) := by decide

/-- the final wait really waits: `finalDone` is not enabled while the killed child is not reaped -/
example : run (State.init 2 1 false) (crashTwice.take 19 ++ [.finalDone]) = none := by decide

/-- spawn failure in the initial loop with a backoff configured: the first child exits by itself, its goroutine sits
    in the backoff and leaves through the cancelled context; everything is reaped gracefully, nobody is killed -/
example : ((run (State.init 3 2 true)
    [.spawnOk, .hookOk, .childExit 0, .waitReturns 0, .spawnOk, .hookOk, .spawnFail,
     .cancel, .sigterm, .childExit 1, .waitReturns 1, .ctxDone 0, .ctxDone 1, .graceDone]).map fun s =>
    (s.pc, s.graceFired, s.kids))
  = some (.returned .spawn, false,
      [⟨.reaped, .done, true, false, false, false, false⟩, ⟨.reaped, .done, true, false, false, false, false⟩]) := by decide

/-- with a positive RecoverInterval the exit cannot be delivered before the backoff timer fired -/
example : run (State.init 1 0 true) [.spawnOk, .hookOk, .readyOk, .childExit 0, .waitReturns 0, .deliver 0] = none := by
  decide
example : ((run (State.init 1 0 true)
    [.spawnOk, .hookOk, .readyOk, .childExit 0, .waitReturns 0, .backoffDone 0, .deliver 0, .recv]).map (·.pc))
  = some (.shutCancel .overRecovery) := by decide

/-- hook error on the very first child: that child is still signalled and reaped -/
example : ((run (State.init 2 1 false)
    [.spawnOk, .hookErr, .cancel, .sigterm, .childExit 0, .waitReturns 0, .ctxDone 0, .graceDone]).map fun s =>
    (s.pc, s.kids.map fun c => (c.proc, c.termed))) = some (.returned .hook, [(.reaped, true)]) := by decide

/-- the bound of `teardown_terminates` is met by a run: one unreaped killed child needs `waitReturns`, `ctxDone`, `finalDone` -/
example : (run (State.init 2 1 false) (crashTwice.take 19)).map (·.pc) = some (.finalWait .overRecovery) := by decide
example : ((run (State.init 2 1 false) crashTwice).bind fun s => step s (.childExit 2)) = none := by decide

end Fh.Props.C39
