/-
C11 — No request observes state left over from an earlier request.
-/
import FhVerif.Proofs.ReqConf
import FhVerif.Model.LoopLocals
import FhVerif.Gen.Resets

namespace Fh.Props.C11
open Fh Fh.Model

/-! ### regenerated structural facts: which struct fields the reset methods do NOT write.
    These are scratch buffers, copy guards and configuration; nothing a handler can observe about a request.
    A reset method that stops clearing a field changes these lists and breaks the theorem. -/
theorem reset_covers_all_request_state :
    Gen.notReset_RequestHeader = ["bufK", "bufV", "noCopy", "secureErrorLogMessage"] ∧
    Gen.notReset_ResponseHeader = ["bufK", "bufV", "noCopy", "secureErrorLogMessage"] ∧
    Gen.notReset_Request = ["keepBodyBuffer", "noCopy", "secureErrorLogMessage", "w"] ∧
    Gen.notReset_Response = ["keepBodyBuffer", "noCopy", "secureErrorLogMessage", "w"] ∧
    Gen.notReset_RequestCtx = ["formValueFunc", "logger", "noCopy", "s", "timeoutCh", "timeoutTimer"] := by decide

theorem reset_is_fresh (s : Observable) : s.reset = Observable.fresh := rfl

/-! ### per-connection locals never leak into the next request -/

/-- every iteration that starts does so with the initial locals -/
theorem locals_fresh_at_every_iteration (is : List IterIn) :
    ∀ (pre post : List IterOut) (o : IterOut), runIters {} is = pre ++ o :: post → post ≠ [] → o.locals = {} := by
  suffices h : ∀ (l : Locals), l = {} → ∀ (pre post : List IterOut) (o : IterOut),
      runIters l is = pre ++ o :: post → post ≠ [] → o.locals = {} from h {} rfl
  induction is with
  | nil => intro l _ pre post o h; simp [runIters] at h
  | cons i rest ih =>
    intro l hl pre post o h hpost
    simp only [runIters] at h
    split at h
    · cases pre with
      | nil => simp at h; exact absurd h.2 hpost
      | cons p pre' => simp at h
    · rename_i hnb
      -- the loop continues: connectionClose is false and the handler flag is back to true
      have hloc : (iter l i).locals = {} := by
        subst hl
        have hb : (iter {} i).breaks = false := by simpa using hnb
        unfold iter at hb ⊢
        cases he : i.expect <;> simp_all [expectDecision]
      cases pre with
      | nil => simp at h; rw [← h.1]; exact hloc
      | cons p pre' =>
        simp at h
        exact ih _ hloc pre' post o h.2 hpost

/-- C11 (locals): whether the handler is called for a request depends only on that request's own expectation outcome -/
theorem handler_call_depends_on_own_request (i : IterIn) :
    (iter {} i).handlerCalled = (expectDecision i.expect).1 := by
  unfold iter; cases i.expect <;> simp [expectDecision]

/-- a request whose expectation was rejected is the last one on its connection -/
theorem rejection_ends_connection (l : Locals) (i : IterIn) (h : (iter l i).handlerCalled = false) (hl : l = {}) :
    (iter l i).breaks = true := by
  subst hl
  unfold iter at h ⊢
  cases he : i.expect <;> simp_all [expectDecision]

/-! non-vacuity -/
example : (runIters {} [⟨.noExpect, false, false⟩, ⟨.rejectedByContinueHandler, false, false⟩, ⟨.noExpect, false, false⟩]).length = 2 := by
  decide

/-! ### per-request RequestConfig (Server.HeaderReceived) never leaks into a later request -/
section ReqConf
open Fh.Model.ReqConf Fh.Proofs.ReqConf

/-- what holds between two loop iterations -/
def RCInv (c : SrvCfg) (v : Vars) : Prop :=
  (c.hasHook = false → v.maxBody = srvMax c ∧ v.writeTimeout = c.writeTimeout) ∧
  v.wdlSet = decide (v.prevWriteTimeout > 0) ∧
  (v.rdl = .request → v.reqRdl = true)

theorem rc_init (c : SrvCfg) : RCInv c (init c) ∧ (init c).rdl ≠ .request := by
  refine ⟨⟨fun _ => ⟨rfl, rfl⟩, by simp [init], by simp [init]⟩, by simp [init]⟩

/-- one iteration: the body limit and the write deadline a request gets are functions of the server's settings and
    of ITS OWN configuration, the read deadline under which the server waits for it was not set by another request,
    and the invariant is re-established -/
theorem rc_iter (c : SrvCfg) (n : Nat) (k : Conf) (v : Vars) (h : RCInv c v) (h1 : n = 1 → v.rdl ≠ .request) :
    RCInv c (iter c n k v).1 ∧ (iter c n k v).2.maxBody = ownMax c k ∧ (iter c n k v).2.wdl = ownWdl c k ∧
    (iter c n k v).2.rdlWaiting ≠ .request := by
  obtain ⟨hA, hB, hC⟩ := h
  have t := top_fields c n v
  have tr := top_rdl c n v hC h1
  have f := firstByte_fields c n (top c n v)
  have hk := hook_fields c k (firstByte c n (top c n v))
  have hl := hook_limits c k (firstByte c n (top c n v)) (by
    intro hh; have := hA hh; rw [f.1, f.2.1, t.1, t.2.1]; exact this)
  have bw := beforeWrite_fields (hook c k (firstByte c n (top c n v)))
  have bwl := beforeWrite_wdl (hook c k (firstByte c n (top c n v))) (by
    rw [hk.1, hk.2.1, f.2.2.1, f.2.2.2.1, t.2.2.1, t.2.2.2]; exact hB)
  show RCInv c (beforeWrite (hook c k (firstByte c n (top c n v)))) ∧
    (hook c k (firstByte c n (top c n v))).maxBody = ownMax c k ∧
    (beforeWrite (hook c k (firstByte c n (top c n v)))).wdlSet = ownWdl c k ∧ (top c n v).rdl ≠ .request
  refine ⟨⟨?_, bwl.2, ?_⟩, hl.1, ?_, tr.1⟩
  · intro hh
    rw [bw.1, bw.2.1, hl.1, hl.2]
    simp [ownMax, hh]
  · rw [bw.2.2.1, bw.2.2.2]
    intro hr
    exact hk.2.2 hr (f.2.2.2.2.2 tr.1)
  · rw [bwl.1, hl.2]
    unfold ownWdl
    by_cases a : c.hasHook = true ∧ k.wt > 0
    · simp [a]
    · simp only [if_neg a]

/-- C11 (per-connection decisions): on a connection carrying any sequence of requests with any RequestConfigs, the
    i-th request is read under ITS OWN body limit, answered under ITS OWN write deadline, and the server never waits
    for it under a read deadline that an earlier request asked for -/
theorem request_config_is_per_request (c : SrvCfg) (ks : List Conf) :
    ∀ (n : Nat) (v : Vars), 1 ≤ n → RCInv c v → (n = 1 → v.rdl ≠ .request) →
      ∀ p ∈ (run c n v ks).zip ks, p.1.maxBody = ownMax c p.2 ∧ p.1.wdl = ownWdl c p.2 ∧ p.1.rdlWaiting ≠ .request := by
  induction ks with
  | nil => intro n v _ _ _ p hp; simp [run] at hp
  | cons k rest ih =>
    intro n v hn h h1 p hp
    have hi := rc_iter c n k v h h1
    simp only [run, List.zip_cons_cons, List.mem_cons] at hp
    rcases hp with rfl | hp
    · exact hi.2
    · exact ih (n + 1) (iter c n k v).1 (by omega) hi.1 (by intro h; omega) p hp

/-- the same from the first request of a connection -/
theorem request_config_is_per_request_from_start (c : SrvCfg) (ks : List Conf) :
    ∀ p ∈ (run c 1 (init c) ks).zip ks, p.1.maxBody = ownMax c p.2 ∧ p.1.wdl = ownWdl c p.2 ∧ p.1.rdlWaiting ≠ .request :=
  request_config_is_per_request c ks 1 (init c) (Nat.le_refl 1) (rc_init c).1 (fun _ => (rc_init c).2)

/-! non-vacuity: request 1 asks for a 16-byte limit, a write timeout and a read timeout; request 2 asks for nothing and
    gets the server's 4 MiB limit, no write deadline, and is not awaited under request 1's read deadline -/
example : run ⟨0, 0, 0, 0, true⟩ 1 (init ⟨0, 0, 0, 0, true⟩) [⟨3, 5000, 16⟩, ⟨0, 0, 0⟩] =
    [⟨.none, 16, true⟩, ⟨.none, 4194304, false⟩] := by decide
end ReqConf

end Fh.Props.C11
