/-
C11 — No request observes state left over from an earlier request.
-/
import FhVerif.Model.LoopLocals
import FhVerif.Gen.Resets

namespace Fh.Props.C11
open Fh Fh.Model

/-! ### regenerated structural facts: which struct fields the reset methods do NOT write.
    These are scratch buffers, copy guards and configuration; nothing a handler can observe about a request.
    A reset method that stops clearing a field changes these lists and breaks the theorem. -/
theorem reset_covers_all_request_state :
    Gen.notReset_RequestHeader = ["bufK", "bufV", "noCopy", "secureErrorLogMessage"] ∧
    Gen.notReset_ResponseHeader = ["bufK", "bufV", "noCopy", "secureErrorLogMessage"] ∧
    Gen.notReset_Request = ["keepBodyBuffer", "noCopy", "secureErrorLogMessage", "w"] ∧
    Gen.notReset_Response = ["keepBodyBuffer", "noCopy", "secureErrorLogMessage", "w"] ∧
    Gen.notReset_RequestCtx = ["formValueFunc", "logger", "noCopy", "s", "timeoutCh", "timeoutTimer"] := by decide

theorem reset_is_fresh (s : Observable) : s.reset = Observable.fresh := rfl

/-! ### per-connection locals never leak into the next request -/

/-- every iteration that starts does so with the initial locals -/
theorem locals_fresh_at_every_iteration (is : List IterIn) :
    ∀ (pre post : List IterOut) (o : IterOut), runIters {} is = pre ++ o :: post → post ≠ [] → o.locals = {} := by
  suffices h : ∀ (l : Locals), l = {} → ∀ (pre post : List IterOut) (o : IterOut),
      runIters l is = pre ++ o :: post → post ≠ [] → o.locals = {} from h {} rfl
  induction is with
  | nil => intro l _ pre post o h; simp [runIters] at h
  | cons i rest ih =>
    intro l hl pre post o h hpost
    simp only [runIters] at h
    split at h
    · cases pre with
      | nil => simp at h; exact absurd h.2 hpost
      | cons p pre' => simp at h
    · rename_i hnb
      -- the loop continues: connectionClose is false and the handler flag is back to true
      have hloc : (iter l i).locals = {} := by
        subst hl
        have hb : (iter {} i).breaks = false := by simpa using hnb
        unfold iter at hb ⊢
        cases he : i.expect <;> simp_all [expectDecision]
      cases pre with
      | nil => simp at h; rw [← h.1]; exact hloc
      | cons p pre' =>
        simp at h
        exact ih _ hloc pre' post o h.2 hpost

/-- C11 (locals): whether the handler is called for a request depends only on that request's own expectation outcome -/
theorem handler_call_depends_on_own_request (i : IterIn) :
    (iter {} i).handlerCalled = (expectDecision i.expect).1 := by
  unfold iter; cases i.expect <;> simp [expectDecision]

/-- a request whose expectation was rejected is the last one on its connection -/
theorem rejection_ends_connection (l : Locals) (i : IterIn) (h : (iter l i).handlerCalled = false) (hl : l = {}) :
    (iter l i).breaks = true := by
  subst hl
  unfold iter at h ⊢
  cases he : i.expect <;> simp_all [expectDecision]

/-! non-vacuity -/
example : (runIters {} [⟨.noExpect, false, false⟩, ⟨.rejectedByContinueHandler, false, false⟩, ⟨.noExpect, false, false⟩]).length = 2 := by
  decide

end Fh.Props.C11
