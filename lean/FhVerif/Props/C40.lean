/-
C40 — LBClient routes to the least-loaded client and penalties stay bounded.
Property theorems only (helpers in Proofs/LB.lean).  `Gen.maxPenalty` / `Gen.penaltyDurationNs` are regenerated
from lbclient.go on every run.

The theorems quantify over ARBITRARY event lists of the transition system `Model.LB.step`, i.e. over every
interleaving of the atomic steps of any number of concurrent callers (AddUint32, test+arm, undo, timer firing,
AddClient/RemoveClients, pending changes, clock ticks).  The only hypothesis on the run is `BoundedRun`: fewer than
2^32 - maxPenalty - 1 goroutines are simultaneously between the AddUint32 and the test inside `incPenalty` of one
client (otherwise the uint32 counter itself would wrap).
-/
import FhVerif.Proofs.LB
import FhVerif.Gen.LBGuard

namespace Fh.Props.C40
open Fh Fh.Model.LB Fh.Proofs.LB

/-- constants the statement names, regenerated from lbclient.go -/
theorem maxPenalty_eq_300 : Gen.maxPenalty = 300 := by decide
theorem penaltyDuration_eq_3s : Gen.penaltyDurationNs = 3 * 1000000000 := by decide

/-- Routing: the client `get` returns has the minimal `pending + penalty`; among equally loaded clients it has the
    fewest completed requests; and it is the FIRST such client (every earlier one is strictly worse). -/
theorem chosen_is_minimal (cs : List Client) (i : Nat) (h : Fh.Model.LB.get cs = some i) :
    ∃ ci, cs[i]? = some ci ∧ ∀ j cj, cs[j]? = some cj →
      (ci.load < cj.load ∨ (ci.load = cj.load ∧ ci.total ≤ cj.total)) ∧
      (j < i → (ci.load < cj.load ∨ (ci.load = cj.load ∧ ci.total < cj.total))) := by
  obtain ⟨n, t, ⟨ci, hci, hk⟩, hall⟩ := get_best cs i h
  refine ⟨ci, hci, ?_⟩
  intro j cj hj
  have := hall j cj hj
  simp only [key, Prod.mk.injEq] at hk
  simp only [lexLE, lexLT, key] at this
  obtain ⟨h1, h2⟩ := hk
  subst h1; subst h2
  exact this

/-- In the model `get` (and each of AddClient / RemoveClients) is ONE atomic step.  Pinned to the source by facts
    regenerated from lbclient.go on every run: `get` takes `cc.mu.RLock()` directly followed by the deferred `RUnlock`
    and contains no other unlock call — the lock is held from reading `cc.cs` to the end of the scan — and the two
    membership operations hold the write lock in the same way.  Hence a call that overlaps a membership change is
    ordered entirely before or entirely after it. -/
theorem get_is_one_atomic_step :
    Gen.lbLocking = [("get", "RLock", true, 0), ("AddClient", "Lock", true, 0), ("RemoveClients", "Lock", true, 0)] := by
  decide

/-- the client a call is routed to is the first least-loaded client among the members at that (atomic) moment -/
theorem routed_client_is_minimal_member (s : State) (i : Nat) (h : (route s).2 = .routed i) :
    ∃ ci, (route s).1.cs[i]? = some ci ∧ ∀ j cj, (route s).1.cs[j]? = some cj →
      (ci.load < cj.load ∨ (ci.load = cj.load ∧ ci.total ≤ cj.total)) ∧
      (j < i → (ci.load < cj.load ∨ (ci.load = cj.load ∧ ci.total < cj.total))) := by
  unfold route at h ⊢
  cases hi : ensureInit s with
  | none => simp [hi] at h
  | some s' =>
    simp only [hi] at h ⊢
    cases hg : Fh.Model.LB.get s'.cs with
    | none => simp [hg] at h
    | some k =>
      simp only [hg] at h ⊢
      cases h
      exact chosen_is_minimal s'.cs i hg

/-- `get` answers exactly when there is a client -/
theorem get_some_iff (cs : List Client) : (∃ i, Fh.Model.LB.get cs = some i) ↔ cs ≠ [] := by
  cases cs <;> simp [Fh.Model.LB.get]

/-- Accounting invariant (for every interleaving): penalty = armed timers + callers inside incPenalty,
    and armed timers (plus callers that are about to arm one) never exceed maxPenalty. -/
theorem penalty_accounting (cfg : List (Nat × Int)) (evs : List Ev) (s : State)
    (hb : BoundedRun (State.start cfg) evs) (hr : run (State.start cfg) evs = some s) :
    ∀ c ∈ s.cs, c.penalty = c.timers.length + c.inflightOk + c.inflightOver ∧
      c.timers.length + c.inflightOk ≤ Gen.maxPenalty := by
  intro c hc
  obtain ⟨h1, h2, _, _⟩ := inv_run evs _ s (inv_start cfg) hb hr c hc
  exact ⟨h1, h2⟩

/-- Once concurrent calls settle (no caller is inside incPenalty on that client), no client carries more than
    maxPenalty (= 300) outstanding penalties, and each of them is backed by an armed timer. -/
theorem settled_penalty_le_max (cfg : List (Nat × Int)) (evs : List Ev) (s : State)
    (hb : BoundedRun (State.start cfg) evs) (hr : run (State.start cfg) evs = some s) :
    ∀ c ∈ s.cs, c.inflightOk = 0 → c.inflightOver = 0 →
      c.penalty ≤ Gen.maxPenalty ∧ c.penalty = c.timers.length := by
  intro c hc h1 h2
  obtain ⟨h3, h4⟩ := penalty_accounting cfg evs s hb hr c hc
  omega

/-- The uint32 counter never wraps: it stays below maxPenalty + (callers inside incPenalty) + 1 ≤ 2^32. -/
theorem no_uint32_wrap (cfg : List (Nat × Int)) (evs : List Ev) (s : State)
    (hb : BoundedRun (State.start cfg) evs) (hr : run (State.start cfg) evs = some s) :
    ∀ c ∈ s.cs, c.penalty ≤ Gen.maxPenalty + c.inflightOver := by
  intro c hc
  obtain ⟨h3, h4⟩ := penalty_accounting cfg evs s hb hr c hc
  omega

/-- Every armed timer is due at most penaltyDuration (3 s) after the client's last penalised failure; so once
    that much time has passed every remaining timer is overdue (enabled — only scheduler latency delays it), and
    when the last one has fired (and no caller is inside incPenalty) the penalty is exactly zero. -/
theorem penalty_zero_after_last_timer (cfg : List (Nat × Int)) (evs : List Ev) (s : State)
    (hb : BoundedRun (State.start cfg) evs) (hr : run (State.start cfg) evs = some s) :
    ∀ c ∈ s.cs, c.inflightOk = 0 → c.inflightOver = 0 →
      (s.now ≥ c.lastFail + Gen.penaltyDurationNs → ∀ d ∈ c.timers, d ≤ s.now) ∧
      (c.timers = [] → c.penalty = 0) := by
  intro c hc h1 h2
  obtain ⟨h3, _, _, h6⟩ := inv_run evs _ s (inv_start cfg) hb hr c hc
  refine ⟨fun hnow d hd => ?_, fun ht => ?_⟩
  · have := h6 d hd; omega
  · rw [ht] at h3; simp only [List.length_nil] at h3; omega

/-- The pairing of decrements with successful increments, pinned to the source (regenerated from lbclient.go on every
    run): the only place that hands `decPenalty` to a timer is `lbClient.DoDeadline`, inside the THEN branch of an `if`
    whose condition has `c.incPenalty()` as a positive conjunct; `incPenalty()` is called nowhere else and its result is
    never discarded; the only direct `decPenalty()` call is the undo inside `incPenalty`, which then returns false.
    This is why the model has `failArm` (arm a timer) only for callers whose increment stood, and no step that arms a
    timer after an undone increment. -/
theorem decrement_scheduled_only_after_successful_increment :
    Gen.lbScheduleSites = [("DoDeadline", true)] ∧ Gen.lbIncPenaltyCalls = [("DoDeadline", true)] ∧
    Gen.lbDecDirectCalls = ["incPenalty"] ∧ Gen.lbUndoReturnsFalse = true := by decide

/-- No underflow: whenever a timer fires — in any reachable state of any interleaving — the uint32 penalty is at least
    1 and goes down by exactly one (it never wraps to 2^32-1); pending decrements (armed timers) never exceed the
    penalty. -/
theorem timer_never_underflows (cfg : List (Nat × Int)) (evs : List Ev) (s : State)
    (hb : BoundedRun (State.start cfg) evs) (hr : run (State.start cfg) evs = some s)
    (i k : Nat) (s' : State) (h : step s (.timer i k) = some s') :
    ∃ c c', s.cs[i]? = some c ∧ s'.cs[i]? = some c' ∧ c.timers.length ≤ c.penalty ∧
      c'.penalty + 1 = c.penalty ∧ c'.timers.length + 1 = c.timers.length := by
  have hbd := bounded_end evs _ s hb hr
  simp only [step, updClient] at h
  cases hc : s.cs[i]? with
  | none => simp [hc] at h
  | some c =>
    simp only [hc] at h
    have hmem : c ∈ s.cs := List.mem_of_getElem? hc
    obtain ⟨h1, h2⟩ := penalty_accounting cfg evs s hb hr c hmem
    have hB := hbd c hmem
    have hi : i < s.cs.length := (List.getElem?_eq_some_iff.mp hc).1
    cases hk : c.timers[k]? with
    | none => simp [hk] at h
    | some due =>
      by_cases hdue : due ≤ s.now
      · simp only [hk, hdue, if_true, Option.some.injEq] at h
        subst h
        have hlt : k < c.timers.length := (List.getElem?_eq_some_iff.mp hk).1
        have hd : decU32 c.penalty = c.penalty - 1 := decU32_pos (by omega) (by omega)
        refine ⟨c, { c with timers := c.timers.eraseIdx k, penalty := decU32 c.penalty }, rfl, by simp [hi], by omega, ?_, ?_⟩
        · simp only [hd]; omega
        · simp only [List.length_eraseIdx, hlt, if_true]; omega
      · simp [hk, hdue] at h

/-- Concurrent failures on one client with no timer firing in between, in ANY interleaving of the callers'
    AddUint32 / arm / undo steps: once they have all returned, exactly min(#failures, maxPenalty) of them were
    penalised (armed a timer) and the penalty equals that number.  (This is what the harness' concurrent stress
    observes: `Driver.lbSettled`.) -/
theorem concurrent_failures_settle_at_min (id : Nat) (p : Int) (evs : List Ev) (s : State)
    (ho : OnlyFail0 evs) (hb : BoundedRun (State.start [(id, p)]) (.get :: evs))
    (hr : run (State.start [(id, p)]) (.get :: evs) = some s) :
    ∃ c, s.cs = [c] ∧ (c.inflightOk = 0 → c.inflightOver = 0 →
      c.timers.length = min (countAdds evs) Gen.maxPenalty ∧ c.penalty = min (countAdds evs) Gen.maxPenalty) := by
  have hstep : step (State.start [(id, p)]) .get = some ⟨[(id, p)], true, [Client.fresh id p], 0⟩ := by
    simp [step, ensureInit, State.start]
  simp only [run, hstep] at hr
  simp only [BoundedRun, hstep] at hb
  obtain ⟨c, hc, j1, j2, _⟩ := jinv_run evs _ s (Client.fresh id p) 0 rfl
    (by simp [JInv, Client.fresh]) ho hb.2 hr
  refine ⟨c, hc, fun h1 h2 => ?_⟩
  simp only [Nat.zero_add] at j2
  omega

/-- an overdue timer is enabled: firing it is a step of the system, and it decrements the penalty by one -/
theorem overdue_timer_fires (s : State) (i k : Nat) (c : Client) (due : Nat)
    (hc : s.cs[i]? = some c) (hk : c.timers[k]? = some due) (hdue : due ≤ s.now) :
    ∃ s', step s (.timer i k) = some s' ∧
      s'.cs[i]? = some { c with timers := c.timers.eraseIdx k, penalty := decU32 c.penalty } := by
  have hi : i < s.cs.length := (List.getElem?_eq_some_iff.mp hc).1
  simp only [step, updClient, hc, hk, hdue, if_true]
  exact ⟨_, rfl, by simp [hi]⟩

/-- With a non-empty configured client list (the documented precondition of LBClient), no call ever panics, in any
    reachable state; and whenever there is no client left (all removed) the call returns ErrNoAvailableClients. -/
theorem no_clients_returns_error (cfg : List (Nat × Int)) (hcfg : cfg ≠ []) (evs : List Ev) (s : State)
    (hr : run (State.start cfg) evs = some s) :
    (route s).2 ≠ .panicEmptyConfig ∧
    ((route s).1.cs = [] → (route s).2 = .errNoClients) ∧
    (∀ i, (route s).2 = .routed i → i < (route s).1.cs.length) := by
  have hready : Ready s := ready_run evs _ s (Or.inr hcfg) hr
  unfold route
  cases hi : ensureInit s with
  | none =>
    exfalso
    unfold ensureInit at hi
    rcases hready with h | h
    · simp [h] at hi
    · split at hi
      · cases hi
      · split at hi
        · rename_i he; exact h (List.isEmpty_iff.mp he)
        · cases hi
  | some s' =>
    simp only
    cases hg : Fh.Model.LB.get s'.cs with
    | none =>
      refine ⟨by simp, fun _ => rfl, fun i h => by cases h⟩
    | some i =>
      refine ⟨by simp, fun hnil => ?_, fun j h => ?_⟩
      · rw [hnil] at hg; simp [Fh.Model.LB.get] at hg
      · cases h
        obtain ⟨ci, hci, _⟩ := chosen_is_minimal s'.cs i hg
        exact (List.getElem?_eq_some_iff.mp hci).1

/-- the by-design panic: the very first call on an LBClient configured with an empty `Clients` list -/
theorem empty_config_panics (s : State) (h1 : s.inited = false) (h2 : s.cfg = []) :
    (route s).2 = .panicEmptyConfig := by
  simp [route, ensureInit, h1, h2]

/-! ### non-vacuity -/

private def c3 : List Client :=
  [⟨0, 2, 1, 5, [7], 0, 0, 0⟩, ⟨1, 1, 0, 9, [], 0, 0, 0⟩, ⟨2, 0, 1, 4, [9], 0, 0, 0⟩, ⟨3, 1, 0, 4, [], 0, 0, 0⟩]

/-- loads 3,1,1,1; totals 5,9,4,4 → the first of the two (load 1, total 4) clients -/
example : Fh.Model.LB.get c3 = some 2 := by decide
example : Fh.Model.LB.get [] = none := rfl

/-- 301 unhealthy calls run one after the other: the 301st is undone, penalty settles at 300 -/
private def failSeq : Nat → List Ev
  | 0 => []
  | n + 1 => failSeq n ++ [.failAdd 0, if n < 300 then .failArm 0 else .failUndo 0]

example : ((run (State.start [(7, 0)]) (.get :: failSeq 301)).map fun s => s.cs.map fun c => (c.penalty, c.timers.length, c.total))
    = some [(300, 300, 1)] := by decide +kernel

/-- two callers interleaved at the boundary: both add (300, 301), the second undoes, the first arms -/
example : ((run (State.start [(7, 0)]) (.get :: failSeq 299 ++ [.failAdd 0, .failAdd 0, .failUndo 0, .failArm 0])).map
    fun s => s.cs.map fun c => (c.penalty, c.timers.length, c.inflightOk, c.inflightOver)) = some [(300, 300, 0, 0)] := by
  decide +kernel

example : OnlyFail0 [.failAdd 0, .failAdd 0, .failUndo 0, .failArm 0] ∧
    countAdds [.failAdd 0, .failAdd 0, .failUndo 0, .failArm 0] = 2 := by
  refine ⟨?_, by decide⟩
  intro e he
  simp only [List.mem_cons, List.not_mem_nil, or_false] at he
  rcases he with rfl | rfl | rfl | rfl <;> simp

/-- a timer cannot fire before it is due, fires after 3 s, and the penalty is back to zero -/
example : run (State.start [(7, 0)]) [.get, .failAdd 0, .failArm 0, .tick 2999999999, .timer 0 0] = none := by decide +kernel
example : ((run (State.start [(7, 0)]) [.get, .failAdd 0, .failArm 0, .tick 3000000000, .timer 0 0]).map
    fun s => s.cs.map fun c => (c.penalty, c.timers)) = some [(0, [])] := by decide +kernel

/-- all clients removed → ErrNoAvailableClients; empty configuration → the sanity-check panic -/
example : ((run (State.start [(7, 0)]) [.get, .removeClients [7]]).map fun s => (route s).2) = some .errNoClients := by decide
example : (route (State.start [])).2 = .panicEmptyConfig := by decide
example : BoundedRun (State.start [(7, 0)]) (.get :: failSeq 301) := by decide +kernel

end Fh.Props.C40
