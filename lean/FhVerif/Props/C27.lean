/-
C27 — URIs survive serialisation and agree with net/url.  Property theorems only
(helpers in Proofs/URI.lean, URI2.lean, URI3.lean).

Model.parseURI / fullURI / requestURI mirror uri.go (tied by the C27 harness on every run).  The agreement with
net/url is a three-way differential run, not a theorem.
-/
import FhVerif.Proofs.URI3

namespace Fh.Props.C27
open Fh Fh.Model Fh.Proofs.URI

/-- appendQuotedPath decodes back to the path, for every byte string -/
theorem quotePath_decodes_back (p : Bytes) : decodeNoPlus (quotePath p) = p := decode_quotePath p

/-- the quoted path contains no '?', no '#' and no control byte, so the first '?' / '#' of RequestURI() and
    FullURI() are the delimiters the serialiser wrote -/
theorem quotePath_no_delimiter (p : Bytes) : ∀ x ∈ quotePath p, x ≠ 63 ∧ x ≠ 35 ∧ isCTL x = false := quotePath_clean p

/-- URI.Path() is a fixed point: quoting it and normalising the result (what a re-parse does) returns it -/
theorem normalize_idempotent_on_output (src : Bytes) :
    normalizePath (quotePath (normalizePath src)) = normalizePath src := normalize_quote_fixed src

/-- the path / query / fragment split of URI.parse inverts the serialisation  path ["?" query] ["#" fragment] -/
theorem tail_split_inverts (path q f : Bytes) (hq : (35 : UInt8) ∉ q) :
    splitPQF (quotePath path ++ (if q.isEmpty then [] else 63 :: q) ++ (if f.isEmpty then [] else 35 :: f)) =
      (quotePath path, q, f) :=
  splitPQF_tail _ q f (fun x hx => ⟨(quotePath_clean path x hx).1, (quotePath_clean path x hx).2.1⟩) hq

/-- the property as stated: every successfully parsed absolute URI whose host contains no '%' re-parses from
    FullURI() to the same scheme, host, path, query string and fragment, and from RequestURI() (against the same
    host) to the same path and query string -/
def C27_full : Prop :=
  ∀ (uri : Bytes) (u : URI), parseURI [] uri = .ok u → (37 : UInt8) ∉ u.host →
    (∃ u', parseURI [] (u.fullURI none) = .ok u' ∧ u'.getScheme = u.getScheme ∧ u'.host = u.host ∧
      u'.getPath = u.getPath ∧ u'.queryString = u.queryString ∧ u'.hash = u.hash) ∧
    (∃ u', parseURI u.host (u.requestURI none) = .ok u' ∧ u'.getPath = u.getPath ∧
      u'.queryString = u.queryString)

/-- C27, FullURI(): proved for every parsed URI whose host is accepted unchanged by parseHost
    (`parseHost u.host = ok u.host`).  Missing for `C27_full`: that every lower-cased host without '%' that
    parseHost produced is such a fixed point (the re-parse of each explored host is executed by the harness). -/
theorem fulluri_reparse_same_partial (uri : Bytes) (u : URI) (hp : parseURI [] uri = .ok u)
    (hfix : parseHost u.host = .ok u.host) :
    ∃ u', parseURI [] (u.fullURI none) = .ok u' ∧ u'.getScheme = u.getScheme ∧ u'.host = u.host ∧
      u'.getPath = u.getPath ∧ u'.queryString = u.queryString ∧ u'.hash = u.hash ∧
      parseArgs u'.queryString = parseArgs u.queryString := by
  have h := fulluri_reparse uri u hp hfix
  exact ⟨_, h, getScheme_idem u _ rfl, rfl, getPath_idem u _ rfl, rfl, rfl, rfl⟩

/-- C27, RequestURI(): same guard -/
theorem requesturi_reparse_same_partial (uri : Bytes) (u : URI) (hp : parseURI [] uri = .ok u)
    (hfix : parseHost u.host = .ok u.host) :
    ∃ u', parseURI u.host (u.requestURI none) = .ok u' ∧ u'.host = u.host ∧ u'.getPath = u.getPath ∧
      u'.queryString = u.queryString ∧ parseArgs u'.queryString = parseArgs u.queryString := by
  obtain ⟨sch, h⟩ := requesturi_reparse uri u hp hfix
  exact ⟨_, h, rfl, getPath_idem u _ rfl, rfl, rfl⟩

/-- a host accepted by parseHost contains none of the delimiters '/', '?', '#', '@' and no control byte -/
theorem host_has_no_delimiter (h r : Bytes) (hp : parseHost h = .ok r) :
    ∀ c ∈ h, c ≠ 47 ∧ c ≠ 63 ∧ c ≠ 35 ∧ c ≠ 64 ∧ isCTL c = false :=
  fun c hc => (byte_facts c).2.2.2.2 (parseHost_bytes h r hp c hc)

/-! non-vacuity -/
def exURI : Bytes := ofString "HTTP://User@Example.COM:80/a/../b%20c?x=1#f"
def exParsed : URI := ⟨ofString "http", ofString "example.com:80", ofString "User", [], ofString "/a/../b%20c",
  ofString "/b c", ofString "x=1", ofString "f"⟩

example : (parseURI [] exURI).toOption = some exParsed := by decide +kernel
example : exParsed.fullURI none = ofString "http://example.com:80/b%20c?x=1#f" := by decide +kernel
example : (parseHost exParsed.host).toOption = some exParsed.host := by decide +kernel
example : (parseURI [] (ofString "http://[fe80::1%25en0]:8080/")).toOption.map (·.host) =
    some (ofString "[fe80::1%en0]:8080") := by decide +kernel
example : (parseURI [] (ofString "http://[zzz%25x]/")).toOption = none := by decide +kernel
example : (parseURI [] (ofString "http://[::1]x]/")).toOption = none := by decide +kernel
example : quotePath (ofString "/a b?#%") = ofString "/a%20b%3F%23%25" := by decide +kernel

end Fh.Props.C27
