/-
C10 — Connection persistence matches the Connection header sent.
-/
import FhVerif.Model.ConnClose
import FhVerif.Proofs.ReqFraming

namespace Fh.Props.C10
open Fh Fh.Model Fh.Spec.Rfc Fh.Proofs.ReqFraming

/-- every response: the connection is closed after it exactly when it carries `Connection: close`;
    a response that keeps the connection open carries `Connection: keep-alive` exactly for non-1.1 requests -/
theorem close_iff_header (cfg : LoopCfg) (n : Nat) (es : List ReqEv) :
    ∀ o ∈ serveLoop cfg n es, (o.closedAfter = true ↔ o.closeHeader = true) ∧
      (o.closeHeader = true → o.keepAliveHeader = false) := by
  induction es generalizing n with
  | nil => intro o ho; simp [serveLoop] at ho
  | cons e rest ih =>
    intro o ho
    simp only [serveLoop] at ho
    have hhead : ((respOut cfg n e).closedAfter = true ↔ (respOut cfg n e).closeHeader = true) ∧
        ((respOut cfg n e).closeHeader = true → (respOut cfg n e).keepAliveHeader = false) := by
      unfold respOut; split <;> simp
    split at ho
    · simp at ho; subst ho; exact hhead
    · rcases List.mem_cons.1 ho with h | h
      · subst h; exact hhead
      · exact ih (n + 1) o h

/-- each listed cause forces `Connection: close` and the close -/
theorem close_causes (cfg : LoopCfg) (n : Nat) (e : ReqEv)
    (h : e.reqClose = true ∨ cfg.disableKeepalive = true ∨ (cfg.maxReqs > 0 ∧ n ≥ cfg.maxReqs) ∨
      e.handlerClose = true ∨ (cfg.closeOnShutdown = true ∧ e.stopping = true)) :
    respOut cfg n e = ⟨true, false, true⟩ := by
  have : respClose cfg n e = true := by
    unfold respClose
    rcases h with h | h | h | h | h
    · simp [h]
    · simp [h]
    · simp [h.1, h.2]
    · simp [h]
    · simp [h.1, h.2]
  simp [respOut, this]

/-- nothing is served on the connection after a response that said close -/
theorem nothing_after_close (cfg : LoopCfg) (es : List ReqEv) : ∀ (n : Nat) (pre post : List RespOut) (o : RespOut),
    serveLoop cfg n es = pre ++ o :: post → o.closedAfter = true → post = [] := by
  induction es with
  | nil => intro n pre post o h; simp [serveLoop] at h
  | cons e rest ih =>
    intro n pre post o h hc
    simp only [serveLoop] at h
    split at h
    · -- the loop stopped here: the list is a singleton
      cases pre with
      | nil => simp at h; exact h.2
      | cons p pre' => simp at h
    · rename_i hopen
      cases pre with
      | nil =>
        simp at h
        rw [← h.1] at hc
        exact absurd hc hopen
      | cons p pre' =>
        simp at h
        exact ih (n + 1) pre' post o h.2 hc

/-- HTTP/1.0 keep-alive responses carry `Connection: keep-alive` -/
theorem http10_keepalive_header (cfg : LoopCfg) (n : Nat) (e : ReqEv) (h10 : e.http11 = false)
    (hopen : respClose cfg n e = false) : respOut cfg n e = ⟨false, true, false⟩ := by
  simp [respOut, hopen, h10]

/-! ### the request asked for close -/

/-- RFC 9110 §7.6.1: `close` is one of the comma-separated, case-insensitive tokens of the field value -/
def hasToken (v tok : Bytes) : Bool := (splitOnByte 44 v).any fun it => lowerB (trimWs it) == tok

theorem splitComma_eq (v : Bytes) : splitComma v = splitOnByte 44 v := by
  induction v with
  | nil => rfl
  | cons c t ih => simp only [splitComma, splitOnByte, ih]; rfl

theorem stripSp_eq (b : Bytes) : stripSp b = trimWs b := by
  have : isSpTab = isWs := by funext c; rfl
  unfold stripSp trimWs; rw [this]

theorem closeB_eq : strClose = ofString "close" := by decide +kernel

/-- fasthttp's token test is the RFC's, for any non-empty field value -/
theorem hasHeaderValue_close (v : Bytes) (hne : v ≠ []) : hasHeaderValue v strClose = hasToken v (ofString "close") := by
  have he : v.isEmpty = false := by cases v <;> simp_all
  unfold hasHeaderValue hasToken
  simp only [he, Bool.false_eq_true, if_false, splitComma_eq]
  congr 1
  funext it
  rw [ciEq_letters _ (by decide +kernel), stripSp_eq, closeB_eq]

/-- a Connection field carrying the `close` token anywhere in its list marks the request close
    (`Close`, `keep-alive, close`, `foo,close` — the inputs the unrepaired parser ignored) -/
theorem close_token_marks_close (noH11 : Bool) (st : PState) (k v : Bytes) (st' : PState)
    (hk : ciEq k strConnectionB = true) (hcl : ciEq k strContentLength = false) (hte : ciEq k strTransferEncoding = false)
    (hh : ciEq k strHostB = false) (hv : v ≠ []) (htok : hasToken v (ofString "close") = true)
    (hs : stepField noH11 st k v = some st') : st'.connClose = true := by
  unfold stepField at hs
  split at hs
  · cases hs
  · simp only [hcl, hte, hh, hk, Bool.false_eq_true, if_false, if_true] at hs
    split at hs
    · injection hs with hs; subst hs; rfl
    · injection hs with hs; subst hs
      simp [hasHeaderValue_close v hv, htok]

/-! non-vacuity -/
example : (parseDecision false [(ofString "Host", ofString "h"), (ofString "Connection", ofString "keep-alive, Close")]) =
    .ok (-2) true := by decide +kernel
example : (parseDecision false [(ofString "Host", ofString "h"), (ofString "connection", ofString "foo,close")]) =
    .ok (-2) true := by decide +kernel
example : serveLoop ⟨false, 2, false⟩ 1 [⟨false, true, false, false⟩, ⟨false, true, false, false⟩, ⟨false, true, false, false⟩] =
    [⟨false, false, false⟩, ⟨true, false, true⟩] := by decide +kernel

end Fh.Props.C10
