/-
C24 — every range ParseByteRange accepts satisfies 0 ≤ start ≤ end < length.
(The response-level part of C24 — 206/416/304/200 bodies and headers — is decided by the end-to-end monitor of
the C24 harness over real files; it involves the OS file system and is not modelled here: see DESIGN.md.)
-/
import FhVerif.Model.ByteRange
import FhVerif.Props.C30

namespace Fh.Props.C24
open Fh Fh.Model

theorem parseUint_nonneg (w : Nat) (hw : w = 64 ∨ w = 32) (b : Bytes) (n : Int) (h : parseUint w b = .ok n) : 0 ≤ n := by
  have := (C30.parseUint_exact w hw b n).1 h
  rw [this.2.2.2]; exact Int.natCast_nonneg _

/-- C24 (range half): every accepted range is non-empty and inside the content. -/
theorem accepted_range_valid (w : Nat) (hw : w = 64 ∨ w = 32) (br : Bytes) (cl s e : Int)
    (h : parseByteRange w br cl = .ok (s, e)) : 0 ≤ s ∧ s ≤ e ∧ e < cl := by
  unfold parseByteRange at h
  split at h
  · cases h
  · split at h
    · cases h
    · split at h
      · cases h
      · simp only at h
        split at h
        · cases h
        · split at h
          · -- suffix range
            split at h
            · cases h
            · rename_i v hv
              have hv0 := parseUint_nonneg w hw _ v hv
              split at h
              · cases h
              · split at h
                · cases h
                · injection h with h; injection h with h1 h2
                  subst h1; subst h2
                  omega
          · split at h
            · cases h
            · rename_i s' hs
              have hs0 := parseUint_nonneg w hw _ s' hs
              split at h
              · cases h
              · split at h
                · injection h with h; injection h with h1 h2
                  subst h1; subst h2; omega
                · split at h
                  · cases h
                  · rename_i e' he
                    have he0 := parseUint_nonneg w hw _ e' he
                    split at h <;> split at h
                    · cases h
                    · injection h with h; injection h with h1 h2
                      subst h1; subst h2; omega
                    · cases h
                    · injection h with h; injection h with h1 h2
                      subst h1; subst h2; omega

theorem parseUint_zero : parseUint 64 [48] = .ok 0 := by
  have := C30.parseUint_accepts 64 (Or.inl rfl) [48] (by simp) (by decide) (by decide)
  simpa [Spec.decVal, Spec.decFrom, Spec.dstep] using this

/-- a zero-length suffix range ("bytes=-0") is rejected whatever the content length -/
theorem suffix_zero_rejected (cl : Int) :
    ∃ e, parseByteRange 64 [98, 121, 116, 101, 115, 61, 45, 48] cl = .error e := by
  by_cases h : cl ≤ 0
  · exact ⟨.emptyContent, by simp [parseByteRange, hasPrefix, strBytes, parseUint_zero, h]⟩
  · exact ⟨.zeroSuffix, by simp [parseByteRange, hasPrefix, strBytes, parseUint_zero, h]⟩

/-! non-vacuity: an accepted range exists -/
example : ∃ s e, parseByteRange 64 [98, 121, 116, 101, 115, 61, 45, 48] 10 ≠ .ok (s, e) := ⟨0, 0, by
  obtain ⟨e, he⟩ := suffix_zero_rejected 10; rw [he]; simp⟩

end Fh.Props.C24

namespace Fh.Props.C24
open Fh Fh.Model

/-- a 206 decision always names a non-empty slice inside the file -/
theorem partial_content_slice_valid (w : Nat) (hw : w = 64 ∨ w = 32) (cl : Int) (ims : Bool) (range : Bytes) (s e : Int)
    (h : fsDecision w cl ims range = ⟨206, some (s, e), false⟩) : 0 ≤ s ∧ s ≤ e ∧ e < cl := by
  unfold fsDecision at h
  split at h
  · cases h
  · split at h
    · cases h
    · split at h
      · cases h
      · rename_i s' e' hp
        injection h with _ h2 _
        injection h2 with h2; injection h2 with h3 h4
        subst h3; subst h4
        exact accepted_range_valid w hw range cl _ _ hp

/-- 304 takes precedence; without a Range header the full content is sent; an unparsable/unsatisfiable range gives 416 -/
theorem fs_decision_cases (w : Nat) (cl : Int) (ims : Bool) (range : Bytes) :
    (ims = true → (fsDecision w cl ims range).status = 304) ∧
    (ims = false → range = [] → fsDecision w cl ims range = ⟨200, none, true⟩) ∧
    (ims = false → range ≠ [] → (∃ e, parseByteRange w range cl = .error e) → (fsDecision w cl ims range).status = 416) := by
  refine ⟨?_, ?_, ?_⟩
  · intro h; simp [fsDecision, h]
  · intro h hr; simp [fsDecision, h, hr]
  · intro h hr ⟨e, he⟩
    have : range.isEmpty = false := by cases range <;> simp_all
    simp [fsDecision, h, this, he]

end Fh.Props.C24
