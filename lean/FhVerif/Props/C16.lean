/-
C16 — Timed-out handlers cannot affect what is sent.
-/
import FhVerif.Model.Timeout
import FhVerif.Model.TimeoutSem

namespace Fh.Props.C16
open Fh Fh.Model

/-- ownership invariant: the ctx the server reads, the pooled ctxs and the abandoned ctxs are pairwise distinct,
    and all lie below `next` -/
structure TInv (w : TWorld) : Prop where
  srv_not_abandoned : w.serverCtx ∉ w.abandoned
  srv_not_free : w.serverCtx ∉ w.free
  free_not_abandoned : ∀ i ∈ w.free, i ∉ w.abandoned
  free_nodup : w.free.Nodup
  srv_lt : w.serverCtx < w.next
  free_lt : ∀ i ∈ w.free, i < w.next
  ab_lt : ∀ i ∈ w.abandoned, i < w.next

theorem tinv_init : TInv tinit := by
  refine ⟨by simp [tinit], by simp [tinit], by simp [tinit], by simp [tinit], by simp [tinit], by simp [tinit], by simp [tinit]⟩

theorem acquire_fresh (w : TWorld) (h : TInv w) :
    (acquire w).1 ∉ w.abandoned ∧ (acquire w).1 ≠ w.serverCtx ∧ (acquire w).1 ∉ (acquire w).2.free ∧
    (acquire w).1 < (acquire w).2.next ∧ (acquire w).2.free.Nodup ∧ (∀ i ∈ (acquire w).2.free, i ∈ w.free) ∧
    w.next ≤ (acquire w).2.next ∧ (acquire w).2.abandoned = w.abandoned ∧ (acquire w).2.serverCtx = w.serverCtx ∧
    (acquire w).2.heap = w.heap := by
  unfold acquire
  cases hf : w.free with
  | nil =>
    simp only
    refine ⟨?_, ?_, by simp, by omega, by simp, by simp, by omega, trivial, trivial, trivial⟩
    · intro hm; have := h.ab_lt _ hm; omega
    · have := h.srv_lt; omega
  | cons id rest =>
    simp only
    have hnd := h.free_nodup; rw [hf] at hnd
    have hid : id ∈ w.free := by rw [hf]; simp
    refine ⟨h.free_not_abandoned id hid, ?_, (List.nodup_cons.1 hnd).1, h.free_lt id hid, (List.nodup_cons.1 hnd).2,
      fun i hi => by simp [hi], Nat.le_refl _, trivial, trivial, trivial⟩
    intro e; exact h.srv_not_free (e ▸ hid)

theorem tstep_inv (w : TWorld) (e : TEvent) (h : TInv w) : TInv (tstep w e) := by
  cases e with
  | handlerWrite r => exact ⟨h.1, h.2, h.3, h.4, h.5, h.6, h.7⟩
  | requestDone => exact ⟨h.1, h.2, h.3, h.4, h.5, h.6, h.7⟩
  | lateWrite id r =>
    simp only [tstep]; split
    · exact ⟨h.1, h.2, h.3, h.4, h.5, h.6, h.7⟩
    · exact h
  | timeout resp =>
    obtain ⟨a1, a2, a3, a4, a5, a6, a7, a8, a9, _⟩ := acquire_fresh w h
    simp only [tstep]
    refine ⟨?_, a3, ?_, a5, a4, ?_, ?_⟩
    · simp only [a8, List.mem_cons, not_or]; exact ⟨a2, a1⟩
    · intro i hi
      simp only [a8, List.mem_cons, not_or]
      exact ⟨fun e => h.srv_not_free (e ▸ a6 i hi), h.free_not_abandoned i (a6 i hi)⟩
    · intro i hi; exact Nat.lt_of_lt_of_le (h.free_lt i (a6 i hi)) a7
    · intro i hi
      simp only [a8, List.mem_cons] at hi
      rcases hi with rfl | hi
      · exact Nat.lt_of_lt_of_le h.srv_lt a7
      · exact Nat.lt_of_lt_of_le (h.ab_lt i hi) a7
  | connDone =>
    -- acquire from the non-empty pool returns the just released id: a valid state again
    simp only [tstep, acquire]
    refine ⟨h.srv_not_abandoned, h.srv_not_free, h.free_not_abandoned, h.free_nodup, h.srv_lt, h.free_lt, h.ab_lt⟩

/-- C16: whatever an abandoned (timed-out) handler writes, and whenever it does so, what the server sends is unchanged -/
theorem late_writes_unobservable (es : List TEvent) (id : Nat) (r : RespData) :
    let w := es.foldl tstep tinit
    wireOf (tstep w (.lateWrite id r)) = wireOf w := by
  intro w
  have hinv : TInv w := by
    show TInv (es.foldl tstep tinit)
    suffices h : ∀ w0, TInv w0 → TInv (es.foldl tstep w0) from h _ tinv_init
    induction es with
    | nil => intro w0 h; exact h
    | cons e rest ih => intro w0 h; exact ih _ (tstep_inv w0 e h)
  simp only [tstep, wireOf]
  split
  · rename_i hm
    have : w.serverCtx ≠ id := fun e => hinv.srv_not_abandoned (e ▸ hm)
    simp [upd, this]
  · rfl

/-- the client receives exactly the timeout response: right after the swap the server's ctx holds the copy -/
theorem timeout_response_exact (w : TWorld) (resp : RespData) : wireOf (tstep w (.timeout resp)) = resp := by
  simp only [tstep, wireOf, acquire]
  split <;> simp [upd]

/-- the abandoned ctx is never handed out again: later requests are served from other objects -/
theorem abandoned_never_reused (es : List TEvent) :
    let w := es.foldl tstep tinit
    w.serverCtx ∉ w.abandoned ∧ ∀ i ∈ w.free, i ∉ w.abandoned := by
  intro w
  have hinv : TInv w := by
    show TInv (es.foldl tstep tinit)
    suffices h : ∀ w0, TInv w0 → TInv (es.foldl tstep w0) from h _ tinv_init
    induction es with
    | nil => intro w0 h; exact h
    | cons e rest ih => intro w0 h; exact ih _ (tstep_inv w0 e h)
  exact ⟨hinv.srv_not_abandoned, hinv.free_not_abandoned⟩

/-! non-vacuity: handler writes, times out, keeps writing; the wire shows the timeout response -/
example : (wireOf ([TEvent.handlerWrite ⟨200, [1], []⟩, .timeout ⟨408, [2], []⟩, .lateWrite 0 ⟨299, [3], []⟩].foldl tstep tinit)).status = 408 := by
  decide

/-! ### "At most Concurrency wrapped handlers run at the same time; excess calls are answered with 429" -/
section Sem
open Fh.Model.TimeoutSem

/-- every token in concurrencyCh belongs to a wrapped handler that is still running, and there are at most `cap` -/
def SemInv (s : St) : Prop := s.running = s.tokens ∧ s.tokens ≤ s.cap

theorem sem_step_inv (s : St) (e : Ev) (h : SemInv s) : SemInv (step s e).1 ∧ (step s e).1.cap = s.cap := by
  obtain ⟨h1, h2⟩ := h
  cases e
  · by_cases hc : s.tokens < s.cap
    · have : step s .call = ({ s with tokens := s.tokens + 1, running := s.running + 1 }, .started) := by simp [step, hc]
      rw [this]; exact ⟨⟨by show s.running + 1 = s.tokens + 1; omega, by show s.tokens + 1 ≤ s.cap; omega⟩, rfl⟩
    · have : step s .call = (s, .rejected) := by simp [step, hc]
      rw [this]; exact ⟨⟨h1, h2⟩, rfl⟩
  · by_cases hc : 0 < s.running
    · have : step s .finish = ({ s with tokens := s.tokens - 1, running := s.running - 1 }, .none) := by simp [step, hc]
      rw [this]; exact ⟨⟨by show s.running - 1 = s.tokens - 1; omega, by show s.tokens - 1 ≤ s.cap; omega⟩, rfl⟩
    · have : step s .finish = (s, .none) := by simp [step, hc]
      rw [this]; exact ⟨⟨h1, h2⟩, rfl⟩
  · exact ⟨⟨h1, h2⟩, rfl⟩

theorem sem_run_inv (es : List Ev) (s : St) (h : SemInv s) : SemInv (run s es) ∧ (run s es).cap = s.cap := by
  induction es generalizing s with
  | nil => exact ⟨h, rfl⟩
  | cons e rest ih =>
    have h1 := sem_step_inv s e h
    have h2 := ih (step s e).1 h1.1
    exact ⟨h2.1, h2.2.trans h1.2⟩

/-- C16 (bound): after any history of calls, handler returns and timeouts — in any order and number — at most
    Concurrency wrapped handlers are running, abandoned ones included -/
theorem at_most_concurrency_running (cap : Nat) (es : List Ev) : (run (init cap) es).running ≤ cap := by
  have h := sem_run_inv es (init cap) ⟨rfl, Nat.zero_le _⟩
  have hc : (run (init cap) es).cap = cap := h.2
  have := h.1
  unfold SemInv at this
  omega

/-- C16 (429): in every reachable state, a call that finds Concurrency handlers running is rejected and starts nothing;
    a call that finds fewer is started -/
theorem excess_call_rejected (cap : Nat) (es : List Ev) :
    let s := run (init cap) es
    (s.running = cap → step s .call = (s, .rejected)) ∧ (s.running < cap → (step s .call).2 = .started) := by
  intro s
  have h := sem_run_inv es (init cap) ⟨rfl, Nat.zero_le _⟩
  have hc : s.cap = cap := h.2
  have hi : s.running = s.tokens ∧ s.tokens ≤ s.cap := h.1
  constructor
  · intro hr
    have : ¬ s.tokens < s.cap := by omega
    simp [step, this]
  · intro hr
    have : s.tokens < s.cap := by omega
    simp [step, this]

/-- a timeout firing does not free a slot: only the return of the wrapped handler does -/
theorem timeout_fire_keeps_slot (s : St) : (step s .fire).1 = s := rfl

/-- once every abandoned handler has returned all slots are free again: the next call is started, not rejected -/
theorem slots_return_when_handlers_finish (cap : Nat) (es : List Ev) (hc : 0 < cap) :
    let s := finishAll (run (init cap) es).running (run (init cap) es)
    s.running = 0 ∧ (step s .call).2 = .started := by
  intro s
  have hinv := sem_run_inv es (init cap) ⟨rfl, Nat.zero_le _⟩
  have key : ∀ (n : Nat) (t : St), SemInv t → t.running = n → t.cap = cap →
      SemInv (finishAll n t) ∧ (finishAll n t).running = 0 ∧ (finishAll n t).cap = cap := by
    intro n
    induction n with
    | zero => intro t ht hr hcap; exact ⟨ht, hr, hcap⟩
    | succ k ih =>
      intro t ht hr hcap
      have h1 := sem_step_inv t .finish ht
      have hrun : (step t .finish).1.running = k := by
        have hpos : 0 < t.running := by omega
        simp [step, hpos]; omega
      exact ih _ h1.1 hrun (h1.2.trans hcap)
  have hk := key (run (init cap) es).running (run (init cap) es) hinv.1 rfl hinv.2
  refine ⟨hk.2.1, ?_⟩
  have hi : s.running = s.tokens ∧ s.tokens ≤ s.cap := hk.1
  have hlt : s.tokens < s.cap := by
    have h0 : s.running = 0 := hk.2.1
    have hcap : s.cap = cap := hk.2.2
    omega
  simp [step, hlt]

/-! non-vacuity: Concurrency 1, a handler that outlives its timeout, then two more requests: both 429; once it returned, 200 -/
example : serve (init 1) [true, false, true] = [408, 429, 429] := by decide
example : serve (init 2) [true, false, true, false] = [408, 200, 408, 429] := by decide
example : (run (init 1) [.call, .fire, .call, .finish, .call]).running = 1 := by decide
-- Concurrency 2: two handlers time out (408, 408), the third call is rejected (429); they return; the next calls are served
example : serveTok (init 2) [1, 1, 0, 2, 0, 1] = [408, 408, 429, 200, 408] := by decide
end Sem

end Fh.Props.C16
