/-
C16 — Timed-out handlers cannot affect what is sent.
-/
import FhVerif.Model.Timeout

namespace Fh.Props.C16
open Fh Fh.Model

/-- ownership invariant: the ctx the server reads, the pooled ctxs and the abandoned ctxs are pairwise distinct,
    and all lie below `next` -/
structure TInv (w : TWorld) : Prop where
  srv_not_abandoned : w.serverCtx ∉ w.abandoned
  srv_not_free : w.serverCtx ∉ w.free
  free_not_abandoned : ∀ i ∈ w.free, i ∉ w.abandoned
  free_nodup : w.free.Nodup
  srv_lt : w.serverCtx < w.next
  free_lt : ∀ i ∈ w.free, i < w.next
  ab_lt : ∀ i ∈ w.abandoned, i < w.next

theorem tinv_init : TInv tinit := by
  refine ⟨by simp [tinit], by simp [tinit], by simp [tinit], by simp [tinit], by simp [tinit], by simp [tinit], by simp [tinit]⟩

theorem acquire_fresh (w : TWorld) (h : TInv w) :
    (acquire w).1 ∉ w.abandoned ∧ (acquire w).1 ≠ w.serverCtx ∧ (acquire w).1 ∉ (acquire w).2.free ∧
    (acquire w).1 < (acquire w).2.next ∧ (acquire w).2.free.Nodup ∧ (∀ i ∈ (acquire w).2.free, i ∈ w.free) ∧
    w.next ≤ (acquire w).2.next ∧ (acquire w).2.abandoned = w.abandoned ∧ (acquire w).2.serverCtx = w.serverCtx ∧
    (acquire w).2.heap = w.heap := by
  unfold acquire
  cases hf : w.free with
  | nil =>
    simp only
    refine ⟨?_, ?_, by simp, by omega, by simp, by simp, by omega, trivial, trivial, trivial⟩
    · intro hm; have := h.ab_lt _ hm; omega
    · have := h.srv_lt; omega
  | cons id rest =>
    simp only
    have hnd := h.free_nodup; rw [hf] at hnd
    have hid : id ∈ w.free := by rw [hf]; simp
    refine ⟨h.free_not_abandoned id hid, ?_, (List.nodup_cons.1 hnd).1, h.free_lt id hid, (List.nodup_cons.1 hnd).2,
      fun i hi => by simp [hi], Nat.le_refl _, trivial, trivial, trivial⟩
    intro e; exact h.srv_not_free (e ▸ hid)

theorem tstep_inv (w : TWorld) (e : TEvent) (h : TInv w) : TInv (tstep w e) := by
  cases e with
  | handlerWrite r => exact ⟨h.1, h.2, h.3, h.4, h.5, h.6, h.7⟩
  | requestDone => exact ⟨h.1, h.2, h.3, h.4, h.5, h.6, h.7⟩
  | lateWrite id r =>
    simp only [tstep]; split
    · exact ⟨h.1, h.2, h.3, h.4, h.5, h.6, h.7⟩
    · exact h
  | timeout resp =>
    obtain ⟨a1, a2, a3, a4, a5, a6, a7, a8, a9, _⟩ := acquire_fresh w h
    simp only [tstep]
    refine ⟨?_, a3, ?_, a5, a4, ?_, ?_⟩
    · simp only [a8, List.mem_cons, not_or]; exact ⟨a2, a1⟩
    · intro i hi
      simp only [a8, List.mem_cons, not_or]
      exact ⟨fun e => h.srv_not_free (e ▸ a6 i hi), h.free_not_abandoned i (a6 i hi)⟩
    · intro i hi; exact Nat.lt_of_lt_of_le (h.free_lt i (a6 i hi)) a7
    · intro i hi
      simp only [a8, List.mem_cons] at hi
      rcases hi with rfl | hi
      · exact Nat.lt_of_lt_of_le h.srv_lt a7
      · exact Nat.lt_of_lt_of_le (h.ab_lt i hi) a7
  | connDone =>
    -- acquire from the non-empty pool returns the just released id: a valid state again
    simp only [tstep, acquire]
    refine ⟨h.srv_not_abandoned, h.srv_not_free, h.free_not_abandoned, h.free_nodup, h.srv_lt, h.free_lt, h.ab_lt⟩

/-- C16: whatever an abandoned (timed-out) handler writes, and whenever it does so, what the server sends is unchanged -/
theorem late_writes_unobservable (es : List TEvent) (id : Nat) (r : RespData) :
    let w := es.foldl tstep tinit
    wireOf (tstep w (.lateWrite id r)) = wireOf w := by
  intro w
  have hinv : TInv w := by
    show TInv (es.foldl tstep tinit)
    suffices h : ∀ w0, TInv w0 → TInv (es.foldl tstep w0) from h _ tinv_init
    induction es with
    | nil => intro w0 h; exact h
    | cons e rest ih => intro w0 h; exact ih _ (tstep_inv w0 e h)
  simp only [tstep, wireOf]
  split
  · rename_i hm
    have : w.serverCtx ≠ id := fun e => hinv.srv_not_abandoned (e ▸ hm)
    simp [upd, this]
  · rfl

/-- the client receives exactly the timeout response: right after the swap the server's ctx holds the copy -/
theorem timeout_response_exact (w : TWorld) (resp : RespData) : wireOf (tstep w (.timeout resp)) = resp := by
  simp only [tstep, wireOf, acquire]
  split <;> simp [upd]

/-- the abandoned ctx is never handed out again: later requests are served from other objects -/
theorem abandoned_never_reused (es : List TEvent) :
    let w := es.foldl tstep tinit
    w.serverCtx ∉ w.abandoned ∧ ∀ i ∈ w.free, i ∉ w.abandoned := by
  intro w
  have hinv : TInv w := by
    show TInv (es.foldl tstep tinit)
    suffices h : ∀ w0, TInv w0 → TInv (es.foldl tstep w0) from h _ tinv_init
    induction es with
    | nil => intro w0 h; exact h
    | cons e rest ih => intro w0 h; exact ih _ (tstep_inv w0 e h)
  exact ⟨hinv.srv_not_abandoned, hinv.free_not_abandoned⟩

/-! non-vacuity: handler writes, times out, keeps writing; the wire shows the timeout response -/
example : (wireOf ([TEvent.handlerWrite ⟨200, [1], []⟩, .timeout ⟨408, [2], []⟩, .lateWrite 0 ⟨299, [3], []⟩].foldl tstep tinit)).status = 408 := by
  decide

end Fh.Props.C16
