/-
C41 — TCPDialer bounds concurrent dials, rotates addresses, honours its timeout.
Property theorems only (helpers in Proofs/Dialer.lean).

Level: proof, partial.  Proved for every event list / every environment behaviour: the concurrency bound, the
rotation (after the repair of the uint32 wrap-around), the identity of the timeout error, and that every blocking
point of `tryDial` has the deadline as an alternative exit.  Residue (assumed in `Model.Dialer.Prompt`, sampled by
the harness with generous slack): the kernel's connect behaviour and the promptness of Go timers / context
cancellation — the "plus scheduling slack" of the statement.
-/
import FhVerif.Proofs.Dialer
import FhVerif.Gen.Consts
import FhVerif.Gen.DialerCtx

namespace Fh.Props.C41
open Fh Fh.Model.Dialer Fh.Proofs.Dialer

/-- DefaultDialTimeout (used by Dial / DialDualStack), regenerated from tcpdialer.go -/
theorem defaultDialTimeout_eq_3s : Gen.defaultDialTimeoutNs = 3 * 1000000000 := by decide

/-! ### concurrency bound -/

/-- The semaphore of the model (`State.init N` has capacity N = Concurrency) exists for EVERY path through `dial`:
    pinned by a fact regenerated from tcpdialer.go on every run — the `d.once.Do(…)` block that creates
    `d.concurrencyCh` from `Concurrency` is the first statement of `dial`, before any `return` and before any call of
    `tryDial` (in particular before the DisableDNSResolution shortcut). -/
theorem semaphore_created_before_any_dial : Gen.dialOnceShape = (true, true, 0) := by decide


/-- No attempt bypasses the semaphore: every `tryDial` call in `dial` — the DisableDNSResolution shortcut and every
    iteration of the address loop, first try and fail-over tries alike — is handed the dialer's own `d.concurrencyCh`
    (fact regenerated from tcpdialer.go on every run).  In the model `dialLoop` passes the same `hasSem` to every try, and
    each try is one `spawn … dialDone` actor of the semaphore system, so the bound below counts connect ATTEMPTS. -/
theorem every_attempt_uses_the_semaphore : Gen.dialTryDialSemArgs = ["d.concurrencyCh", "d.concurrencyCh"] := by decide

/-- A TCPDialer with Concurrency N > 0 never has more than N dials in progress — for EVERY interleaving of the
    atomic steps of any number of concurrent `tryDial` calls; the dials in progress are exactly the occupied slots. -/
theorem in_progress_le_N (N : Nat) (hN : 0 < N) (evs : List Ev) (s : State)
    (hr : run (State.init N) evs = some s) : s.inProgress ≤ N ∧ s.inProgress = s.sem := by
  obtain ⟨hinv, hcap⟩ := sinv_run evs _ s (sinv_init N) hr
  have hc : s.cap = N := by rw [hcap]; rfl
  obtain ⟨h1, h2⟩ := hinv (by omega)
  omega

/-- release on return: a dial in progress can always finish (its deferred receive never blocks), and afterwards it
    no longer holds a slot -/
theorem release_never_blocks (N : Nat) (hN : 0 < N) (evs : List Ev) (s : State)
    (hr : run (State.init N) evs = some s) (a : Nat) (ha : s.actors[a]? = some .dialing) (o : DialOutcome) :
    ∃ s', step s (.dialDone a o) = some s' ∧ s'.sem + 1 = s.sem ∧ s'.actors[a]? = some (.done (resOf o)) := by
  obtain ⟨hinv, hcap⟩ := sinv_run evs _ s (sinv_init N) hr
  have hc : s.cap = N := by rw [hcap]; rfl
  obtain ⟨h1, _⟩ := hinv (by omega)
  obtain ⟨hlt, heq⟩ := List.getElem?_eq_some_iff.mp ha
  have hpos : 0 < s.inProgress :=
    List.countP_pos_iff.mpr ⟨.dialing, by rw [← heq]; exact List.getElem_mem hlt, rfl⟩
  have hne : s.cap ≠ 0 := by omega
  have hs : s.sem ≠ 0 := by omega
  simp only [step, ha, hne, hs, if_false]
  exact ⟨_, rfl, by simp only; omega, by simp [hlt]⟩

/-- no leak: when every call has returned, all slots are free -/
theorem all_returned_all_free (N : Nat) (hN : 0 < N) (evs : List Ev) (s : State)
    (hr : run (State.init N) evs = some s) (hd : ∀ p ∈ s.actors, ∃ r, p = .done r) : s.sem = 0 := by
  obtain ⟨_, h2⟩ := in_progress_le_N N hN evs s hr
  rw [← h2]
  apply List.countP_eq_zero.mpr
  intro p hp
  obtain ⟨r, rfl⟩ := hd p hp
  simp [Pc.isDialing]

/-- the deadline is an exit of the semaphore wait: a waiting call can always take its timer branch, returns the
    timeout, and takes no slot -/
theorem timeout_exit_always_enabled (s : State) (a : Nat) (ha : s.actors[a]? = some .waiting) :
    ∃ s', step s (.timerFire a) = some s' ∧ s'.sem = s.sem ∧ s'.actors[a]? = some (.done .timeout) := by
  obtain ⟨hlt, _⟩ := List.getElem?_eq_some_iff.mp ha
  simp only [step, ha]
  exact ⟨_, rfl, rfl, by simp [hlt]⟩

/-! ### the timeout error -/

/-- Every way `tryDial` can time out — deadline already passed on entry, timer fired while waiting for a slot,
    context deadline exceeded inside DialContext — returns ErrDialTimeout wrapped in ErrDialWithUpstream with the
    address that was being dialled; a timed-out semaphore wait performs no send/receive on the channel. -/
theorem timeout_error_is_wrapped_ErrDialTimeout (addr : Bytes) (hasSem : Bool) (e : TryEnv)
    (h : e.expired = true ∨ (hasSem = true ∧ e.sem = .timerFired) ∨ e.dial = .ctxDeadline) :
    (tryDial addr hasSem e).1 = .err ⟨addr, true⟩ ∧ (tryDial addr hasSem e).2.sends = (tryDial addr hasSem e).2.recvs := by
  unfold tryDial
  by_cases h1 : e.expired = true
  · simp [h1]
  · by_cases h2 : hasSem = true ∧ e.sem = .timerFired
    · simp [h1, h2.1, h2.2]
    · have h3 : e.dial = .ctxDeadline := by
        rcases h with h | h | h
        · exact absurd h h1
        · exact absurd h h2
        · exact h
      have h2' : (hasSem && e.sem == .timerFired) = false := by
        cases hasSem <;> simp_all
      simp only [h1, h2', h3, Bool.false_eq_true, if_false]
      cases hasSem <;> simp

/-- every error of `tryDial` is wrapped with the address dialled; nothing else is reported as a timeout -/
theorem error_is_wrapped_with_upstream (addr : Bytes) (hasSem : Bool) (e : TryEnv) (x : Err)
    (h : (tryDial addr hasSem e).1 = .err x) :
    x.upstream = addr ∧
    (x.isDialTimeout = true ↔ (e.expired = true ∨ (hasSem = true ∧ e.sem = .timerFired) ∨ e.dial = .ctxDeadline)) := by
  refine ⟨tryDial_err_upstream addr hasSem e x h, ?_⟩
  unfold tryDial at h
  by_cases h1 : e.expired = true
  · simp only [h1, if_true] at h; cases h; simp [h1]
  · by_cases h2 : (hasSem && e.sem == .timerFired) = true
    · simp only [h1, h2, if_true, Bool.false_eq_true, if_false] at h; cases h
      simp only [Bool.and_eq_true, beq_iff_eq] at h2
      simp [h2.1, h2.2]
    · simp only [h1, h2, Bool.false_eq_true, if_false] at h
      have h2' : ¬ (hasSem = true ∧ e.sem = .timerFired) := by
        intro hc; apply h2; simp [hc.1, hc.2]
      cases hd : e.dial <;> simp only [hd] at h <;> cases h <;> simp [h1, h2']

/-- `dial` hands the timeout of a try through unchanged: an error it returns names the address of the LAST try made,
    and if that error is a timeout no further address was tried after it (the loop returned at once). -/
theorem dial_error_names_last_address (addrs : List Bytes) (hasSem : Bool) (idx : Nat) (env : Nat → Nat → TryEnv)
    (hn : 0 < addrs.length) (e : Err) (h : (dial addrs hasSem idx env).res = some (.err e)) :
    ∃ a, (dial addrs hasSem idx env).tried.getLast? = some a ∧ e.upstream = addrs.getD a [] :=
  (err_names_last nextFixed addrs hasSem env addrs.length idx 0 none).2 hn e h

/-! ### returning in time (relative to the assumed promptness of timers and context cancellation) -/

/-- The deadline of the connect is the ABSOLUTE deadline `dial` computed on entry (`TimedEnv.deadline`, the same value
    the semaphore timer is derived from), not a fresh relative timeout started after the wait for a slot.  Pinned to
    the source by a fact regenerated from tcpdialer.go on every run: the context handed to DialContext is built by
    `context.WithDeadline(…, deadline)` with `deadline` the (never reassigned) parameter of tryDial.  This is what
    makes assumption `Prompt.dial_by_ctx` speak about `deadline` and lets the time spent waiting for a slot count
    against the timeout. -/
theorem connect_context_uses_absolute_deadline :
    Gen.tryDialCtx = ("WithDeadline", "deadline") ∧ Gen.tryDialDeadlineIsParam = true := by decide

/-- ONE deadline per Dial call: `dial` calls time.Now() exactly once, assigns `deadline` exactly once and before the
    name lookup, and hands that same `deadline` to getTCPAddrs and to every tryDial (fact regenerated from tcpdialer.go on
    every run).  So the time spent in the Resolver, in the wait for a slot and in earlier address attempts all counts
    against the caller's timeout: `TimedEnv.deadline` below is that value. -/
theorem single_deadline_computed_on_entry :
    Gen.dialDeadlineShape = (1, true, "deadline", ["deadline", "deadline"]) := by decide

/-- If timers and context cancellation are at most `slack` late (`Prompt`), `tryDial` returns no later than its
    deadline plus twice that slack (immediately when the deadline had already passed on entry). -/
theorem returns_within_timeout_plus_slack (hasSem : Bool) (e : TryEnv) (x : TimedEnv) (slack : Nat)
    (hp : Prompt hasSem e x slack) :
    tryDialReturnTime hasSem e x ≤ max x.t0 x.deadline + 2 * slack := by
  obtain ⟨h1, h2, h3, h4⟩ := hp
  unfold tryDialReturnTime
  split
  · omega
  · split
    · omega
    · simp only [Nat.max_def] at h4 ⊢
      split at h4 <;> split <;> omega

/-! ### rotation -/

/-- Whatever the endpoints do, the addresses a `dial` call tries are an initial segment of the rotation
    `addrs[(idx + j) % n]`, j = 0, 1, …, for EVERY value of the uint32 rotation counter. -/
theorem tries_follow_rotation (addrs : List Bytes) (hasSem : Bool) (idx : Nat) (env : Nat → Nat → TryEnv)
    (hn : 0 < addrs.length) (hW : addrs.length < 2 ^ 32) :
    ∃ m, m ≤ addrs.length ∧
      (dial addrs hasSem idx env).tried = (List.range m).map (fun j => (idx % addrs.length + j) % addrs.length) :=
  tried_prefix addrs hasSem env hn hW addrs.length idx 0 none

/-- `dial` tries each resolved address of the host, in rotation, before failing: if it returns anything but a
    connection or a timeout, every address index was tried (exactly once, in rotation order). -/
theorem rotation_covers_all_addresses (addrs : List Bytes) (hasSem : Bool) (idx : Nat) (env : Nat → Nat → TryEnv)
    (hn : 0 < addrs.length) (hW : addrs.length < 2 ^ 32)
    (hnc : ∀ u, (dial addrs hasSem idx env).res ≠ some (.conn u))
    (hnt : ∀ e, (dial addrs hasSem idx env).res = some (.err e) → e.isDialTimeout = false) :
    (dial addrs hasSem idx env).tried = (List.range addrs.length).map (fun j => (idx % addrs.length + j) % addrs.length) ∧
    ∀ a, a < addrs.length → a ∈ (dial addrs hasSem idx env).tried := by
  obtain ⟨m, _, htr⟩ := tries_follow_rotation addrs hasSem idx env hn hW
  have hlen := fail_all_tried nextFixed addrs hasSem env addrs.length idx 0 none hnc hnt
  have hm : m = addrs.length := by
    have := congrArg List.length htr
    simp only [List.length_map, List.length_range] at this
    unfold dial at this
    omega
  subst hm
  refine ⟨htr, fun a ha => ?_⟩
  rw [htr]
  exact rot_covers addrs.length idx a ha

/-- consequence used by the run-time monitor: if some address accepts whenever it is tried and no try times out,
    the dial succeeds -/
theorem live_address_is_reached (addrs : List Bytes) (hasSem : Bool) (idx : Nat) (env : Nat → Nat → TryEnv)
    (hn : 0 < addrs.length) (hW : addrs.length < 2 ^ 32) (a0 : Nat) (ha0 : a0 < addrs.length)
    (hlive : ∀ t, ∃ u, (tryDial (addrs.getD a0 []) hasSem (env t a0)).1 = .conn u)
    (hnt : ∀ e, (dial addrs hasSem idx env).res = some (.err e) → e.isDialTimeout = false) :
    ∃ u, (dial addrs hasSem idx env).res = some (.conn u) := by
  apply Classical.byContradiction
  intro hcon
  have hnc : ∀ u, (dial addrs hasSem idx env).res ≠ some (.conn u) := fun u hu => hcon ⟨u, hu⟩
  -- all addresses were tried, in particular a0 — but a try of a0 connects and ends the loop with a connection
  have key : ∀ (k i t : Nat) (last : Option TryRes),
      a0 ∈ (dialLoop nextFixed addrs hasSem env k i t last).tried →
      (∀ e, (dialLoop nextFixed addrs hasSem env k i t last).res = some (.err e) → e.isDialTimeout = false) →
      ∃ u, (dialLoop nextFixed addrs hasSem env k i t last).res = some (.conn u) := by
    intro k
    induction k with
    | zero => intro i t last hmem _; simp [dialLoop] at hmem
    | succ k ih =>
      intro i t last hmem hnt'
      simp only [dialLoop] at hmem hnt' ⊢
      split
      · rename_i u _; exact ⟨u, rfl⟩
      · rename_i x hx
        simp only [hx] at hmem hnt'
        by_cases ht : x.isDialTimeout = true
        · simp only [ht, if_true] at hnt'
          have := hnt' x rfl
          rw [ht] at this; cases this
        · simp only [ht, Bool.false_eq_true, if_false] at hmem hnt' ⊢
          simp only [List.mem_cons] at hmem
          rcases hmem with heq | hmem
          · exfalso
            obtain ⟨u, hu⟩ := hlive t
            rw [heq] at hu
            rw [hu] at hx; cases hx
          · exact ih _ _ _ hmem hnt'
  have hall := (rotation_covers_all_addresses addrs hasSem idx env hn hW hnc hnt).2 a0 ha0
  exact hcon (key addrs.length idx 0 none hall hnt)

/-! ### the defect that was repaired (recorded in KNOWN_FINDINGS.txt as fixed)

Before the repair the loop advanced the index with `idx++` on a uint32.  When the shared counter wraps
(idx = 2^32 - 1) and 2^32 is not a multiple of n, the same address is tried twice and another is skipped:
with three addresses of which only the third is alive the dial failed without ever trying it. -/

private def env3 : Nat → Nat → TryEnv := fun _ a => ⟨false, .immediate, if a = 2 then .connected else .failed⟩
private def addrs3 : List Bytes := [[1], [2], [3]]

/-- the dial came back with a non-timeout error -/
def failedHard (r : DialRes) : Bool :=
  match r.res with
  | some (.err e) => !e.isDialTimeout
  | _ => false

theorem unfixed_rotation_wrap_counterexample :
    ¬ (∀ (idx : Nat), idx < 2 ^ 32 → failedHard (dialUnfixed addrs3 false idx env3) = true →
        ∀ a, a < 3 → a ∈ (dialUnfixed addrs3 false idx env3).tried) := by
  intro h
  have := h (2 ^ 32 - 1) (by decide) (by decide) 2 (by decide)
  revert this
  decide

/-- what the old loop tried at the wrap point: address 0 twice, address 2 never -/
theorem unfixed_tried_at_wrap : (dialUnfixed addrs3 false (2 ^ 32 - 1) env3).tried = [0, 0, 1] := by decide

/-! ### non-vacuity -/

/-- the repaired loop at the same point: 0, 1, 2 — reaches the live address -/
example : dial addrs3 false (2 ^ 32 - 1) env3 = ⟨some (.conn [3]), [0, 1, 2]⟩ := by decide
/-- all refuse: the three addresses in rotation from idx % 3, error names the last one -/
example : dial addrs3 true 7 (fun _ _ => ⟨false, .immediate, .failed⟩) = ⟨some (.err ⟨[1], false⟩), [1, 2, 0]⟩ := by decide
/-- a timeout ends the rotation at once -/
example : dial addrs3 true 7 (fun _ a => ⟨false, .immediate, if a = 2 then .ctxDeadline else .failed⟩)
    = ⟨some (.err ⟨[3], true⟩), [1, 2]⟩ := by decide
/-- N = 1: the second caller waits, times out without a slot; the first finishes and frees the slot -/
example : (run (State.init 1) [.spawn, .spawn, .trySend 0, .trySend 1, .timerFire 1, .dialDone 0 .connected]).map
    (fun s => (s.sem, s.actors)) = some (0, [.done .conn, .done .timeout]) := by decide
example : run (State.init 1) [.spawn, .spawn, .trySend 0, .trySend 1, .acquire 1] = none := by decide
example : ((run (State.init 2) [.spawn, .spawn, .spawn, .trySend 0, .trySend 1, .trySend 2]).map State.inProgress) = some 2 := by decide
example : Prompt true ⟨false, .timerFired, .connected⟩ ⟨0, 100, 103, 0⟩ 5 :=
  ⟨by decide, by decide, by decide, by decide⟩

end Fh.Props.C41
