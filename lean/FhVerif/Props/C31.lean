/-
C31 — Date and IP codecs agree with the standard library.  Property theorems only
(helpers in Proofs/HttpDate.lean, Proofs/IPAddr.lean).
-/
import FhVerif.Proofs.HttpDate
import FhVerif.Proofs.IPAddr
import FhVerif.Model.URI
import FhVerif.Proofs.IPv6b

namespace Fh.Props.C31
open Fh Fh.Model Fh.Spec Fh.Proofs.HttpDate Fh.Proofs.IPAddr Fh.Proofs.IPv6

/-! ### HTTP dates -/

/-- On every 29-byte input the fast parser returns exactly what the fixed layout
    `Mon, 02 Jan 2006 15:04:05 GMT` denotes (accepts the same strings, same Unix second). -/
theorem fast_date_eq_spec (b : Bytes) (h : b.length = 29) : parseRFC1123DateGMT b = httpDateSpec b := by
  unfold parseRFC1123DateGMT httpDateSpec
  rw [civil_eq_fields b h, Option.map_map]
  apply map_congr_some
  intro c hc
  have hv := parse_valid b c hc
  exact (unix_eq' c hv).symm

/-- C31 (fast path): for every input the fast parser either declines or returns the Unix second the layout denotes. -/
theorem fast_date_sound (b : Bytes) (t : Int) (h : parseRFC1123DateGMT b = some t) : httpDateSpec b = some t := by
  have hl : b.length = 29 := by
    unfold parseRFC1123DateGMT at h
    obtain ⟨c, hc, _⟩ := Option.map_eq_some_iff.1 h
    exact parse_len b c hc
  rw [← fast_date_eq_spec b hl]; exact h

/-- what the fast parser accepts is a real calendar date and time of day -/
theorem fast_date_fields_valid (b : Bytes) (c : Civil) (h : parseRFC1123Civil b = some c) :
    c.valid = true := parse_valid b c h

/-- C31 (round trip): for every time with valid UTC civil fields in years 0..9999, parsing AppendHTTPDate's output
    with the fast parser yields that time's Unix second (so ParseHTTPDate never needs the slow path for it). -/
theorem httpdate_roundtrip (c : Civil) (hv : c.valid = true) (hy : c.year ≤ 9999) :
    parseRFC1123DateGMT (appendHTTPDate c) = some (civilUnix c) := by
  unfold parseRFC1123DateGMT
  rw [parse_append c hv hy]; rfl


/-- C31 (round trip, on instants): every Unix second of the years 0000–9999 is the instant of some valid UTC civil
    time, and AppendHTTPDate's output for it is read back to exactly that second by the fast parser. -/
theorem httpdate_roundtrip_unix (n : Int) (h1 : -62167219200 ≤ n) (h2 : n ≤ 253402300799) :
    ∃ c : Civil, c.valid = true ∧ civilUnix c = n ∧ parseRFC1123DateGMT (appendHTTPDate c) = some n := by
  obtain ⟨c, hv, hy, hu⟩ := civil_of_unix n h1 h2
  exact ⟨c, hv, hu, by rw [httpdate_roundtrip c hv hy, hu]⟩

/-! ### IPv4 -/

/-- C31: ParseIPv4 accepts exactly the strings of four dot-separated non-empty decimal fields with values at most 255
    and returns that address (as the executable contract `dottedQuadSpec`). -/
theorem ipv4_accept_iff (s : Bytes) : (parseIPv4 s).toOption = dottedQuadSpec s := parseIPv4_spec s

/-- the same, spelled out: accepted with octets `ip` iff `s` splits on '.' into four decimal fields ≤ 255 with those values -/
theorem ipv4_accept_iff_fields (s : Bytes) (ip : List Nat) :
    parseIPv4 s = .ok ip ↔
      ((splitOn 46 s).length = 4 ∧ (∀ f ∈ splitOn 46 s, f ≠ [] ∧ f.all isDigitB = true ∧ decVal f ≤ 255) ∧
        ip = (splitOn 46 s).map decVal) := by
  have hspec := parseIPv4_spec s
  have hall : (splitOn 46 s).all isDecField = true ↔
      ∀ f ∈ splitOn 46 s, f ≠ [] ∧ f.all isDigitB = true ∧ decVal f ≤ 255 := by
    simp only [List.all_eq_true, isDecField, Bool.and_eq_true, Bool.not_eq_true', decide_eq_true_eq,
      List.isEmpty_eq_false_iff]
    constructor
    · intro h f hf; obtain ⟨⟨a, b⟩, c⟩ := h f hf; exact ⟨a, by simpa using b, c⟩
    · intro h f hf; obtain ⟨a, b, c⟩ := h f hf; exact ⟨⟨a, by simpa using b⟩, c⟩
  constructor
  · intro h
    rw [h] at hspec
    simp only [Except.toOption, dottedQuadSpec] at hspec
    split at hspec
    · rename_i hc
      simp only [Bool.and_eq_true, beq_iff_eq] at hc
      injection hspec with hspec
      exact ⟨hc.1, hall.1 hc.2, hspec⟩
    · cases hspec
  · rintro ⟨h1, h2, h3⟩
    apply toOption_some
    rw [hspec]
    simp [dottedQuadSpec, h1, hall.2 h2, h3]

/-- C31: AppendIPv4 output parses back to the same address -/
theorem ipv4_append_parse (a b c d : Nat) (ha : a ≤ 255) (hb : b ≤ 255) (hc : c ≤ 255) (hd : d ≤ 255) :
    parseIPv4 (appendIPv4 [a, b, c, d]) = .ok [a, b, c, d] := by
  apply toOption_some
  rw [parseIPv4_spec]
  exact quad_append a b c d ha hb hc hd

/-- every accepted octet is a byte -/
theorem ipv4_octets_le_255 (s : Bytes) (ip : List Nat) (h : parseIPv4 s = .ok ip) : ip.length = 4 ∧ ∀ o ∈ ip, o ≤ 255 := by
  obtain ⟨h1, h2, h3⟩ := (ipv4_accept_iff_fields s ip).1 h
  subst h3
  refine ⟨by simpa using h1, ?_⟩
  intro o ho
  obtain ⟨f, hf, rfl⟩ := List.mem_map.1 ho
  exact (h2 f hf).2.2


/-! ### IPv6 literals in URI hosts -/

/-- C31 (URI level): whatever host URI.parse accepts has passed validateIPv6Literal in its final, decoded form —
    with or without a zone, with or without a port (this is what the repaired parseHost guarantees). -/
theorem uri_host_validated (h r : Bytes) (hp : parseHost h = .ok r) : validateIPv6Literal r = none := by
  have hcv : ∀ x r', checkV6 x = .ok r' → validateIPv6Literal r' = none := by
    intro x r' hc
    unfold checkV6 at hc
    split at hc
    · cases hc
    · rename_i hn; injection hc with hc; subst hc; exact hn
  have generic : ∀ r', (match unescape h false with
      | .error e => (Except.error e : Except UErr Bytes)
      | .ok x => checkV6 x) = .ok r' → validateIPv6Literal r' = none := by
    intro r' hg
    split at hg
    · cases hg
    · exact hcv _ _ hg
  unfold parseHost at hp
  simp only at hp
  split at hp
  · split at hp
    · cases hp
    · split at hp
      · cases hp
      · split at hp
        · cases hp
        · split at hp
          · split at hp
            · cases hp
            · split at hp
              · cases hp
              · split at hp
                · cases hp
                · exact hcv _ _ hp
          · exact generic r hp
  · split at hp
    · cases hp
    · split at hp
      · split at hp
        · cases hp
        · split at hp
          · cases hp
          · exact generic r hp
      · exact generic r hp

/-- an accepted bracketed literal "[" addr ["%" zone] "]" … has a non-empty address that passed the address checks
    and, when a zone is present, a non-empty zone -/
theorem ipv6_literal_checked (t : Bytes) (h : validateIPv6Literal (91 :: t) = none) :
    let lit := t.takeWhile (· != 93)
    let addr := lit.takeWhile (· != 37)
    t.contains 93 = true ∧ lit ≠ [] ∧ validIPv6Addr addr = true ∧
      (lit.contains 37 = true → addr.length ≠ lit.length - 1) := by
  simp only [validateIPv6Literal] at h
  split at h
  · cases h
  · rename_i h93
    split at h
    · cases h
    · rename_i hne
      split at h
      · cases h
      · rename_i hz
        split at h
        · rename_i hv
          refine ⟨by simpa using h93, by intro he; simp [he] at hne, hv, ?_⟩
          intro hc; simp at hz; exact hz (by simpa using hc)
        · cases h

/-- C31 (IPv6, soundness): every address validateIPv6Literal's address checks accept is an RFC 4291 §2.2 text form:
    eight groups of 1–4 hex digits, or one "::" standing for at least one group, the last two groups optionally
    written as a dotted quad without leading zeros. -/
theorem ipv6_accept_implies_spec (addr : Bytes) (h : validIPv6Addr addr = true) : ipv6TextSpec addr = true :=
  validIPv6Addr_spec addr h

/-- embedded IPv4 parts accepted by validIPv4 are strict dotted quads (what net/netip accepts) -/
theorem validIPv4_implies_strict_quad (s : Bytes) (h : validIPv4 s = true) : isStrictQuad s = true :=
  (validIPv4_spec s h).1

/-- C31 (URI level): a bracketed host that URI.parse accepts has, between '[' and the closing ']' and in front of
    the optional zone, an RFC 4291 text form of an IPv6 address. -/
theorem bracket_host_is_ipv6 (h t : Bytes) (hp : parseHost h = .ok (91 :: t)) :
    ipv6TextSpec ((t.takeWhile (· != 93)).takeWhile (· != 37)) = true := by
  have hv := uri_host_validated h _ hp
  exact ipv6_accept_implies_spec _ (ipv6_literal_checked t hv).2.2.1

/-- the completeness half of the IPv6 clause ("every zone-less IPv6 address is accepted"): stated, not proved.
    It is decided on every run by the exhaustive enumeration of all strings over {1 a : .} up to length 8 / 10
    (model = Lean spec = net/netip, both directions) and by the structured literals through URI.Parse. -/
def C31_zoneless_complete_full : Prop := ∀ addr : Bytes, ipv6TextSpec addr = true → validIPv6Addr addr = true

/-! non-vacuity -/
example : parseRFC1123DateGMT (ofString "Mon, 02 Jan 2006 15:04:05 GMT") = some 1136214245 := by decide +kernel
example : httpDateSpec (ofString "sUN, 29 fEB 2004 23:59:59 GMT") = some 1078099199 := by decide +kernel
example : parseRFC1123DateGMT (ofString "Sun, 29 Feb 2005 23:59:59 GMT") = none := by decide +kernel
example : parseRFC1123DateGMT (ofString "Sun, 31 Apr 2005 23:59:59 GMT") = none := by decide +kernel
example : httpDateSpec (ofString "Sun, 29 Feb 1900 23:59:59 GMT") = none := by decide +kernel
example : appendHTTPDate ⟨1970, 1, 1, 0, 0, 0⟩ = ofString "Thu, 01 Jan 1970 00:00:00 GMT" ∧
    civilUnix ⟨1970, 1, 1, 0, 0, 0⟩ = 0 := by decide +kernel
example : appendHTTPDate ⟨9999, 12, 31, 23, 59, 59⟩ = ofString "Fri, 31 Dec 9999 23:59:59 GMT" ∧
    civilUnix ⟨9999, 12, 31, 23, 59, 59⟩ = 253402300799 := by decide +kernel
example : (parseIPv4 (ofString "192.168.000.255")).toOption = some [192, 168, 0, 255] := by decide +kernel
example : (parseIPv4 (ofString "1.2.3.256")).toOption = none := by decide +kernel
example : (parseIPv4 (ofString "1.2.3")).toOption = none := by decide +kernel
example : (parseIPv4 (ofString "1..2.3")).toOption = none := by decide +kernel
example : dottedQuadSpec (ofString "1.2.3.4.5") = none := by decide +kernel
example : appendIPv4 [127, 0, 0, 1] = ofString "127.0.0.1" := by decide +kernel
example : validateIPv6Literal (ofString "[::ffff:1.2.3.4]:443") = none := by decide +kernel
example : validateIPv6Literal (ofString "[1:2:3:4:5:6:7::]") = none := by decide +kernel
example : validateIPv6Literal (ofString "[1::2::3]") = some .address := by decide +kernel
example : validateIPv6Literal (ofString "[1:2:3:4:5:6::1.2.3.4]") = some .address := by decide +kernel
example : ipv6TextSpec (ofString "fe80::1") = true ∧ ipv6TextSpec (ofString "1:2:3:4:5:6:7:8:9") = false ∧
    ipv6TextSpec (ofString "::01.2.3.4") = false := by decide +kernel
example : (parseHost (ofString "[zzz%25x]")).toOption = none := by decide +kernel
example : (parseHost (ofString "[fe80::1%25en0]:80")).toOption = some (ofString "[fe80::1%en0]:80") := by decide +kernel

end Fh.Props.C31
