/-
C29 — Header API behaves as a case-insensitive ordered multimap (ordinary names: proved; special names: monitored).
-/
import FhVerif.Model.HeaderOps
import FhVerif.Props.C28
import FhVerif.Props.C32
import FhVerif.Gen.Facts

namespace Fh.Props.C29
open Fh Fh.Model Fh.Spec

/-! ### regenerated structural fact: every deletion from `h.h` uses the order-preserving primitive -/
theorem del_uses_stable :
    "delAllArgsStable" ∈ Gen.calls_RequestHeader_del ∧ "delAllArgs" ∉ Gen.calls_RequestHeader_del ∧
    "delAllArgsStable" ∈ Gen.calls_ResponseHeader_del ∧ "delAllArgs" ∉ Gen.calls_ResponseHeader_del ∧
    "delAllArgs" ∉ Gen.calls_header_ResetConnectionClose ∧
    "delAllArgs" ∉ Gen.calls_ResponseHeader_SetContentLength ∧
    "delAllArgs" ∉ Gen.calls_RequestHeader_SetContentLength := by decide

/-! ### ordinary names: refinement to the ordered multimap keyed by canonical name -/
inductive Op
  | add (k v : Bytes)
  | set (k v : Bytes)
  | del (k : Bytes)

def stepImpl (hd : Hdr) : Op → Hdr
  | .add k v => hd.add k v
  | .set k v => hd.set k v
  | .del k => hd.del k

/-- the reference: multimap operations applied under the canonical name -/
def stepSpec (dis : Bool) (m : MM) : Op → MM
  | .add k v => m.add (normalizeHeaderKey k dis) (some v)
  | .set k v => m.set (normalizeHeaderKey k dis) (some v)
  | .del k => m.del (normalizeHeaderKey k dis)

theorem ops_refine_spec (dis : Bool) (ops : List Op) :
    C28.abs (ops.foldl stepImpl ⟨dis, []⟩).h = ops.foldl (stepSpec dis) [] ∧
    (ops.foldl stepImpl ⟨dis, []⟩).disableNormalizing = dis := by
  suffices h : ∀ hd : Hdr, C28.abs (ops.foldl stepImpl hd).h = ops.foldl (stepSpec hd.disableNormalizing) (C28.abs hd.h) ∧
      (ops.foldl stepImpl hd).disableNormalizing = hd.disableNormalizing from h ⟨dis, []⟩
  induction ops with
  | nil => intro hd; exact ⟨rfl, rfl⟩
  | cons op rest ih =>
    intro hd
    simp only [List.foldl_cons]
    have hstep : C28.abs (stepImpl hd op).h = stepSpec hd.disableNormalizing (C28.abs hd.h) op ∧
        (stepImpl hd op).disableNormalizing = hd.disableNormalizing := by
      cases op <;>
        simp [stepImpl, stepSpec, Hdr.add, Hdr.set, Hdr.del, Hdr.key, C28.add_refines, C28.set_refines, C28.del_refines]
    obtain ⟨h1, h2⟩ := ih (stepImpl hd op)
    rw [h1, h2, hstep.1, hstep.2]
    exact ⟨rfl, rfl⟩

/-- case-insensitivity for tokens: two spellings of a token name address the same entries -/
theorem key_case_insensitive (a b : Bytes) (ha : a.all (fun c => Spec.tchar c.toNat) = true)
    (hb : b.all (fun c => Spec.tchar c.toNat) = true)
    (h : Spec.canonicalMIMEHeaderKey a = Spec.canonicalMIMEHeaderKey b) :
    normalizeHeaderKey a false = normalizeHeaderKey b false := by
  rw [C32.normalizeHeaderKey_eq_textproto a ha, C32.normalizeHeaderKey_eq_textproto b hb, h]

/-! ### deleting, setting or adding one name never changes the values, or their order, under another name -/

theorem peekAll_del_other (l : ArgList) (k k' : Bytes) (h : k ≠ k') :
    peekAll (delAllArgsStable l k) k' = peekAll l k' := by
  induction l with
  | nil => rfl
  | cons e rest ih =>
    by_cases h1 : e.key = k
    · have : ¬ e.key = k' := by rw [h1]; exact h
      simp [delAllArgsStable, peekAll, h1, ih, h]
    · have hk : ¬ k' = k := fun x => h x.symm
      by_cases h2 : e.key = k'
      · rw [delAllArgsStable, if_neg h1]; simp only [peekAll, h2, if_true, ih]
      · rw [delAllArgsStable, if_neg h1]; simp only [peekAll, h2, if_false, ih]

theorem peekAll_set_other (l : ArgList) (k k' : Bytes) (v : Option Bytes) (h : k ≠ k') :
    peekAll (setArg l k v) k' = peekAll l k' := by
  induction l with
  | nil => simp [setArg, peekAll, h]
  | cons e rest ih =>
    by_cases h1 : e.key = k
    · have : ¬ e.key = k' := by rw [h1]; exact h
      simp [setArg, peekAll, h1, h]
    · by_cases h2 : e.key = k'
      · rw [setArg, if_neg h1]; simp only [peekAll, h2, if_true, ih]
      · rw [setArg, if_neg h1]; simp only [peekAll, h2, if_false, ih]

theorem peekAll_add_other (l : ArgList) (k k' : Bytes) (v : Option Bytes) (h : k ≠ k') :
    peekAll (appendArg l k v) k' = peekAll l k' := by
  induction l with
  | nil => simp [appendArg, peekAll, h]
  | cons e rest ih =>
    simp only [appendArg, List.cons_append, peekAll] at ih ⊢
    rw [ih]

/-- C29: other names keep their values and order under Del / Set / Add -/
theorem other_names_untouched (hd : Hdr) (k k' : Bytes) (v : Bytes) (h : hd.key k ≠ hd.key k') :
    (hd.del k).peekAll k' = hd.peekAll k' ∧ (hd.set k v).peekAll k' = hd.peekAll k' ∧
    (hd.add k v).peekAll k' = hd.peekAll k' := by
  refine ⟨?_, ?_, ?_⟩
  · exact peekAll_del_other hd.h _ _ h
  · exact peekAll_set_other hd.h _ _ _ h
  · exact peekAll_add_other hd.h _ _ _ h

/-- the swap-delete primitive (`delAllArgs`, used by the original `del`) does NOT have this property:
    [X, A=1, A=2] minus X gives A = [2, 1].  This is the input the check found on the unrepaired tree. -/
theorem swap_delete_counterexample :
    peekAll (delAllArgsSwap [⟨[88], some [120]⟩, ⟨[65], some [49]⟩, ⟨[65], some [50]⟩] [88]) [65] ≠
      peekAll [⟨[88], some [120]⟩, ⟨[65], some [49]⟩, ⟨[65], some [50]⟩] [65] := by
  decide +kernel

/-! non-vacuity -/
example : ((Hdr.mk false []).add (ofString "x-a") (ofString "1")).peekAll (ofString "X-A") = [ofString "1"] := by
  decide +kernel

end Fh.Props.C29
