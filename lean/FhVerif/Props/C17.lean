/-
C17 — Hijacked connections are handed over intact.
-/
import FhVerif.Model.Hijack

namespace Fh.Props.C17
open Fh Fh.Model

theorem discard_remaining (r : BR) (k : Nat) : (r.discard k).remaining = r.remaining.drop k := by
  unfold BR.discard BR.remaining
  split
  · rename_i h
    simp only
    rw [List.drop_append_of_le_length h]
  · rename_i h
    simp only [List.flatten_cons, List.flatten_nil, List.append_nil, List.nil_append]
    rw [List.drop_append]
    have : List.drop k r.buf = [] := List.drop_eq_nil_of_le (by omega)
    simp [this]

theorem read_prefix (r : BR) (n : Nat) : (r.read n).1 ++ (r.read n).2.remaining = r.remaining := by
  unfold BR.read BR.remaining
  cases hb : r.buf with
  | cons x xs => simp [← List.append_assoc, List.take_append_drop]
  | nil =>
    cases hc : r.chunks with
    | nil => simp [hb, hc]
    | cons c rest =>
      simp only [List.nil_append]
      split
      · rename_i he
        have : c.drop n = [] := by simpa using he
        have h2 : c.take n = c := by
          have := List.take_append_drop n c
          rw [‹c.drop n = []›] at this; simpa using this
        simp [h2]
      · simp [← List.append_assoc, List.take_append_drop]

/-- whatever sizes the hijack handler reads with, the bytes it gets are a prefix of the remaining stream … -/
theorem readMany_prefix (sizes : List Nat) : ∀ r : BR, ∃ rest, r.readMany sizes ++ rest = r.remaining := by
  induction sizes with
  | nil => intro r; exact ⟨r.remaining, by simp [BR.readMany]⟩
  | cons n ns ih =>
    intro r
    obtain ⟨rest, h⟩ := ih (r.read n).2
    refine ⟨rest, ?_⟩
    simp only [BR.readMany, List.append_assoc, h]
    exact read_prefix r n

/-- … and reading to the end delivers exactly the remaining stream: each positive-size read makes progress -/
theorem read_progress (r : BR) (n : Nat) (hn : 0 < n) (hrem : r.remaining ≠ []) (hne : ∀ c ∈ r.chunks, c ≠ []) :
    (r.read n).1 ≠ [] := by
  unfold BR.read
  cases hb : r.buf with
  | cons x xs => simp; omega
  | nil =>
    cases hc : r.chunks with
    | nil => simp [BR.remaining, hb, hc] at hrem
    | cons c rest =>
      have := hne c (by simp [hc])
      cases c with
      | nil => exact absurd rfl this
      | cons y ys => simp; omega

/-- C17: the hijack handler is handed the reader in a state whose remaining stream is exactly the client's bytes after
    the hijacking request — for every split of the input into arrival chunks and every amount already buffered. -/
theorem hijack_reads_exact_suffix (input : Bytes) (chunks : List Bytes) (buffered : Nat) (frameEnd : Nat)
    (hsplit : chunks.flatten = input.drop buffered) (hbuf : buffered ≤ input.length) :
    let r : BR := { buf := input.take buffered, chunks := chunks }
    (r.discard frameEnd).remaining = input.drop frameEnd := by
  intro r
  rw [discard_remaining]
  simp only [BR.remaining, r, hsplit, List.take_append_drop]

/-- the response is written and flushed before the hijack handler runs, unless suppressed; deadlines are cleared first;
    the connection is closed after the handler exactly when it is not kept -/
theorem response_flushed_before_handler (keep : Bool) :
    hijackActions false keep = [.writeResponse, .flush, .clearDeadlines, .runHandler] ++ (if keep then [] else [.closeConn]) := by
  cases keep <;> rfl

theorem no_response_when_suppressed (keep : Bool) : HjAction.writeResponse ∉ hijackActions true keep := by
  cases keep <;> decide

theorem closed_after_handler_iff_not_keep (noResponse keep : Bool) :
    HjAction.closeConn ∈ hijackActions noResponse keep ↔ keep = false := by
  cases noResponse <;> cases keep <;> decide

/-! non-vacuity: request of 5 bytes, 8 bytes already buffered, rest arrives in two chunks -/
example : (({ buf := [1,2,3,4,5,6,7,8], chunks := [[9,10],[11]] } : BR).discard 5).readMany [2, 2, 2, 2] = [6,7,8,9,10,11] := by
  decide

/-! ### the hijack flags are per request -/

/-- what a request is entitled to, from ITS OWN handler's calls only -/
def ownOut (r : HjReq) : HjOut := ⟨r.hijack && !r.timedOut, r.setNoResp && r.hijack && !r.timedOut⟩

theorem hjIter_fresh (r : HjReq) : hjIter {} r = ({}, ownOut r) := by
  cases r with
  | mk a b c => cases a <;> cases b <;> cases c <;> rfl

/-- C17 (flags): on a connection carrying any sequence of requests, whether request k's response is suppressed and
    whether the connection is hijacked after it depend on what ITS OWN handler asked for — a `HijackSetNoResponse(true)`
    that was not followed by `Hijack`, or a hijack asked for by a handler that then timed out, changes nothing for
    later requests -/
theorem hijack_flags_are_per_request (rs : List HjReq) :
    ∀ p ∈ (hjRun {} rs).zip rs, p.1 = ownOut p.2 := by
  induction rs with
  | nil => intro p hp; simp [hjRun] at hp
  | cons r rest ih =>
    intro p hp
    simp only [hjRun, hjIter_fresh] at hp
    by_cases hh : (ownOut r).hijacked = true
    · simp only [hh, if_true, List.zip_cons_cons, List.zip_nil_left, List.mem_cons, List.not_mem_nil, or_false] at hp
      rw [hp]
    · simp only [hh, List.zip_cons_cons, List.mem_cons] at hp
      rcases hp with rfl | hp
      · rfl
      · exact ih p (by simpa using hp)

/-- a response is never suppressed for a request that did not hijack -/
theorem no_suppression_without_hijack (r : HjReq) (h : r.hijack = false) : (ownOut r).suppressed = false := by
  simp [ownOut, h]

/-! non-vacuity: request 1 calls HijackSetNoResponse(true) and answers normally, request 2 hijacks: its response is written -/
example : hjRun {} [⟨true, false, false⟩, ⟨false, true, false⟩] = [⟨false, false⟩, ⟨true, false⟩] := by decide
example : hjRun {} [⟨true, true, true⟩, ⟨false, false, false⟩] = [⟨false, false⟩, ⟨false, false⟩] := by decide

end Fh.Props.C17
