/-
C37 — Documented-concurrent APIs are free of data races.      Level: proof, partial — THE WEAKEST CLAIM OF THE FRAMEWORK.

What is proved:
  * lockset_orders_conflicts   (generic, kernel-checked) in every trace that respects mutual exclusion (Mutex/RWMutex
                               semantics) and in which every access to a field f holds the lock L f (exclusively for a
                               write, at least shared for a read), two conflicting accesses to f by different threads are
                               separated by a release of L f by the first thread followed by an acquisition of L f by the
                               second: they are ordered by a release→acquire edge, so there is no data race on f.
  * no_race_partial            the same as a statement about `Race`.
  * table_obeys_discipline     `decide` over the access table REGENERATED from /repo's AST on every run (Gen/Locks.lean,
                               extract/locks.go).  Fields: an explicit list (Server idleConns/ln/done/concurrency/open/stop/
                               TLSConfig/concurrencyCh/…, workerPool ready/workersCount/mustStop, perIPConnCounter.m, HostClient
                               conns/connsCount/connsWait/connsCleanerRun/pending*/addrs/addrIdx/tlsConfigMap/…, Client m/ms,
                               cache manager maps/pendingFiles/closed, fsFile.readersCount/bigFiles, LBClient.cs, lbClient
                               penalty/total, PipelineClient connClients, pipelineConnClient chs/tlsConfig, wantConn*, TCPDialer
                               map and entry fields, …) PLUS, inferred on every run, EVERY field of a package struct that is
                               written while a mutex is held somewhere (then every access, reads included, must hold that
                               mutex) and every field accessed atomically somewhere (then every access must be atomic).
                               Every syntactic access site holds the field's mutex (or is atomic / initialisation / one of the
                               exceptions listed with their reasons in extract/locks.go: ctorAllow, exemptAllow,
                               noGuardInference), nothing is unclassified, and every listed field still has access sites.
                               A code change that touches such a field without its lock — a new lock-free "fast path" read
                               included — or that the analysis cannot classify, breaks this theorem.
What is NOT proved (named residue — this is why the level is "partial" and why this is the weakest claim):
  * that the executions of the Go program are traces of the model in which the syntactically held locks are really
    held (the go/ast lock analysis is trusted: same-function Lock…Unlock, helpers judged by the locks held at all their
    call sites, callbacks passed as call arguments assumed synchronous, the mutex INSTANCE is not tracked);
  * fields outside the list, byte-slice and map aliasing (a map handed to a helper is judged at the hand-over only),
    RequestCtx retention rules, sync.Pool hand-over, channels;
  * atomic accesses are taken as race-free by the Go memory model, not modelled;
  * exempt rows (RequestCtx.Done reading Server.done, ordered by the `open` counter; TimeoutHandler reading
    Server.concurrencyCh, written once under s.mu before the reader's Serve/ServeConn serves; Client.hostClient reading the
    map handles after mOnce) and perIPConn.Conn (lock only makes Close idempotent) are documented, not proved;
  * a field whose EVERY write lost its lock at once is still caught only if it is on the explicit list (the inference
    needs one locked write to learn the guard) — the fields inferred on the pinned tree were therefore made explicit.
`C37_full` (no data race in any documented schedule) is therefore NOT claimed; when the table theorem breaks, the check
searches for a concrete racing schedule with the Go race detector (harness c37).
-/
import FhVerif.Proofs.Lockset
import FhVerif.Gen.Locks

namespace Fh.Props.C37
open Fh.Model.Lockset Fh.Proofs.Lockset

/-- C37, generic half: lock-disciplined conflicting accesses are ordered by a release→acquire edge on the field's lock. -/
theorem lockset_orders_conflicts (L : Field → Lock) (tr : List Ev) (hwf : WF tr) (hd : Disciplined L tr)
    (pre mid post : List Ev) (f : Field) (t1 t2 : Tid) (w1 w2 : Bool)
    (htr : tr = pre ++ (Ev.acc f t1 w1 :: (mid ++ (Ev.acc f t2 w2 :: post))))
    (hne : t1 ≠ t2) (hconf : w1 = true ∨ w2 = true) :
    ∃ m1 e1 m2 e2 m3, mid = m1 ++ (e1 :: (m2 ++ (e2 :: m3))) ∧ isRelease (L f) t1 e1 ∧ isAcquire (L f) t2 e2 := by
  obtain ⟨s, hs, hh1⟩ := hd pre f t1 w1 (mid ++ (Ev.acc f t2 w2 :: post)) htr
  obtain ⟨s', hs', hh2⟩ := hd (pre ++ (Ev.acc f t1 w1 :: mid)) f t2 w2 post (by rw [htr]; simp)
  have hi : Inv s := inv_run (L f) pre {} s inv_init hs
  -- the lock state after `mid`, started from the state at the first access
  have hmid : runL (L f) s mid = some s' := by
    rw [run_append, hs] at hs'
    simpa [runL, stepL] using hs'
  have _ := hwf
  have toW : s'.writer = some t2 → ∃ m1 e1 m2 e2 m3, mid = m1 ++ (e1 :: (m2 ++ (e2 :: m3))) ∧ isRelease (L f) t1 e1 ∧ isAcquire (L f) t2 e2 := by
    intro hw
    have hhas : Has s t1 := by
      cases w1 with
      | true => exact Or.inl (by simpa [Holds] using hh1)
      | false => simpa [Holds, Has] using hh1
    obtain ⟨m1, e1, m2, m3, hm, hr⟩ := order_to_writer (L f) t1 t2 hne mid s s' hi hhas hmid hw
    exact ⟨m1, e1, m2, Ev.acq (L f) t2, m3, by rw [hm]; simp, hr, Or.inl rfl⟩
  cases w2 with
  | true => exact toW (by simpa [Holds] using hh2)
  | false =>
    have hw1 : w1 = true := by rcases hconf with h | h; exact h; cases h
    subst hw1
    have hsw : s.writer = some t1 := by simpa [Holds] using hh1
    have h2 : s'.writer = some t2 ∨ t2 ∈ s'.readers := by simpa [Holds] using hh2
    rcases h2 with h2 | h2
    · exact toW h2
    · obtain ⟨m1, m2, m3, hm⟩ := order_to_reader (L f) t1 t2 mid s s' hi hsw hmid h2
      exact ⟨m1, Ev.rel (L f) t1, m2, Ev.racq (L f) t2, m3, by rw [hm]; simp, Or.inl rfl, Or.inr rfl⟩

/-- a data race on f: two conflicting accesses by different threads with no release-by-the-first followed by
    acquire-by-the-second of f's lock in between -/
def Race (L : Field → Lock) (tr : List Ev) (f : Field) : Prop :=
  ∃ pre mid post t1 t2 w1 w2, tr = pre ++ (Ev.acc f t1 w1 :: (mid ++ (Ev.acc f t2 w2 :: post))) ∧ t1 ≠ t2 ∧ (w1 = true ∨ w2 = true) ∧
    ¬ ∃ m1 e1 m2 e2 m3, mid = m1 ++ (e1 :: (m2 ++ (e2 :: m3))) ∧ isRelease (L f) t1 e1 ∧ isAcquire (L f) t2 e2

/-- no lock-disciplined trace under mutual exclusion has a race (partial: about traces of the model, see header) -/
theorem no_race_partial (L : Field → Lock) (tr : List Ev) (hwf : WF tr) (hd : Disciplined L tr) (f : Field) : ¬ Race L tr f := by
  rintro ⟨pre, mid, post, t1, t2, w1, w2, htr, hne, hc, hno⟩
  exact hno (lockset_orders_conflicts L tr hwf hd pre mid post f t1 t2 w1 w2 htr hne hc)

/-- C37, regenerated half: the access table extracted from /repo's source obeys the lockset discipline. -/
theorem table_obeys_discipline : tableOK Gen.lockSpec Gen.lockRows = true := by decide +kernel

/-- the table is not empty and lists the fields the property names -/
theorem table_nonempty : 250 ≤ Gen.lockRows.length ∧ 55 ≤ Gen.lockSpec.length := by decide +kernel

/-- the property at full strength: not claimed (see header) -/
def C37_full : Prop :=
  ∀ (L : Field → Lock) (tr : List Ev), WF tr → ∀ f, ¬ Race L tr f

/-- without the discipline the model does have races: two unlocked writes by different threads -/
theorem C37_full_counterexample : ¬ C37_full := by
  intro h
  apply h (fun _ => 0) [Ev.acc 0 1 true, Ev.acc 0 2 true] (by intro l; rfl) 0
  refine ⟨[], [], [], 1, 2, true, true, rfl, by decide, Or.inl rfl, ?_⟩
  rintro ⟨m1, e1, m2, e2, m3, hm, _, _⟩
  cases m1 <;> cases hm

/-! non-vacuity -/

/-- a disciplined trace: t1 writes under Lock, unlocks; t2 read-locks and reads -/
def demo : List Ev := [.acq 7 1, .acc 3 1 true, .rel 7 1, .racq 7 2, .acc 3 2 false, .rrel 7 2]

example : (runL 7 {} demo).isSome = true := by decide
example : runL 7 {} [Ev.acq 7 1, Ev.acq 7 2] = none := by decide          -- mutual exclusion rejects a second Lock
example : runL 7 {} [Ev.racq 7 1, Ev.racq 7 2, Ev.acq 7 3] = none := by decide
/-- the discipline check rejects an unlocked write, an unknown row, and a field without rows -/
example : tableOK [("T", "f", "lock:mu")] [("T", "f", "T.m", "w", "locked", ["mu"])] = true := by decide +kernel
example : tableOK [("T", "f", "lock:mu")] [("T", "f", "T.m", "w", "locked", ["mu"]), ("T", "f", "T.g", "w", "locked", [])] = false := by
  decide +kernel
example : tableOK [("T", "f", "lock:mu")] [("T", "f", "T.m", "cw", "locked", ["R:mu"])] = false := by decide +kernel
example : tableOK [("T", "f", "lock:mu")] [("T", "f", "T.m", "cr", "locked", ["R:mu"])] = true := by decide +kernel
example : tableOK [("T", "f", "lock:mu")] [("?", "f", "g", "r", "unknown", [])] = false := by decide +kernel
example : tableOK [("T", "f", "lock:mu")] [] = false := by decide +kernel
example : tableOK [("T", "n", "atomic")] [("T", "n", "T.m", "r", "locked", ["mu"])] = false := by decide +kernel

end Fh.Props.C37
