/-
C02 — Unread request bodies never turn into requests.
Proved for fixed-length streamed bodies: whatever sequence of Read calls the handler makes (any sizes, any partial
deliveries by the connection), the stream never takes more than Content-Length bytes out of the connection, and the
connection is reused only if exactly Content-Length bytes were taken out — so the next head is read at the body's end.
A rejected expectation always closes.  Partial: chunked streams rely on the chunk reader (C34/C08) — `unread` is then
"terminating chunk and trailer not read yet" by definition — and non-streamed bodies are read in full before dispatch (C01).
-/
import FhVerif.Model.BodyStream

namespace Fh.Props.C02
open Fh Fh.Model

def RS.wf (s : RS) : Prop := s.prefetched ≤ s.cl ∧ s.read ≤ s.cl

theorem readStep_wf (s : RS) (w g : Nat) (h : RS.wf s) : RS.wf (s.readStep w g).1 := by
  unfold RS.readStep RS.wf at *
  split
  · exact h
  · split
    · simp only; constructor
      · exact h.1
      · have : min w (s.prefetched - s.read) ≤ s.prefetched - s.read := Nat.min_le_right _ _
        omega
    · simp only; constructor
      · exact h.1
      · have : min g (min w (s.cl - s.read)) ≤ s.cl - s.read :=
          Nat.le_trans (Nat.min_le_right _ _) (Nat.min_le_right _ _)
        omega

theorem run_wf (rs : List (Nat × Nat)) : ∀ s : RS, RS.wf s → RS.wf (s.run rs) := by
  induction rs with
  | nil => intro s h; exact h
  | cons r rest ih => intro s h; exact ih _ (readStep_wf s r.1 r.2 h)

/-- the stream never takes body bytes beyond Content-Length out of the connection -/
theorem never_over_reads (s : RS) (h : RS.wf s) (rs : List (Nat × Nat)) : (s.run rs).connConsumed ≤ s.cl := by
  have hw := run_wf rs s h
  have hcl : (s.run rs).cl = s.cl := by
    induction rs generalizing s with
    | nil => rfl
    | cons r rest ih =>
      have : (s.readStep r.1 r.2).1.cl = s.cl := by
        unfold RS.readStep; split
        · rfl
        · split <;> rfl
      show ((s.readStep r.1 r.2).1.run rest).cl = s.cl
      rw [ih _ (readStep_wf s r.1 r.2 h) (run_wf rest _ (readStep_wf s r.1 r.2 h)), this]
  unfold RS.connConsumed RS.wf at *
  rw [← hcl]; omega

/-- C02: for every handler behaviour, if the connection is kept (stream not `unread`) then exactly the framed body
    was taken out of the connection: the next request is read at the end of this one's body. -/
theorem next_dispatch_at_body_end (s : RS) (h : RS.wf s) (rs : List (Nat × Nat))
    (hkeep : (s.run rs).unread = false) : (s.run rs).connConsumed = (s.run rs).cl := by
  have hw := run_wf rs s h
  unfold RS.unread at hkeep
  unfold RS.connConsumed RS.wf at *
  have : ¬ max (s.run rs).prefetched (s.run rs).read < (s.run rs).cl := by simpa using hkeep
  omega

/-! ### handlers that drop the stream (Request.Body() on a broken body, ResetBody, SetBody) -/

/-- once the stream is detached, either it was completely read when it was dropped or the drop was recorded -/
def HSInv (s : HS) : Prop := RS.wf s.rs ∧ (s.attached = false → s.droppedUnread = false → s.rs.unread = false)

theorem hs_step_inv (s : HS) (a : HAct) (h : HSInv s) : HSInv (s.step a) ∧ (s.step a).rs.cl = s.rs.cl := by
  obtain ⟨hw, hd⟩ := h
  have hcl : ∀ w g, (s.rs.readStep w g).1.cl = s.rs.cl := by
    intro w g; unfold RS.readStep; split
    · rfl
    · split <;> rfl
  cases a with
  | read w g =>
    show HSInv (s.readA w g) ∧ (s.readA w g).rs.cl = s.rs.cl
    unfold HS.readA
    by_cases ha : s.attached = true
    · rw [if_pos ha]
      refine ⟨⟨readStep_wf s.rs w g hw, ?_⟩, hcl w g⟩
      intro hna; simp [ha] at hna
    · rw [if_neg ha]; exact ⟨⟨hw, hd⟩, rfl⟩
  | drop =>
    show HSInv s.dropA ∧ s.dropA.rs.cl = s.rs.cl
    unfold HS.dropA
    by_cases ha : s.attached = true
    · rw [if_pos ha]
      refine ⟨⟨hw, ?_⟩, rfl⟩
      intro _ hdu
      simp only [Bool.or_eq_false_iff] at hdu
      exact hdu.2
    · rw [if_neg ha]; exact ⟨⟨hw, hd⟩, rfl⟩

theorem hs_run_inv (as : List HAct) : ∀ s : HS, HSInv s → HSInv (s.run as) ∧ (s.run as).rs.cl = s.rs.cl := by
  induction as with
  | nil => intro s h; exact ⟨h, rfl⟩
  | cons a rest ih =>
    intro s h
    have h1 := hs_step_inv s a h
    have h2 := ih _ h1.1
    exact ⟨h2.1, h2.2.trans h1.2⟩

/-- C02, handlers that may also drop the stream at any point: for every sequence of reads and drops, if the server
    keeps the connection then exactly Content-Length body bytes were taken out of it -/
theorem next_dispatch_at_body_end_with_drops (rs : RS) (h : RS.wf rs) (as : List HAct)
    (hkeep : (HS.run ⟨rs, true, false⟩ as).keep = true) :
    (HS.run ⟨rs, true, false⟩ as).rs.connConsumed = rs.cl := by
  have hi := hs_run_inv as ⟨rs, true, false⟩ ⟨h, by intro h; cases h⟩
  generalize HS.run ⟨rs, true, false⟩ as = t at hi hkeep
  obtain ⟨⟨hw, hd⟩, hcl⟩ := hi
  have hun : t.rs.unread = false := by
    unfold HS.keep at hkeep
    cases hat : t.attached <;> cases hdu : t.droppedUnread <;> simp_all
  unfold RS.unread at hun
  unfold RS.connConsumed RS.wf at *
  have : ¬ max t.rs.prefetched t.rs.read < t.rs.cl := by simpa using hun
  simp only at hcl
  omega

theorem droppedUnread_sticky (as : List HAct) : ∀ s : HS, s.droppedUnread = true → (s.run as).droppedUnread = true := by
  induction as with
  | nil => intro s h; exact h
  | cons a rest ih =>
    intro s h
    apply ih
    cases a with
    | read w g =>
      show (s.readA w g).droppedUnread = true
      unfold HS.readA
      by_cases ha : s.attached = true
      · rw [if_pos ha]; exact h
      · rw [if_neg ha]; exact h
    | drop =>
      show s.dropA.droppedUnread = true
      unfold HS.dropA
      by_cases ha : s.attached = true
      · rw [if_pos ha]; simp [h]
      · rw [if_neg ha]; exact h

/-- a drop of an unread stream is never forgotten: the connection is closed -/
theorem dropped_unread_closes (rs : RS) (as : List HAct) (hun : rs.unread = true) :
    (HS.run ⟨rs, true, false⟩ (.drop :: as)).keep = false := by
  have h0 : (HS.step ⟨rs, true, false⟩ .drop).droppedUnread = true := by
    show (HS.dropA ⟨rs, true, false⟩).droppedUnread = true
    simp [HS.dropA, hun]
  have h1 : (HS.run ⟨rs, true, false⟩ (.drop :: as)).droppedUnread = true :=
    droppedUnread_sticky as _ h0
  unfold HS.keep; simp [h1]

/-! ### chunked streamed bodies: nothing is taken out of the connection after the body's end or after a framing error -/

theorem cs_absorbing (os : List COutcome) : ∀ s : ChunkSt, s.phase ≠ .reading → s.run os = s := by
  induction os with
  | nil => intro s _; rfl
  | cons o rest ih =>
    intro s h
    have : s.read o = s := by
      unfold ChunkSt.read
      cases hp : s.phase <;> simp_all
    show (s.read o).run rest = s
    rw [this]; exact ih s h

/-- C02 (chunked): whatever the handler reads after the stream has ended — or after it has failed on a malformed
    chunk — no further byte leaves the connection, so the bytes of the next request stay where they are -/
theorem chunked_reads_after_end_consume_nothing (before after : List COutcome) (h : (ChunkSt.run {} before).phase ≠ .reading) :
    (ChunkSt.run {} (before ++ after)).consumed = (ChunkSt.run {} before).consumed := by
  have hsplit : ∀ (l1 l2 : List COutcome) (s : ChunkSt), s.run (l1 ++ l2) = (s.run l1).run l2 := by
    intro l1
    induction l1 with
    | nil => intro l2 s; rfl
    | cons o r ih => intro l2 s; exact ih l2 (s.read o)
  rw [hsplit, cs_absorbing after _ h]

/-- a stream that failed on a malformed chunk never counts as read: the connection is closed after the response -/
theorem malformed_chunk_stays_unread (before after : List COutcome) (h : (ChunkSt.run {} before).phase = .failed) :
    (ChunkSt.run {} (before ++ after)).unread = true := by
  have hsplit : ∀ (l1 l2 : List COutcome) (s : ChunkSt), s.run (l1 ++ l2) = (s.run l1).run l2 := by
    intro l1
    induction l1 with
    | nil => intro l2 s; rfl
    | cons o r ih => intro l2 s; exact ih l2 (s.read o)
  rw [hsplit, cs_absorbing after _ (by rw [h]; simp)]
  simp [ChunkSt.unread, h]

example : (ChunkSt.run {} [.data 3 5, .last 5, .data 3 4, .last 5]).consumed = 13 := by decide
example : (ChunkSt.run {} [.data 3 1, .malformed 2, .last 5]).unread = true := by decide

/-- a rejected `Expect: 100-continue` never calls the handler and always closes the connection -/
theorem rejected_expectation_closes (o : ExpectOutcome) (h : (expectDecision o).1 = false) : (expectDecision o).2 = true := by
  cases o <;> simp_all [expectDecision]

/-! non-vacuity: a 20000-byte body with 8192 prefetched, handler reads 100 bytes: unread, so the connection is closed -/
example : (RS.run ⟨20000, 8192, 0⟩ [(100, 100)]).unread = true := by decide
-- SetBody on the unread 20000-byte stream, then nothing: closed;  read everything, then ResetBody: kept
example : (HS.run ⟨⟨20000, 8192, 0⟩, true, false⟩ [.drop]).keep = false := by decide
example : (HS.run ⟨⟨100, 100, 0⟩, true, false⟩ [.read 100 100, .drop]).keep = true := by decide
example : (RS.run ⟨5000, 5000, 0⟩ []).unread = false ∧ RS.wf ⟨5000, 5000, 0⟩ := ⟨by decide, by unfold RS.wf; decide⟩

end Fh.Props.C02
