/-
C02 — Unread request bodies never turn into requests.
Proved for fixed-length streamed bodies: whatever sequence of Read calls the handler makes (any sizes, any partial
deliveries by the connection), the stream never takes more than Content-Length bytes out of the connection, and the
connection is reused only if exactly Content-Length bytes were taken out — so the next head is read at the body's end.
A rejected expectation always closes.  Partial: chunked streams rely on the chunk reader (C34/C08) — `unread` is then
"terminating chunk and trailer not read yet" by definition — and non-streamed bodies are read in full before dispatch (C01).
-/
import FhVerif.Model.BodyStream

namespace Fh.Props.C02
open Fh Fh.Model

def RS.wf (s : RS) : Prop := s.prefetched ≤ s.cl ∧ s.read ≤ s.cl

theorem readStep_wf (s : RS) (w g : Nat) (h : RS.wf s) : RS.wf (s.readStep w g).1 := by
  unfold RS.readStep RS.wf at *
  split
  · exact h
  · split
    · simp only; constructor
      · exact h.1
      · have : min w (s.prefetched - s.read) ≤ s.prefetched - s.read := Nat.min_le_right _ _
        omega
    · simp only; constructor
      · exact h.1
      · have : min g (min w (s.cl - s.read)) ≤ s.cl - s.read :=
          Nat.le_trans (Nat.min_le_right _ _) (Nat.min_le_right _ _)
        omega

theorem run_wf (rs : List (Nat × Nat)) : ∀ s : RS, RS.wf s → RS.wf (s.run rs) := by
  induction rs with
  | nil => intro s h; exact h
  | cons r rest ih => intro s h; exact ih _ (readStep_wf s r.1 r.2 h)

/-- the stream never takes body bytes beyond Content-Length out of the connection -/
theorem never_over_reads (s : RS) (h : RS.wf s) (rs : List (Nat × Nat)) : (s.run rs).connConsumed ≤ s.cl := by
  have hw := run_wf rs s h
  have hcl : (s.run rs).cl = s.cl := by
    induction rs generalizing s with
    | nil => rfl
    | cons r rest ih =>
      have : (s.readStep r.1 r.2).1.cl = s.cl := by
        unfold RS.readStep; split
        · rfl
        · split <;> rfl
      show ((s.readStep r.1 r.2).1.run rest).cl = s.cl
      rw [ih _ (readStep_wf s r.1 r.2 h) (run_wf rest _ (readStep_wf s r.1 r.2 h)), this]
  unfold RS.connConsumed RS.wf at *
  rw [← hcl]; omega

/-- C02: for every handler behaviour, if the connection is kept (stream not `unread`) then exactly the framed body
    was taken out of the connection: the next request is read at the end of this one's body. -/
theorem next_dispatch_at_body_end (s : RS) (h : RS.wf s) (rs : List (Nat × Nat))
    (hkeep : (s.run rs).unread = false) : (s.run rs).connConsumed = (s.run rs).cl := by
  have hw := run_wf rs s h
  unfold RS.unread at hkeep
  unfold RS.connConsumed RS.wf at *
  have : ¬ max (s.run rs).prefetched (s.run rs).read < (s.run rs).cl := by simpa using hkeep
  omega

/-- a rejected `Expect: 100-continue` never calls the handler and always closes the connection -/
theorem rejected_expectation_closes (o : ExpectOutcome) (h : (expectDecision o).1 = false) : (expectDecision o).2 = true := by
  cases o <;> simp_all [expectDecision]

/-! non-vacuity: a 20000-byte body with 8192 prefetched, handler reads 100 bytes: unread, so the connection is closed -/
example : (RS.run ⟨20000, 8192, 0⟩ [(100, 100)]).unread = true := by decide
example : (RS.run ⟨5000, 5000, 0⟩ []).unread = false ∧ RS.wf ⟨5000, 5000, 0⟩ := ⟨by decide, by unfold RS.wf; decide⟩

end Fh.Props.C02
