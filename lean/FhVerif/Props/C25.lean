/-
C25 — FS file handles are released exactly once and never read after close.

Model: Model/FsCache.lean — `step : St → Ev → Option St`, one event per critical section of the cache manager /
reader bookkeeping (get, open, set incl. the lost race, dec, readerNew, read, readerClose, clean, close, and the
error exits of openFSFile / newFSFile / compressAndOpenFSFile as `fail`).  `init true` is the SkipCache manager.
Everything below is proved for ALL event lists, i.e. for every interleaving of the modelled atomic steps:

  released_le_one                 no file object is released (closed) twice
  release_requires_zero_readers   the step that releases an object leaves it with no reference and no reader
  no_read_after_release           a read is only possible on an object that is not released; released objects never change again
  handles_balanced                private big-file handles: opened = closed + pooled + in use; all closed after Release
  error_exit_releases             an object whose open path ends in an error is released by that exit
  eventually_released             after close, once nobody reads (no reference, nothing in flight), every opened
                                  object is released exactly once — per object as soon as it is idle
  fair_run_releases_everything    in every infinite run in which close happens and every object is idle again and
                                  again, every opened object is eventually released

Level: proof, partial.  `C25_full` is proved for the MODEL (`fair_run_releases_everything`).  What is NOT shown (residue): that
the Go scheduler produces runs satisfying its hypotheses (readers are eventually closed, the cleaner/CleanStop/runtime.AddCleanup eventually deliver `close`), and that the
Go code's critical sections are the model's atomic steps; the latter is tied by the C25 harness (scripted op sequences
against an instrumented fs.FS + concurrent recorded histories whose per-object counters are checked at quiescence).
-/
import FhVerif.Proofs.FsCache

namespace Fh.Props.C25
open Fh Fh.Model Fh.Proofs.FsCache

def Reachable (s : St) : Prop := ∃ c evs, run (init c) evs = some s

theorem reachable_inv (s : St) (h : Reachable s) : Inv s := by
  obtain ⟨c, evs, hr⟩ := h
  exact inv_run evs (init c) s (inv_init c) hr

theorem reachable_step (s s' : St) (e : Ev) (h : Reachable s) (hs : step s e = some s') : Reachable s' := by
  obtain ⟨c, evs, hr⟩ := h
  refine ⟨c, evs ++ [e], ?_⟩
  have : ∀ (l : List Ev) (a b : St), run a l = some b → run a (l ++ [e]) = step b e := by
    intro l
    induction l with
    | nil => intro a b h; simp [run] at h; subst h; simp [run]; cases step a e <;> rfl
    | cons x xs ih =>
      intro a b h
      simp only [run, List.cons_append] at h ⊢
      cases hx : step a x with
      | none => simp [hx] at h
      | some a1 => simp only [hx] at h ⊢; exact ih a1 b h
  rw [this evs (init c) s hr, hs]

/-- C25: no file object is released (closed) more than once. -/
theorem released_le_one (s : St) (hr : Reachable s) (i : Nat) (o : Obj) (h : s.objs[i]? = some o) :
    o.released ≤ 1 :=
  (reachable_inv s hr i o h).rel_le

/-- C25: a step that releases an object leaves it without any reference (readersCount = 0) and without any reader,
    and it was not released before; by `released_is_final` it stays like that. -/
theorem release_requires_zero_readers (s s' : St) (e : Ev) (hr : Reachable s) (hs : step s e = some s')
    (i : Nat) (o o' : Obj) (_h : s.objs[i]? = some o) (h' : s'.objs[i]? = some o') (hlt : o.released < o'.released) :
    o'.readers = 0 ∧ o'.out = 0 ∧ o.released = 0 ∧ o'.released = 1 := by
  have hj' := reachable_inv s' (reachable_step s s' e hr hs) i o' h'
  have h1 := hj'.rel_le
  have h2 : o'.released = 1 := by omega
  have h3 := (hj'.rel_idle h2).1
  have h4 := hj'.out_le
  exact ⟨h3, by omega, by omega, h2⟩

/-- C25: a reader can only read an object that has not been released. -/
theorem no_read_after_release (s s' : St) (hr : Reachable s) (i : Nat) (hs : step s (.read i) = some s') :
    ∃ o, s.objs[i]? = some o ∧ o.released = 0 ∧ 0 < o.out ∧ 0 < o.readers := by
  obtain ⟨hen, _, _⟩ := step_shape s s' _ hs
  simp only [enabled] at hen
  cases ho : s.objs[i]? with
  | none => simp [ho] at hen
  | some o =>
    simp only [ho] at hen
    have hout : 0 < o.out := by simpa using hen
    have hj := reachable_inv s hr i o ho
    have := hj.out_le
    exact ⟨o, rfl, hj.live (by omega), hout, by omega⟩

/-- a released object is never touched again: no event changes it, no event can read it or take a reference -/
theorem released_is_final (s s' : St) (e : Ev) (hr : Reachable s) (hs : step s e = some s')
    (i : Nat) (o : Obj) (h : s.objs[i]? = some o) (hrel : o.released = 1) : s'.objs[i]? = some o := by
  have hj := reachable_inv s hr i o h
  obtain ⟨hr0, hloc⟩ := hj.rel_idle hrel
  have hout : o.out = 0 := by have := hj.out_le; omega
  obtain ⟨hen, _, hshape⟩ := step_shape s s' e hs
  rcases hshape with ⟨b, _, ho⟩ | ⟨_, ho⟩
  · have : i < s.objs.length := (List.getElem?_eq_some_iff.1 h).1
    rw [ho, List.getElem?_append_left this]
    exact h
  · rw [ho, List.getElem?_mapIdx, h]
    simp only [Option.map_some, Option.some.injEq]
    cases e with
    | open_ b => simp [tr]
    | read j => simp [tr]
    | fail j =>
      simp only [tr]
      by_cases hij : i = j
      · subst hij; simp [enabled, h, hloc] at hen
      · simp [hij]
    | get k p =>
      simp only [tr]
      by_cases hc : s.closed = true
      · simp [hc]
      · have hc' : s.closed = false := by simpa using hc
        simp only [hc', Bool.false_eq_true, if_false]
        by_cases hf : findCached s k p = some i
        · have := findCached_some s k p i o hf h
          rw [hloc] at this; cases this
        · simp [hf]
    | set k p j =>
      have hij : i ≠ j := by
        intro hij; subst hij; simp [enabled, h, hloc] at hen
      unfold tr
      by_cases hc : s.closed = true
      · simp [hc, hij]
      · have hc' : s.closed = false := by simpa using hc
        simp only [hc', Bool.false_eq_true, if_false]
        cases hfc : findCached s k p with
        | none => simp [hij]
        | some w =>
          have hiw : i ≠ w := by
            intro hiw; subst hiw
            have := findCached_some s k p i o hfc h
            rw [hloc] at this; cases this
          simp [hij, hiw]
    | dec j =>
      simp only [tr]
      by_cases hij : i = j
      · subst hij; simp [enabled, h, hr0, hout] at hen
      · simp [hij]
    | readerNew j =>
      simp only [tr]
      by_cases hij : i = j
      · subst hij; simp [enabled, h, hr0, hout] at hen
      · simp [hij]
    | readerClose j ok =>
      simp only [tr]
      by_cases hij : i = j
      · subst hij; simp [enabled, h, hr0, hout] at hen
      · simp [hij]
    | clean ex =>
      simp only [tr, hloc]
      by_cases hc : s.closed = true <;> simp [hc]
    | close =>
      simp only [tr, hloc]
      by_cases hc : s.closed = true <;> simp [hc]

/-- private handles of big-file readers: while the object lives, opened = closed + pooled + in use (so no handle in use
    is closed and none is lost); after Release every one of them is closed. -/
theorem handles_balanced (s : St) (hr : Reachable s) (i : Nat) (o : Obj) (h : s.objs[i]? = some o) :
    (o.released = 0 → o.hOpened = o.hClosed + o.pool + (if o.big then o.out else 0)) ∧
    (o.released = 1 → o.hOpened = o.hClosed) :=
  ⟨(reachable_inv s hr i o h).handles_live, (reachable_inv s hr i o h).handles_done⟩

/-- C25: an object opened on a path that ends in an error is released by that error exit. -/
theorem error_exit_releases (s s' : St) (hr : Reachable s) (i : Nat) (hs : step s (.fail i) = some s') :
    ∃ o o', s.objs[i]? = some o ∧ o.released = 0 ∧ s'.objs[i]? = some o' ∧ o'.released = 1 := by
  obtain ⟨hen, _, hshape⟩ := step_shape s s' _ hs
  simp only [enabled] at hen
  cases ho : s.objs[i]? with
  | none => simp [ho] at hen
  | some o =>
    simp only [ho] at hen
    have hf : o.loc = .fresh := by simpa using hen
    have hj := reachable_inv s hr i o ho
    have h0 : o.released = 0 := hj.held (by rw [hf]; simp)
    rcases hshape with ⟨b, hb, _⟩ | ⟨_, hobjs⟩
    · cases hb
    · refine ⟨o, tr s (.fail i) i o, rfl, h0, ?_, ?_⟩
      · rw [hobjs, List.getElem?_mapIdx, ho]; rfl
      · simp [tr, rel, h0]

/-- per object: once the manager is closed, an object nobody references and that is not in flight is released -/
theorem idle_object_released_when_closed (s : St) (hr : Reachable s) (hc : s.closed = true)
    (i : Nat) (o : Obj) (h : s.objs[i]? = some o) (hidle : o.readers = 0) (hnf : o.loc ≠ .fresh) :
    o.released = 1 ∧ o.hOpened = o.hClosed := by
  have hj := reachable_inv s hr i o h
  rw [hc] at hj
  have hle := hj.rel_le
  have h1 : o.released = 1 := by
    by_cases h0 : o.released = 0
    · cases hl : o.loc with
      | fresh => exact absurd hl hnf
      | cached k p => exact absurd hl (hj.closed_nocache rfl k p)
      | pending => have := hj.closed_pending rfl hl; omega
      | detached => have := (hj.detached_live hl h0).2; omega
    · omega
  exact ⟨h1, hj.handles_done h1⟩

/-- C25: after `close`, and once every reader is closed and every reference returned (nothing in flight), every file
    object that was ever opened — including those opened on paths that ended in an error — has been released exactly
    once, together with all its private handles. -/
theorem eventually_released (s : St) (hr : Reachable s) (hc : s.closed = true)
    (hq : ∀ (i : Nat) (o : Obj), s.objs[i]? = some o → o.readers = 0 ∧ o.loc ≠ .fresh) :
    ∀ (i : Nat) (o : Obj), s.objs[i]? = some o → o.released = 1 ∧ o.hOpened = o.hClosed := by
  intro i o h
  exact idle_object_released_when_closed s hr hc i o h (hq i o h).1 (hq i o h).2

/-- without closing the manager: the cleaner releases an idle entry that expired, and an idle pending file -/
theorem clean_releases_idle (s s' : St) (ex : List Nat) (hr : Reachable s) (hc : s.closed = false)
    (hs : step s (.clean ex) = some s') (i : Nat) (o : Obj) (h : s.objs[i]? = some o) (hidle : o.readers = 0)
    (hloc : o.loc = .pending ∨ ((∃ k p, o.loc = .cached k p) ∧ ex.contains i = true)) :
    ∃ o', s'.objs[i]? = some o' ∧ o'.released = 1 := by
  obtain ⟨_, _, hshape⟩ := step_shape s s' _ hs
  have hj := reachable_inv s hr i o h
  rcases hshape with ⟨b, hb, _⟩ | ⟨_, hobjs⟩
  · cases hb
  · refine ⟨tr s (.clean ex) i o, by rw [hobjs, List.getElem?_mapIdx, h]; rfl, ?_⟩
    rcases hloc with hl | ⟨⟨k, p, hl⟩, hx⟩
    · have h0 : o.released = 0 := hj.held (by rw [hl]; simp)
      simp [tr, hc, hl, hidle, rel, h0]
    · have h0 : o.released = 0 := hj.held (by rw [hl]; simp)
      have hx' : i ∈ ex := by simpa using hx
      simp [tr, hc, hl, hx', evict, hidle, rel, h0]

/-! ### infinite runs: the full statement -/

theorem run_snoc (e : Ev) : ∀ (l : List Ev) (a : St), run a (l ++ [e]) = (run a l).bind (fun b => step b e) := by
  intro l
  induction l with
  | nil => intro a; simp only [List.nil_append, run, Option.bind_some]; cases step a e <;> rfl
  | cons x xs ih =>
    intro a
    simp only [run, List.cons_append]
    cases hx : step a x with
    | none => rfl
    | some a1 => exact ih a1

/-- the state after the first `n` events of the schedule `σ` -/
def prefixRun (c : Bool) (σ : Nat → Ev) (n : Nat) : Option St := run (init c) ((List.range n).map σ)

theorem prefixRun_succ (c : Bool) (σ : Nat → Ev) (n : Nat) :
    prefixRun c σ (n + 1) = (prefixRun c σ n).bind (fun b => step b (σ n)) := by
  unfold prefixRun
  rw [List.range_succ, List.map_append]
  exact run_snoc (σ n) _ _

theorem prefixRun_reachable (c : Bool) (σ : Nat → Ev) (n : Nat) (s : St) (h : prefixRun c σ n = some s) :
    Reachable s := ⟨c, _, h⟩

/-- along a step objects stay where they are (as list positions) and a closed manager stays closed -/
theorem step_mono (s s' : St) (e : Ev) (hs : step s e = some s') :
    (s.closed = true → s'.closed = true) ∧ ∀ (i : Nat) (o : Obj), s.objs[i]? = some o → ∃ o', s'.objs[i]? = some o' := by
  obtain ⟨_, hc, hshape⟩ := step_shape s s' e hs
  constructor
  · intro h; rw [hc]; unfold closedAfter; split
    · rfl
    · exact h
  · intro i o ho
    rcases hshape with ⟨b, _, hobjs⟩ | ⟨_, hobjs⟩
    · have : i < s.objs.length := (List.getElem?_eq_some_iff.1 ho).1
      exact ⟨o, by rw [hobjs, List.getElem?_append_left this]; exact ho⟩
    · exact ⟨tr s e i o, by rw [hobjs, List.getElem?_mapIdx, ho]; rfl⟩

theorem prefix_mono (c : Bool) (σ : Nat → Ev) (n : Nat) (s : St) (h : prefixRun c σ n = some s) :
    ∀ (k : Nat) (s' : St), prefixRun c σ (n + k) = some s' →
      (s.closed = true → s'.closed = true) ∧ ∀ (i : Nat) (o : Obj), s.objs[i]? = some o → ∃ o', s'.objs[i]? = some o' := by
  intro k
  induction k with
  | zero =>
    intro s' h'
    rw [Nat.add_zero, h] at h'
    injection h' with h'; subst h'
    exact ⟨id, fun i o ho => ⟨o, ho⟩⟩
  | succ k ih =>
    intro s' h'
    rw [← Nat.add_assoc, prefixRun_succ] at h'
    cases h1 : prefixRun c σ (n + k) with
    | none => simp [h1] at h'
    | some s1 =>
      simp only [h1, Option.bind_some] at h'
      obtain ⟨hc1, ho1⟩ := ih s1 h1
      obtain ⟨hc2, ho2⟩ := step_mono s1 s' _ h'
      refine ⟨fun hc => hc2 (hc1 hc), ?_⟩
      intro i o ho
      obtain ⟨o1, h2⟩ := ho1 i o ho
      exact ho2 i o1 h2

/-- what holds in every state of a run: released at most once; whoever reads or holds a reference sees an unreleased
    object; a released object has no reference and no reader -/
def SafeState (s : St) : Prop :=
  ∀ (i : Nat) (o : Obj), s.objs[i]? = some o →
    o.released ≤ 1 ∧ (0 < o.readers → o.released = 0) ∧ (o.released = 1 → o.readers = 0 ∧ o.out = 0) ∧ o.out ≤ o.readers

theorem reachable_safe (s : St) (hr : Reachable s) : SafeState s := by
  intro i o h
  have hj := reachable_inv s hr i o h
  refine ⟨hj.rel_le, fun hp => hj.live hp, ?_, hj.out_le⟩
  intro h1
  have := hj.rel_idle h1
  have := hj.out_le
  omega

/-- C25, full statement over schedules: take ANY infinite schedule of the modelled events that is executable
    (`hexec`: the environment follows the reference protocol and the code never hits its readersCount panic), in which
    the manager is eventually closed (`hclose`: CleanStop / runtime.AddCleanup / SkipCache) and in which every object is,
    again and again, not in use (`hidle`: every response body is eventually closed, every opened file eventually reaches
    the cache or an error exit).  Then every state of the run is safe, and every file object that is ever opened is
    released — exactly once, by `SafeState` and `released_is_final` — together with all its private handles. -/
def C25_full : Prop :=
  ∀ (c : Bool) (σ : Nat → Ev),
    (∀ n, ∃ s, prefixRun c σ n = some s) →
    (∃ n s, prefixRun c σ n = some s ∧ s.closed = true) →
    (∀ (n i : Nat), ∃ m s, n ≤ m ∧ prefixRun c σ m = some s ∧
        ∀ o, s.objs[i]? = some o → o.readers = 0 ∧ o.loc ≠ .fresh) →
    (∀ n s, prefixRun c σ n = some s → SafeState s) ∧
    (∀ n s (i : Nat) (o : Obj), prefixRun c σ n = some s → s.objs[i]? = some o →
        ∃ m s' o', n ≤ m ∧ prefixRun c σ m = some s' ∧ s'.objs[i]? = some o' ∧ o'.released = 1 ∧ o'.hOpened = o'.hClosed)

/-- the full statement holds for the model (the residue of C25 is outside it: that real executions are such runs) -/
theorem fair_run_releases_everything : C25_full := by
  intro c σ _ hclose hidle
  refine ⟨fun n s h => reachable_safe s (prefixRun_reachable c σ n s h), ?_⟩
  intro n s i o hn ho
  obtain ⟨n0, s0, hn0, hc0⟩ := hclose
  obtain ⟨m, sm, hm, hsm, hq⟩ := hidle (max n n0) i
  have hnm : n ≤ m := Nat.le_trans (Nat.le_max_left n n0) hm
  have hn0m : n0 ≤ m := Nat.le_trans (Nat.le_max_right n n0) hm
  obtain ⟨k1, hk1⟩ := Nat.exists_eq_add_of_le hnm
  obtain ⟨k2, hk2⟩ := Nat.exists_eq_add_of_le hn0m
  have h1 := prefix_mono c σ n s hn k1 sm (by rw [← hk1]; exact hsm)
  have h2 := prefix_mono c σ n0 s0 hn0 k2 sm (by rw [← hk2]; exact hsm)
  obtain ⟨om, hom⟩ := h1.2 i o ho
  have hcl : sm.closed = true := h2.1 hc0
  obtain ⟨hidle0, hnf⟩ := hq om hom
  have := idle_object_released_when_closed sm (prefixRun_reachable c σ m sm hsm) hcl i om hom hidle0 hnf
  exact ⟨m, sm, om, hnm, hsm, hom, this.1, this.2⟩

/-! ### non-vacuity: concrete runs -/

-- a schedule satisfying the three hypotheses of `C25_full`: open, set, reader, close, reader closed, then idle gets
def sched : Nat → Ev
  | 0 => .open_ true | 1 => .set 0 p0 0 | 2 => .readerNew 0 | 3 => .close | 4 => .read 0 | 5 => .readerClose 0 true
  | _ => .get 0 p0
where p0 : Bytes := [47, 97]
example : (prefixRun false sched 6).map (fun s => (s.closed, s.objs.map fun o => (o.released, o.readers, o.hOpened, o.hClosed))) =
    some (true, [(1, 0, 1, 1)]) := by decide +kernel


def p1 : Bytes := ofString "/a"

-- two requests race for the same path: the loser's file is released at once, the winner's after close + last reader
example : (run (init false) [.open_ true, .open_ true, .set 0 p1 0, .set 0 p1 1, .readerNew 0, .readerNew 0,
      .clean [0], .read 0, .readerClose 0 true, .close, .read 0, .readerClose 0 false]).map
      (fun s => s.objs.map fun o => (o.released, o.readers, o.hOpened, o.hClosed)) =
    some [(1, 0, 2, 2), (1, 0, 0, 0)] := by decide +kernel
-- the same history, observed just before the last reader closes: evicted and pending, still open, still readable
example : (run (init false) [.open_ true, .open_ true, .set 0 p1 0, .set 0 p1 1, .readerNew 0, .readerNew 0,
      .clean [0], .read 0, .readerClose 0 true, .close, .read 0]).map
      (fun s => s.objs.map fun o => (o.loc, o.released, o.readers, o.pool)) =
    some [(.pending, 0, 1, 1), (.detached, 1, 0, 0)] := by decide +kernel
-- reading after the release is not an event of the system; neither is a second decrement
example : run (init false) [.open_ false, .set 0 p1 0, .dec 0, .close, .read 0] = none := by decide +kernel
example : run (init false) [.open_ false, .set 0 p1 0, .dec 0, .dec 0] = none := by decide +kernel
-- error exit: opened, header sniffing fails, closed
example : (run (init false) [.open_ false, .fail 0]).map (fun s => s.objs.map (·.released)) = some [1] := by
  decide +kernel
-- SkipCache manager (`init true`): the last reader's close releases the file
example : (run (init true) [.open_ false, .set 0 p1 0, .readerNew 0, .read 0, .readerClose 0 true]).map
    (fun s => s.objs.map (·.released)) = some [1] := by decide +kernel

end Fh.Props.C25
