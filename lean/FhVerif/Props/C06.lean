/-
C06 — Cookie values cannot smuggle cookies or attributes; cookies round-trip.

Model: Model/Cookie.lean (cookie.go + request-cookie path of header.go, including the repair
"fix: RequestHeader.SetCookie neutralises ';'").  Reference: Spec/SetCookie.lean (RFC 6265 §5.2 user agent, §4.2.1 server).
The date codec (AppendHTTPDate / parseCookieExpires) is a parameter; its round trip is the hypothesis `GoodDate`
(C31's subject) and is checked on every generated expiry by the C06 harness.
-/
import FhVerif.Proofs.Cookie
import FhVerif.Proofs.CookieObj
import FhVerif.Gen.Facts
import FhVerif.Gen.CookieScratch

namespace Fh.Props.C06
open Fh Fh.Model Fh.Spec Fh.Proofs.Cookie

/-! ### regenerated structural facts (re-decided against /repo on each run) -/

/-- every Cookie text setter and RequestHeader.SetCookie runs the CR/LF sanitiser and removeSemicolons -/
theorem setters_call_neutralisers :
    "removeSemicolons" ∈ Gen.calls_Cookie_SetKey ∧ "removeSemicolons" ∈ Gen.calls_Cookie_SetKeyBytes ∧
    "removeSemicolons" ∈ Gen.calls_Cookie_SetValue ∧ "removeSemicolons" ∈ Gen.calls_Cookie_SetValueBytes ∧
    "removeSemicolons" ∈ Gen.calls_Cookie_SetDomain ∧ "removeSemicolons" ∈ Gen.calls_Cookie_SetDomainBytes ∧
    "removeSemicolons" ∈ Gen.calls_Cookie_SetPath ∧ "removeSemicolons" ∈ Gen.calls_Cookie_SetPathBytes ∧
    "removeNewLines" ∈ Gen.calls_Cookie_SetPath ∧ "removeNewLines" ∈ Gen.calls_Cookie_SetPathBytes ∧
    "initHeaderValueString" ∈ Gen.calls_Cookie_SetKey ∧ "initHeaderValueBytes" ∈ Gen.calls_Cookie_SetKeyBytes ∧
    "initHeaderValueString" ∈ Gen.calls_Cookie_SetValue ∧ "initHeaderValueBytes" ∈ Gen.calls_Cookie_SetValueBytes ∧
    "initHeaderValueString" ∈ Gen.calls_Cookie_SetDomain ∧ "initHeaderValueBytes" ∈ Gen.calls_Cookie_SetDomainBytes ∧
    "removeSemicolons" ∈ Gen.calls_RequestHeader_SetCookie ∧ "initHeaderValueString" ∈ Gen.calls_RequestHeader_SetCookie := by
  decide

/-! ### cookies built through the setter API -/

inductive CkOp
  | key (b : Bytes) | value (b : Bytes) | domain (b : Bytes) | path (b : Bytes)
  | maxAge (n : Int) | expire (t : Option Nat) | httpOnly (b : Bool) | secure (b : Bool)
  | sameSite (m : SameSite) | partitioned (b : Bool)

def applyOp (c : Cookie) : CkOp → Cookie
  | .key b => c.setKey b
  | .value b => c.setValue b
  | .domain b => c.setDomain b
  | .path b => c.setPath b
  | .maxAge n => c.setMaxAge n
  | .expire t => c.setExpire t
  | .httpOnly b => c.setHTTPOnly b
  | .secure b => c.setSecure b
  | .sameSite m => c.setSameSite m
  | .partitioned b => c.setPartitioned b

/-- the cookie after any sequence of setter calls on a fresh (or Reset) Cookie -/
def build (ops : List CkOp) : Cookie := ops.foldl applyOp {}

/-- every text field of a setter-built cookie is free of ';', CR and LF — for arbitrary argument bytes -/
theorem setters_neutralise (ops : List CkOp) : Clean (build ops) := by
  suffices h : ∀ c, Clean c → Clean (ops.foldl applyOp c) from
    h {} ⟨noSemi_nil, noSemi_nil, noSemi_nil, noSemi_nil, (fun _ h => nomatch h), (fun _ h => nomatch h),
      (fun _ h => nomatch h), (fun _ h => nomatch h)⟩
  induction ops with
  | nil => intro c hc; exact hc
  | cons op rest ih =>
    intro c hc
    simp only [List.foldl_cons]
    apply ih
    cases op with
    | key b => exact { hc with key := ckSanitize_noSemi b, keyNL := ckSanitize_noNL b }
    | value b => exact { hc with value := ckSanitize_noSemi b, valueNL := ckSanitize_noNL b }
    | domain b => exact { hc with domain := ckSanitize_noSemi b, domainNL := ckSanitize_noNL b }
    | path b => exact { hc with path := ckSanitize_noSemi _, pathNL := ckSanitize_noNL _ }
    | maxAge n => exact ⟨hc.key, hc.value, hc.domain, hc.path, hc.keyNL, hc.valueNL, hc.domainNL, hc.pathNL⟩
    | expire t => exact ⟨hc.key, hc.value, hc.domain, hc.path, hc.keyNL, hc.valueNL, hc.domainNL, hc.pathNL⟩
    | httpOnly b => exact ⟨hc.key, hc.value, hc.domain, hc.path, hc.keyNL, hc.valueNL, hc.domainNL, hc.pathNL⟩
    | secure b => exact ⟨hc.key, hc.value, hc.domain, hc.path, hc.keyNL, hc.valueNL, hc.domainNL, hc.pathNL⟩
    | sameSite m =>
      simp only [applyOp, Cookie.setSameSite]
      split <;> exact ⟨hc.key, hc.value, hc.domain, hc.path, hc.keyNL, hc.valueNL, hc.domainNL, hc.pathNL⟩
    | partitioned b =>
      simp only [applyOp, Cookie.setPartitioned]
      split
      · exact ⟨hc.key, hc.value, hc.domain, ckSanitize_noSemi _, hc.keyNL, hc.valueNL, hc.domainNL, ckSanitize_noNL _⟩
      · exact ⟨hc.key, hc.value, hc.domain, hc.path, hc.keyNL, hc.valueNL, hc.domainNL, hc.pathNL⟩

/-! ### no attribute smuggling: what a user agent (RFC 6265 §5.2) reads off the Set-Cookie string -/

/-- C06: for ANY key, value, domain and path bytes given to the setters, the attributes a user agent recognises in the
    serialised cookie are exactly the attributes that were set (`attrsSet`: read off the Cookie's fields, in order) —
    none added, none dropped, none renamed.  Only hypothesis: the date text contains no ';'. -/
theorem no_attr_smuggle (D : DateCodec) (hD : ∀ t, ∀ c ∈ D.fmt t, c ≠ 59) (ops : List CkOp) :
    rfcAttrs ((build ops).appendBytes D) = attrsSet D (build ops) :=
  rfcAttrs_append D hD (setters_neutralise ops)

/-- the same for every cookie whose text fields are free of ';' (e.g. one produced by ParseBytes and re-serialised) -/
theorem no_attr_smuggle_clean (D : DateCodec) (hD : ∀ t, ∀ c ∈ D.fmt t, c ≠ 59) (c : Cookie) (hc : Clean c) :
    rfcAttrs (c.appendBytes D) = attrsSet D c :=
  rfcAttrs_append D hD hc

/-! ### Cookie.ParseBytes ∘ Cookie.AppendBytes -/

/-- C06: fasthttp's own parser, applied to the serialised form of any setter-built cookie, either rejects it
    (only ErrInvalidCookieValue: a '"' or '\' left in value/domain, a byte outside 0x20..0x7e in the path; or
    ErrNoCookies for the empty cookie) or returns `canon c`: exactly the attributes set (documented normalisations:
    max-age precedence over expires, negative max-age = 0, edge spaces / one pair of enclosing quotes trimmed).
    It never yields an attribute that was not set. -/
theorem setcookie_attrs_roundtrip (D : DateCodec) (hD : GoodDate D) (ops : List CkOp)
    (hm : (build ops).maxAge ≤ 2 ^ 63 - 1) (he : (build ops).expire ≠ some 0) :
    Cookie.parseBytes D ((build ops).appendBytes D) =
      if ((build ops).appendBytes D).isEmpty then .error .noCookies
      else if parseable (build ops) then .ok (canon (build ops)) else .error .invalidValue :=
  parse_append D hD (build ops) (setters_neutralise ops) hm he

/-- C06: key, value, domain, path made of RFC 6265 cookie-octets (key a non-empty name without '=') round-trip
    unchanged together with every attribute; expiry to the second (unless max-age is set, which takes precedence). -/
theorem octets_roundtrip (D : DateCodec) (hD : GoodDate D) (c : Cookie)
    (hk : CookieName c.key) (hv : OctetStr c.value) (hd : OctetStr c.domain) (hp : OctetStr c.path)
    (hm0 : 0 ≤ c.maxAge) (hm : c.maxAge ≤ 2 ^ 63 - 1) (he : c.expire ≠ some 0) :
    Cookie.parseBytes D (c.appendBytes D) = .ok { c with expire := if c.maxAge ≠ 0 then none else c.expire } := by
  have hc : Clean c := ⟨octet_noSemi hk.oct, octet_noSemi hv, octet_noSemi hd, octet_noSemi hp,
    octet_noNL hk.oct, octet_noNL hv, octet_noNL hd, octet_noNL hp⟩
  have hkne : c.key.isEmpty = false := by
    cases h : c.key with
    | nil => exact absurd h hk.ne
    | cons a t => rfl
  have hkv : ckSplitKV c.kvPiece = (c.key, c.value) := by
    simp only [Cookie.kvPiece, hkne, Bool.false_eq_true, if_false, List.append_assoc, List.singleton_append]
    rw [ckSplitKV_named _ _ hk.noEq, octet_trim hk.oct, octet_trim hv]
  have hne : (c.appendBytes D).isEmpty = false := by
    cases h : c.key with
    | nil => exact absurd h hk.ne
    | cons a t => simp [Cookie.appendBytes, Cookie.kvPiece, h]
  rw [parse_append D hD c hc hm he]
  simp only [hne, Bool.false_eq_true, if_false, parseable, hkv, octet_validValue hv, octet_trim hd, octet_trim hp,
    octet_validValue hd, octet_validPath hp, Bool.and_self, if_true]
  congr 1
  have : ¬ c.maxAge < 0 := by omega
  simp only [canon, hkv, octet_trim hd, octet_trim hp, this, if_false]

/-! ### request cookies: RequestHeader.SetCookie … AppendBytes … server-side parse -/

/-- C06: after ANY sequence of RequestHeader.SetCookie calls (arbitrary key/value bytes), the cookies the server parses
    from the written Cookie header are obtained cookie by cookie from the stored list: each stored cookie yields at most
    one parsed cookie, which depends on that cookie alone.  In particular never more cookies than were set. -/
theorem request_no_extra (ops : List (Bytes × Bytes)) :
    parseRequestCookies (appendRequestCookieBytes (reqOps ops)) =
      ((reqOps ops).map fun e => ckSplitKV (ckItem e)).filter ckKeep :=
  parse_append_request _ (reqOps_clean ops)

theorem request_count_le (ops : List (Bytes × Bytes)) :
    (parseRequestCookies (appendRequestCookieBytes (reqOps ops))).length ≤ (reqOps ops).length := by
  rw [request_no_extra]
  exact Nat.le_trans (List.length_filter_le _ _) (by simp)

/-- C06: for cookie-octet names and values the server sees exactly the ordered multimap of the cookies set
    (SetCookie = `set` of the C28 reference multimap). -/
theorem request_cookies_exact (ops : List (Bytes × Bytes)) (h : ∀ kv ∈ ops, CookieName kv.1 ∧ OctetStr kv.2) :
    parseRequestCookies (appendRequestCookieBytes (reqOps ops)) =
      (ops.foldl (fun (m : MM) kv => m.set kv.1 (some kv.2)) []).map fun e => (e.key, e.value.getD []) := by
  have inv : ∀ (l : ArgList), (∀ e ∈ l, CookieName e.key ∧ OctetStr e.val) →
      (∀ e ∈ ops.foldl (fun cs kv => reqSetCookie cs kv.1 kv.2) l, CookieName e.key ∧ OctetStr e.val) ∧
      C28.abs (ops.foldl (fun cs kv => reqSetCookie cs kv.1 kv.2) l) =
        ops.foldl (fun (m : MM) kv => m.set kv.1 (some kv.2)) (C28.abs l) := by
    induction ops with
    | nil => intro l hl; exact ⟨hl, rfl⟩
    | cons kv rest ih =>
      intro l hl
      have hkv := h kv (by simp)
      have e1 : ckSanitize kv.1 = kv.1 := octet_sanitize hkv.1.oct
      have e2 : ckSanitize kv.2 = kv.2 := octet_sanitize hkv.2
      simp only [List.foldl_cons, reqSetCookie, e1, e2]
      have := ih (fun x hx => h x (by simp [hx])) (setArg l kv.1 (some kv.2))
        (setArg_keys l kv.1 kv.2 _ hl ⟨hkv.1, hkv.2⟩)
      rw [C28.set_refines] at this
      exact this
  obtain ⟨hall, habs⟩ := inv [] (by intro e he; cases he)
  rw [show reqOps ops = ops.foldl (fun cs kv => reqSetCookie cs kv.1 kv.2) [] from rfl,
    parse_append_request_octets _ hall]
  have : C28.abs ([] : ArgList) = [] := rfl
  rw [this] at habs
  rw [← habs]
  simp [C28.abs, KV.val]

/-- the defect the check found on the unrepaired tree: without ';' neutralisation in RequestHeader.SetCookie,
    `SetCookie("a", "1; b=2")` makes the server see two cookies. -/
theorem unsanitised_setcookie_counterexample :
    parseRequestCookies (appendRequestCookieBytes (reqSetCookieUnfixed [] [97] [49, 59, 32, 98, 61, 50])) =
      [([97], [49]), ([98], [50])] := by
  decide +kernel

/-! ### reused and pooled Cookie objects: serialisation depends on the current fields only, never on the history -/

/-- regenerated from cookie.go on every run: the Cookie struct consists of the ten value fields (all assigned by Reset,
    all assigned by CopyTo, which like ParseBytes starts from Reset) and the scratch buffers bufK / bufV; no method reads a
    scratch buffer before it has itself written it (a clean write `c.buf = f(c.buf[:0], …)` in an enclosing block).
    Hence nothing a method returns depends on what an earlier call left in a buffer: the Go object IS the model's ten
    fields. -/
theorem scratch_buffers_write_before_read :
    Gen.cookie_staleScratchReads = [] ∧ Gen.cookie_scratchFields = ["bufK", "bufV"] ∧
    Gen.cookie_resetFields = ["domain", "expire", "httpOnly", "key", "maxAge", "partitioned", "path", "sameSite", "secure", "value"] ∧
    (∀ f ∈ Gen.cookie_resetFields, f ∈ Gen.cookie_copyToFields) ∧
    Gen.cookie_parseBytesResetsFirst = true ∧ Gen.cookie_copyToResetsFirst = true ∧
    "AppendBytes" ∈ Gen.cookie_methods ∧ "ParseBytes" ∈ Gen.cookie_methods ∧ "CopyTo" ∈ Gen.cookie_methods := by
  decide

/-- Parse / ParseBytes / ResponseHeader.Cookie overwrite the object: whatever happened to it before (setters, earlier
    parses, copies, resets, serialisations — `hist`), afterwards its fields are those of the parsed text alone. -/
theorem parse_overwrites_history (D : DateCodec) (c0 : Cookie) (hist : List CkObjOp) (src : Bytes) :
    Cookie.runObj D c0 (hist ++ [.parse src]) = (Cookie.parseInto D src).1 := by
  simp [Cookie.runObj, List.foldl_append, Cookie.applyObj]

/-- the same for CopyTo and for Reset / ReleaseCookie+AcquireCookie -/
theorem copy_and_reset_overwrite_history (D : DateCodec) (c0 src : Cookie) (hist : List CkObjOp) :
    Cookie.runObj D c0 (hist ++ [.copyFrom src]) = src ∧ Cookie.runObj D c0 (hist ++ [.reset]) = {} := by
  simp [Cookie.runObj, List.foldl_append, Cookie.applyObj]

/-- serialising does not change the object: any number of Cookie/String/AppendBytes/WriteTo calls interleaved -/
theorem serialise_is_pure (D : DateCodec) (c : Cookie) (n : Nat) :
    Cookie.runObj D c (List.replicate n .serialise) = c := by
  induction n with
  | zero => rfl
  | succ k ih => simpa [Cookie.runObj, List.replicate_succ, Cookie.applyObj] using ih

/-- everything ParseBytes returns has ';'/CR/LF-free text fields, so the theorems above apply to re-serialised cookies -/
theorem parsed_cookie_clean (D : DateCodec) (src : Bytes) (c : Cookie) (h : Cookie.parseBytes D src = .ok c) :
    Clean c ∧ c.maxAge ≤ 2 ^ 63 - 1 ∧ c.expire ≠ some 0 :=
  let p := parse_parsed D src c h
  ⟨p.clean, p.maxAge, p.expire⟩

/-- C06 on a reused object: after ANY history, a successful Parse of `src` followed by serialisation gives a Set-Cookie
    string in which a user agent sees exactly the attributes of the parsed cookie (none left over from the history), and
    which ParseBytes reads back as the canonical form of that cookie — in particular with ITS expiry. -/
theorem reserialise_after_history (D : DateCodec) (hD : GoodDate D) (c0 : Cookie) (hist : List CkObjOp) (src : Bytes)
    (c : Cookie) (h : Cookie.parseBytes D src = .ok c) :
    let obj := Cookie.runObj D c0 (hist ++ [.parse src, .serialise])
    obj = c ∧ rfcAttrs (obj.appendBytes D) = attrsSet D c ∧
    Cookie.parseBytes D (obj.appendBytes D) =
      if (c.appendBytes D).isEmpty then .error .noCookies
      else if parseable c then .ok (canon c) else .error .invalidValue := by
  intro obj
  have hobj : obj = c := by
    have := (parseInto_ok D src c).1 h
    simp [obj, Cookie.runObj, List.foldl_append, Cookie.applyObj, this]
  have hp := parse_parsed D src c h
  rw [hobj]
  exact ⟨rfl, rfcAttrs_append D hD.noSemi hp.clean, parse_append D hD c hp.clean hp.maxAge hp.expire⟩

/-! ### non-vacuity -/

-- an object that carried (and serialised) expiry 2099 and then parses a cookie with expiry 2031 serialises 2031
example : ((Cookie.runObj ckDate {} [.setKey (ofString "a"), .setExpire (some 66233638800), .serialise,
    .parse (ofString "prefs=xyz; expires=Wed, 01 Jan 2031 10:20:30 GMT; HttpOnly"), .serialise]).appendBytes ckDate) =
    ofString "prefs=xyz; expires=Wed, 01 Jan 2031 10:20:30 GMT; HttpOnly" := by decide +kernel

-- an attacker-controlled value cannot add a Domain attribute: the ';' is neutralised
example : rfcAttrs ((build [.key (ofString "k"), .value (ofString "v; Domain=evil.com"), .secure true]).appendBytes ckDate) =
    [(.secure, [])] := by decide +kernel
example : (build [.key (ofString "k"), .value (ofString "v; Domain=evil.com")]).appendBytes ckDate =
    ofString "k=v  Domain=evil.com" := by decide +kernel
-- a full round trip through the model of ParseBytes
example : (Cookie.parseBytes ckDate ((build [.key (ofString "sid"), .value (ofString "abc"), .domain (ofString "x.org"),
    .path (ofString "/a/../b"), .maxAge 60, .httpOnly true, .sameSite .none, .partitioned true]).appendBytes ckDate)).toOption =
    some ({ key := ofString "sid", value := ofString "abc", domain := ofString "x.org", path := ofString "/", maxAge := 60,
            httpOnly := true, secure := true, sameSite := SameSite.none, partitioned := true } : Cookie) := by decide +kernel
-- the executable date codec round-trips on a sample (the general statement is C31's)
example : ckParseDate (ckFmtDate 63898123456) = some 63898123456 := by decide +kernel
-- after the fix the same call yields one cookie
example : parseRequestCookies (appendRequestCookieBytes (reqOps [(ofString "a", ofString "1; b=2")])) =
    [(ofString "a", ofString "1  b=2")] := by decide +kernel
example : parseRequestCookies (appendRequestCookieBytes (reqOps [(ofString "a", ofString "1"), (ofString "b", ofString "2"),
    (ofString "a", ofString "3")])) = [(ofString "a", ofString "3"), (ofString "b", ofString "2")] := by decide +kernel

end Fh.Props.C06
