/-
C36 — fasthttpadaptor handlers behave like the same handler under net/http.   Level: proof, partial.

Proved (for the code after the `fix:` commits; the model mirrors adaptor.go's `writer` and request.go):
  * adaptor_final_eq_reference      for EVERY handler program over WriteHeader/Add/Set/Del/Write/Flush with valid codes
                                    that leaves Content-Length to the server: final status, header fields and body of
                                    the adaptor equal the net/http ResponseWriter reference (1xx codes do not fix the
                                    status; the first final WriteHeader / Write / Flush fixes status + header snapshot).
  * buffered_body_is_copied         regenerated fact: the pooled writer buffer reaches ctx.Response through SetBody (a copy),
                                    never through SetBodyRaw/SwapBody/SetBodyStream — the response owns its body once the
                                    adaptor handler has returned (tied behaviourally by the harness' "overlap" scenario).
  * adaptor_old_*_counterexample    the three repaired defects (1xx became the final status; header changes after the
                                    status was fixed were sent; Write did not fix the status) as theorems about the
                                    behaviour before the fixes.
  * convert_eq_reference_parse_partial   ConvertRequest = http.ReadRequest on method, RequestURI(URL), proto, major/minor,
                                    Host (case-insensitively), every header field, body — for requests on which neither
                                    parser adds or moves a framing field (guards below).
  * convert_eq_reference_parse_counterexample, C36_full_counterexample   the recorded findings: fasthttp's request
                                    parser hands out a synthesized `Content-Length: 0` / `Connection: close`, net/http adds
                                    `Cache-Control: no-cache` for a lone `Pragma: no-cache`.
  * convert_old_counterexample      the repaired ProtoMinor / Host-in-Header defects.
Not proved (residue): that fasthttp transmits the header fields and body handed to ctx.Response unchanged (C03/C29),
the tokenisation of requests (C01/C09), url.ParseRequestURI; interim 1xx responses are not sent by the adaptor at all
(the statement is about the final response); Hijack, trailers, panicking handlers are outside the statement.
-/
import FhVerif.Proofs.Adaptor
import FhVerif.Gen.Adaptor

namespace Fh.Props.C36
open Fh Fh.Spec.NH Fh.Model.Adaptor Fh.Proofs.Adaptor

/-! ### handler programs -/

/-- C36, response half: for every well-formed handler program the adaptor's final response is the reference's. -/
theorem adaptor_final_eq_reference (p : List HOp) (hp : wellFormed p) : adaptor p = reference p := by
  have hi := inv_run p hp
  unfold adaptor reference
  simp only [hi.spn, hi.wpn, Bool.false_eq_true, if_false]
  rw [final_eq _ _ hi]

/-- regenerated structural fact (extract/adaptor_c36.go): the model gives the response its own copy of the handler's bytes
    (`W.final` returns values); the code does the same as long as the pooled writer buffer `w.responseBody` — returned to
    the package-level sync.Pool by `releaseWriter` right after the response was filled in — is handed to fasthttp with a
    COPYING call and never with an aliasing one: after the adaptor handler returns, the response owns its body. -/
theorem buffered_body_is_copied :
    "SetBody" ∈ Gen.adaptorCtxCalls ∧ "SetBodyRaw" ∉ Gen.adaptorCtxCalls ∧ "SwapBody" ∉ Gen.adaptorCtxCalls ∧
    "SetBodyStream" ∉ Gen.adaptorCtxCalls := by decide

/-! handler-set Content-Length (outside `wellFormed`, which leaves the field to the server) -/
def clProg : List HOp := [.set sContentLength (ofString "5"), .write (ofString "hello")]

/-- buffered answers keep the handler's Content-Length (a HEAD answer that only declares its length included) -/
theorem content_length_kept_when_buffered :
    adaptor clProg = reference clProg ∧
    adaptor [.set sContentLength (ofString "1234")] = reference [.set sContentLength (ofString "1234")] := by decide +kernel

/-- recorded finding content-length-dropped-when-streaming: after a Flush the adaptor sends no Content-Length -/
theorem content_length_streaming_counterexample :
    (adaptor (clProg ++ [.flush])).map (fun r => Hdr.values r.header sContentLength) = some [] ∧
    (reference (clProg ++ [.flush])).map (fun r => Hdr.values r.header sContentLength) = some [ofString "5"] := by decide +kernel

/-- in particular no well-formed program panics -/
theorem adaptor_defined (p : List HOp) (hp : wellFormed p) : (adaptor p).isSome = true := by
  have hi := inv_run p hp
  simp [adaptor, hi.wpn]

def xAfter : Bytes := ofString "X-After"
def one : Bytes := ofString "1"

/-- the design-round witness: WriteHeader(103); WriteHeader(201); Header().Add("X-After","1"); Write("x") -/
def witness : List HOp := [.writeHeader 103, .writeHeader 201, .add xAfter one, .write (ofString "x")]

/-- before the fix the informational code became the final status (and the body was dropped) -/
theorem adaptor_old_status_counterexample :
    (adaptorOld witness).map (·.status) = some 103 ∧ (reference witness).map (·.status) = some 201 := by decide +kernel

/-- before the fix a header added after the status was fixed was sent -/
theorem adaptor_old_late_header_counterexample :
    (adaptorOld witness).map (fun r => Hdr.values r.header xAfter) = some [one] ∧
    (reference witness).map (fun r => Hdr.values r.header xAfter) = some [] := by decide +kernel

/-- before the fix Write did not fix the status: Write; WriteHeader(404) answered 404 instead of 200 -/
theorem adaptor_old_write_counterexample :
    (adaptorOld [.write (ofString "x"), .writeHeader 404]).map (·.status) = some 404 ∧
    (reference [.write (ofString "x"), .writeHeader 404]).map (·.status) = some 200 := by decide +kernel

/-- so the old writer did not satisfy the theorem -/
theorem adaptor_old_counterexample : ¬ (∀ p, wellFormed p → adaptorOld p = reference p) := by
  intro h
  have := h witness (by decide +kernel)
  exact absurd this (by decide +kernel)

/-- after the fix the same programs agree (instances of `adaptor_final_eq_reference`, evaluated) -/
example : adaptor witness = some ⟨201, [], ofString "x"⟩ ∧ reference witness = some ⟨201, [], ofString "x"⟩ := by decide +kernel
example : wellFormed witness := by decide +kernel
example : referenceInterim witness = [103] := by decide +kernel
example : adaptor [.add xAfter one, .add xAfter (ofString "2"), .flush, .set xAfter (ofString "3"), .write (ofString "b"), .writeHeader 500] =
    some ⟨200, [(xAfter, one), (xAfter, ofString "2")], ofString "b"⟩ := by decide +kernel

/-! ### requests -/

/-- equality of what C36 compares of two http.Requests: Host case-insensitively, header fields per name -/
structure ReqEquiv (a b : HReq) : Prop where
  method : a.method = b.method
  uri : a.requestURI = b.requestURI
  proto : a.proto = b.proto
  major : a.major = b.major
  minor : a.minor = b.minor
  host : lowerB a.host = lowerB b.host
  header : ∀ k, Hdr.values a.header k = Hdr.values b.header k
  body : a.body = b.body

def singleton (k : Bytes) : Bool := k = sContentLength || k = sContentType || k = sUserAgent || k = sCookie

/-- requests inside the proved region: neither parser adds, drops or moves a field -/
structure Plain (q : TokReq) : Prop where
  /-- an HTTP/1.x request line -/
  version : ∃ m, parseHTTPVersion q.proto = some (1, m)
  /-- fasthttp's Content-Length view is the request's own field (no synthesized `Content-Length: 0`) -/
  noSynthCL : fhCL q = lastValue q.fields sContentLength
  /-- fasthttp's parser does not hand out / move a `Connection: close` -/
  noSynthClose : fhClose q = false
  /-- singleton fields occur at most once (RFC 9110 5.3) and are non-empty -/
  once : ∀ k, singleton k = true → (Hdr.values q.fields k).length ≤ 1
  nonEmpty : ∀ e ∈ q.fields, singleton e.1 = true → e.2 ≠ []
  /-- net/http does not add `Cache-Control: no-cache` for a lone `Pragma: no-cache` -/
  noPragmaFix : ¬ ((Hdr.values q.fields sPragma).head? = some sNoCache ∧ Hdr.values q.fields sCacheControl = [])

private theorem values_mem (f : Hdr) (k v : Bytes) (h : v ∈ Hdr.values f k) : (k, v) ∈ f := by
  simp only [Hdr.values, List.mem_map, List.mem_filter, decide_eq_true_eq] at h
  obtain ⟨e, ⟨he, hk⟩, hv⟩ := h
  have : e = (k, v) := by cases e; simp_all
  rw [← this]; exact he

private theorem filter_nonempty_id (f : Hdr) (k : Bytes) (hne : ∀ e ∈ f, e.1 = k → e.2 ≠ []) :
    (Hdr.values f k).filter (fun v => !v.isEmpty) = Hdr.values f k := by
  apply List.filter_eq_self.mpr
  intro v hv
  have := hne (k, v) (values_mem f k v hv) rfl
  cases v with
  | nil => exact absurd rfl this
  | cons _ _ => rfl

private theorem no_close_kept (l : List Bytes) (h : l.any (fun v => v = sClose || hasToken v sClose) = false) :
    l.filter (fun v => v ≠ sClose) = l := by
  apply List.filter_eq_self.mpr
  intro v hv
  simp only [List.any_eq_false, Bool.or_eq_true, decide_eq_true_eq, not_or] at h
  have := (h v hv).1
  simpa using this

/-- the value list the model hands out for one singleton field equals the field's values -/
private theorem single_segment (f : Hdr) (n k : Bytes) (h1 : (Hdr.values f n).length ≤ 1)
    (hne : ∀ e ∈ f, e.1 = n → e.2 ≠ []) :
    Hdr.values (optField n (lastValue f n)) k = if n = k then Hdr.values f n else [] := by
  unfold lastValue optField
  match hv : Hdr.values f n, h1 with
  | [], _ => by_cases h : n = k <;> simp [values_nil, h]
  | [x], _ =>
    have hx : x ≠ [] := hne (n, x) (values_mem f n x (by rw [hv]; exact List.mem_singleton.mpr rfl)) rfl
    have : x.isEmpty = false := by cases x with | nil => exact absurd rfl hx | cons _ _ => rfl
    simp [this, values_single]

private theorem cookie_segment (q : TokReq) (k : Bytes) (h1 : (Hdr.values q.fields sCookie).length ≤ 1)
    (hne : ∀ e ∈ q.fields, e.1 = sCookie → e.2 ≠ []) :
    Hdr.values (if (fhCookies q).isEmpty then [] else [(sCookie, joinWith sSemiSp (fhCookies q))]) k =
      if sCookie = k then Hdr.values q.fields sCookie else [] := by
  have hc : fhCookies q = Hdr.values q.fields sCookie := filter_nonempty_id q.fields sCookie hne
  rw [hc]
  match hv : Hdr.values q.fields sCookie, h1 with
  | [], _ => by_cases h : sCookie = k <;> simp [values_nil, h]
  | [x], _ => simp [joinWith, values_single]

private theorem host_segment (f : Hdr) (k : Bytes) (hk : sHost ≠ k) : Hdr.values (optField sHost (Hdr.values f sHost).head?) k = [] := by
  unfold optField
  split
  · split
    · rfl
    · simp [values_single, hk]
  · rfl

private theorem ordinary_segment (f : Hdr) (k : Bytes) :
    Hdr.values (f.filter (fun e => !isSpecialReq e.1)) k = if isSpecialReq k then [] else Hdr.values f k := by
  by_cases h : isSpecialReq k = true
  · rw [if_pos h]
    exact values_filter_drop f (fun n => !isSpecialReq n) k (by simp [h])
  · rw [if_neg h]
    exact values_filter_keep f (fun n => !isSpecialReq n) k (by simpa using h)

private theorem names_ne :
    sContentLength ≠ sContentType ∧
    sContentLength ≠ sUserAgent ∧
    sContentLength ≠ sCookie ∧
    sContentLength ≠ sConnection ∧
    sContentType ≠ sContentLength ∧
    sContentType ≠ sUserAgent ∧
    sContentType ≠ sCookie ∧
    sContentType ≠ sConnection ∧
    sUserAgent ≠ sContentLength ∧
    sUserAgent ≠ sContentType ∧
    sUserAgent ≠ sCookie ∧
    sUserAgent ≠ sConnection ∧
    sCookie ≠ sContentLength ∧
    sCookie ≠ sContentType ∧
    sCookie ≠ sUserAgent ∧
    sCookie ≠ sConnection ∧
    sConnection ≠ sContentLength ∧
    sConnection ≠ sContentType ∧
    sConnection ≠ sUserAgent ∧
    sConnection ≠ sCookie ∧
    isSpecialReq sContentLength = true ∧ isSpecialReq sContentType = true ∧ isSpecialReq sUserAgent = true ∧ isSpecialReq sCookie = true ∧ isSpecialReq sConnection = true := by
  decide +kernel

set_option linter.unusedSimpArgs false in
/-- C36, request half (partial): inside the region where no parser adds or moves a framing field, ConvertRequest
    yields what http.ReadRequest yields. -/
theorem convert_eq_reference_parse_partial (q : TokReq) (hq : Plain q) : ReqEquiv (convert q) (referenceParse q) := by
  obtain ⟨⟨m, hver⟩, hcl, hclose, honce, hne, hprag⟩ := hq
  have hnot2 : q.proto ≠ sHTTP2 := by
    intro h; rw [h, parse_http2] at hver; cases hver
  refine ⟨rfl, rfl, rfl, ?_, ?_, ?_, ?_, rfl⟩
  · simp [convert, referenceParse, hver, hnot2]
  · simp [convert, referenceParse, hver]
  · show lowerB (fhHost q) = lowerB (hostOf q)
    unfold fhHost
    split
    · rfl
    · exact lowerB_idem _
  · -- header fields, name by name
    intro k
    have hpf : pragmaFix (q.fields.filter (fun e => e.1 ≠ sHost && e.1 ≠ sTransferEncoding)) =
        q.fields.filter (fun e => e.1 ≠ sHost && e.1 ≠ sTransferEncoding) := by
      unfold pragmaFix
      have e1 : Hdr.values (q.fields.filter (fun e => e.1 ≠ sHost && e.1 ≠ sTransferEncoding)) sPragma = Hdr.values q.fields sPragma :=
        values_filter_keep q.fields (fun n => n ≠ sHost && n ≠ sTransferEncoding) sPragma (by decide +kernel)
      have e2 : Hdr.values (q.fields.filter (fun e => e.1 ≠ sHost && e.1 ≠ sTransferEncoding)) sCacheControl = Hdr.values q.fields sCacheControl :=
        values_filter_keep q.fields (fun n => n ≠ sHost && n ≠ sTransferEncoding) sCacheControl (by decide +kernel)
      rw [e1, e2]
      split
      · rename_i hc
        simp only [Bool.and_eq_true, decide_eq_true_eq, List.isEmpty_iff] at hc
        exact absurd hc hprag
      · rfl
    show Hdr.values ((fhAll q).filter (fun e => e.1 ≠ sHost && e.1 ≠ sTransferEncoding)) k =
      Hdr.values (pragmaFix (q.fields.filter (fun e => e.1 ≠ sHost && e.1 ≠ sTransferEncoding))) k
    rw [hpf]
    by_cases hk : (k ≠ sHost && k ≠ sTransferEncoding) = true
    · rw [values_filter_keep (fhAll q) (fun n => n ≠ sHost && n ≠ sTransferEncoding) k hk,
        values_filter_keep q.fields (fun n => n ≠ sHost && n ≠ sTransferEncoding) k hk]
      have hkH : sHost ≠ k := by
        intro h; subst h; simp at hk
      have hkT : sTransferEncoding ≠ k := by
        intro h; subst h; simp at hk
      have hkept : fhKept q = Hdr.values q.fields sConnection := by
        unfold fhKept
        apply no_close_kept
        simp only [fhClose, Bool.or_eq_false_iff] at hclose
        exact hclose.1
      have segTE : Hdr.values (if fhChunked q then [(sTransferEncoding, sChunked)] else []) k = [] := by
        split
        · simp [values_single, hkT]
        · rfl
      have segClose : Hdr.values (if fhClose q then [(sConnection, sClose)] else []) k = [] := by
        simp [hclose, values_nil]
      unfold fhAll
      simp only [values_append, host_segment q.fields k hkH, hcl,
        single_segment q.fields sContentLength k (honce _ (by decide +kernel)) (fun e he h => hne e he (by rw [h]; decide +kernel)),
        single_segment q.fields sContentType k (honce _ (by decide +kernel)) (fun e he h => hne e he (by rw [h]; decide +kernel)),
        single_segment q.fields sUserAgent k (honce _ (by decide +kernel)) (fun e he h => hne e he (by rw [h]; decide +kernel)),
        cookie_segment q k (honce _ (by decide +kernel)) (fun e he h => hne e he (by rw [h]; decide +kernel)),
        ordinary_segment, values_map_const, hkept, segTE, segClose, List.nil_append, List.append_nil]
      -- which name is k?
      obtain ⟨n0, n1, n2, n3, n4, n5, n6, n7, n8, n9, n10, n11, n12, n13, n14, n15, n16, n17, n18, n19, sp0, sp1, sp2, sp3, sp4⟩ := names_ne
      by_cases c1 : sContentLength = k
      · subst c1; simp [n0, n1, n2, n3, n4, n5, n6, n7, n8, n9, n10, n11, n12, n13, n14, n15, n16, n17, n18, n19, sp0, sp1, sp2, sp3, sp4]
      by_cases c2 : sContentType = k
      · subst c2; simp [n0, n1, n2, n3, n4, n5, n6, n7, n8, n9, n10, n11, n12, n13, n14, n15, n16, n17, n18, n19, sp0, sp1, sp2, sp3, sp4]
      by_cases c3 : sUserAgent = k
      · subst c3; simp [n0, n1, n2, n3, n4, n5, n6, n7, n8, n9, n10, n11, n12, n13, n14, n15, n16, n17, n18, n19, sp0, sp1, sp2, sp3, sp4]
      by_cases c4 : sCookie = k
      · subst c4; simp [n0, n1, n2, n3, n4, n5, n6, n7, n8, n9, n10, n11, n12, n13, n14, n15, n16, n17, n18, n19, sp0, sp1, sp2, sp3, sp4]
      by_cases c5 : sConnection = k
      · subst c5; simp [n0, n1, n2, n3, n4, n5, n6, n7, n8, n9, n10, n11, n12, n13, n14, n15, n16, n17, n18, n19, sp0, sp1, sp2, sp3, sp4]
      · have hns : isSpecialReq k = false := by
          simp only [isSpecialReq, Bool.or_eq_false_iff, decide_eq_false_iff_not]
          exact ⟨⟨⟨⟨⟨⟨fun h => hkH h.symm, fun h => c1 h.symm⟩, fun h => c2 h.symm⟩, fun h => c3 h.symm⟩, fun h => c4 h.symm⟩,
            fun h => c5 h.symm⟩, fun h => hkT h.symm⟩
        simp [c1, c2, c3, c4, c5, hns]
    · have hk' : (k ≠ sHost && k ≠ sTransferEncoding) = false := by simpa using hk
      rw [values_filter_drop (fhAll q) (fun n => n ≠ sHost && n ≠ sTransferEncoding) k hk',
        values_filter_drop q.fields (fun n => n ≠ sHost && n ≠ sTransferEncoding) k hk']

/-! the recorded findings: outside `Plain` the two parsers differ -/

def qDelete : TokReq := ⟨ofString "DELETE", ofString "/", sHTTP11, [(sHost, ofString "h")], []⟩
def qHttp10 : TokReq := ⟨sGET, ofString "/", ofString "HTTP/1.0", [(sHost, ofString "h")], []⟩
def qPragma : TokReq := ⟨sGET, ofString "/", sHTTP11, [(sHost, ofString "h"), (sPragma, sNoCache)], []⟩

/-- finding convert-framing-field-normalised / convert-pragma-cache-control: a body-capable method without
    Content-Length shows `Content-Length: 0`; an HTTP/1.0 request shows `Connection: close`; net/http adds
    `Cache-Control: no-cache` for `Pragma: no-cache`. -/
theorem convert_eq_reference_parse_counterexample :
    Hdr.values (convert qDelete).header sContentLength = [sZero] ∧ Hdr.values (referenceParse qDelete).header sContentLength = [] ∧
    Hdr.values (convert qHttp10).header sConnection = [sClose] ∧ Hdr.values (referenceParse qHttp10).header sConnection = [] ∧
    Hdr.values (convert qPragma).header sCacheControl = [] ∧ Hdr.values (referenceParse qPragma).header sCacheControl = [sNoCache] := by
  decide +kernel

/-- before the fixes: ProtoMinor was always 1 and Host was copied into r.Header -/
theorem convert_old_counterexample :
    (convertOld qHttp10).minor = 1 ∧ (referenceParse qHttp10).minor = 0 ∧ (convert qHttp10).minor = 0 ∧
    Hdr.values (convertOld qHttp10).header sHost = [ofString "h"] ∧ Hdr.values (referenceParse qHttp10).header sHost = [] ∧
    Hdr.values (convert qHttp10).header sHost = [] := by
  decide +kernel

/-- the property at full strength -/
def C36_full : Prop :=
  (∀ p : List HOp, wellFormed p → adaptor p = reference p) ∧ (∀ q : TokReq, ReqEquiv (convert q) (referenceParse q))

/-- the response half of `C36_full` holds … -/
theorem C36_full_response_half : ∀ p : List HOp, wellFormed p → adaptor p = reference p := adaptor_final_eq_reference

/-- … the request half does not (recorded findings), so `C36_full` is false for the pinned tree -/
theorem C36_full_counterexample : ¬ C36_full := by
  intro h
  have := (h.2 qDelete).header sContentLength
  exact absurd this (by decide +kernel)

/-! non-vacuity of the request theorem -/
def qPost : TokReq :=
  ⟨ofString "POST", ofString "/a%20b?x=1", sHTTP11,
    [(sHost, ofString "EXAMPLE.com"), (ofString "X-A", ofString "1"), (sContentType, ofString "text/plain"),
     (ofString "X-A", ofString "2"), (sContentLength, ofString "2"), (sCookie, ofString "k=v")], ofString "hi"⟩

example : (convert qPost).host = ofString "example.com" ∧ (referenceParse qPost).host = ofString "EXAMPLE.com" := by decide +kernel
example : Hdr.values (convert qPost).header (ofString "X-A") = [ofString "1", ofString "2"] := by decide +kernel
example : fhCL qPost = lastValue qPost.fields sContentLength ∧ fhClose qPost = false ∧ parseHTTPVersion qPost.proto = some (1, 1) := by decide +kernel
example : fhClose ⟨sGET, ofString "/", ofString "HTTP/1.0", [(sConnection, sKeepAlive)], []⟩ = false := by decide +kernel

end Fh.Props.C36
