import FhVerif.Base.Bytes
import FhVerif.Model.LB
namespace Fh.Driver
open Fh Fh.Model.LB

/-- split a byte string on a separator byte -/
def lbSplitOn (sep : UInt8) (b : Bytes) : List Bytes :=
  let rec go : Bytes → Bytes → List Bytes
    | [], cur => [cur.reverse]
    | x :: xs, cur => if x = sep then cur.reverse :: go xs [] else go xs (x :: cur)
  go b []

def lbInt? (b : Bytes) : Option Int :=
  match b with
  | 45 :: r => (natOfDec? r).map (fun n => -(n : Int))
  | _ => (natOfDec? b).map (fun n => (n : Int))

/-- "id:pending,id:pending" -/
def lbCfg? (b : Bytes) : Option (List (Nat × Int)) :=
  if b.isEmpty then some []
  else (lbSplitOn 44 b).mapM fun e =>
    match lbSplitOn 58 e with
    | [i, p] => do let i ← natOfDec? i; let p ← lbInt? p; pure (i, p)
    | _ => none

def lbSnap (s : State) : String :=
  ",".intercalate (s.cs.map fun c => s!"{c.id}/{c.penalty}/{c.total}")

/-- a panic inside `once.Do` still marks the Once as done: later calls skip `init` -/
def lbAfterPanic (s : State) : State := { s with inited := true }

/-- the real call on `cs[i]` run without interleaving -/
def lbCall (s : State) (i : Nat) (healthy : Bool) : Option State :=
  match s.cs[i]? with
  | none => none
  | some c => run s (callEvents c i healthy)

/-- one harness op on the model; returns the new state and the observation -/
def lbOp (s : State) (tok : Bytes) : Option (State × String) :=
  match tok with
  | 80 :: r =>  -- P id,n
    match lbSplitOn 44 r with
    | [i, n] => do
      let i ← natOfDec? i; let n ← lbInt? n
      let s' ← step s (.setPending i n)
      pure (s', "P")
    | _ => none
  | 65 :: r =>  -- A id,p
    match lbSplitOn 44 r with
    | [i, p] => do
      let i ← natOfDec? i; let p ← lbInt? p
      -- the harness reuses one fake per id: adding it with pending p also changes what earlier entries report
      let s0 ← step s (.setPending i p)
      let s' ← step s0 (.addClient i p)
      pure (s', s!"A:{s'.cs.length}")
    | _ => none
  | 82 :: r => do  -- R id,id,...
    let ids ← if r.isEmpty then some [] else (lbSplitOn 44 r).mapM natOfDec?
    let s' ← step s (.removeClients ids)
    pure (s', s!"R:{s'.cs.length}")
  | [71] =>  -- G
    match route s with
    | (_, .panicEmptyConfig) => some (lbAfterPanic s, "G:panic")
    | (s', .errNoClients) => some (s', "G:none")
    | (s', .routed i) => some (s', s!"G:{i}")
  | [68, h] =>  -- D0 / D1
    match route s with
    | (_, .panicEmptyConfig) => some (lbAfterPanic s, "D:panic")
    | (s', .errNoClients) => some (s', "D:noclients")
    | (s', .routed i) =>
      match s'.cs[i]? with
      | none => none
      | some c => (lbCall s' i (h = 49)).map fun s'' => (s'', s!"D:{c.id}:{if h = 49 then "ok" else "fail"}")
  | 70 :: h :: r => do  -- F<h><i> : call on cs[i] directly
    let i ← natOfDec? r
    match lbCall s i (h = 49) with
    | none => pure (s, "F:skip")
    | some s' => pure (s', "F")
  | 84 :: r => do  -- T<i> : the oldest armed timer of cs[i] fires after penaltyDuration
    let i ← natOfDec? r
    let s1 ← step s (.tick Gen.penaltyDurationNs)
    match s1.cs[i]? with
    | none => pure (s, "T:skip")
    | some c =>
      match step s1 (.timer i (c.timers.length - 1)) with
      | none => pure (s, "T:skip")
      | some s' => pure (s', "T")
  | [83] => some (s, "S:" ++ lbSnap s)
  | _ => none

def lbRun : State → List Bytes → List String → Option (List String)
  | s, [], acc => some (("S:" ++ lbSnap s) :: acc).reverse
  | s, t :: ts, acc => match lbOp s t with
    | none => none
    | some (s', o) => lbRun s' ts (o :: acc)

/-- settled outcome of `n` concurrent incPenalty calls on a fresh client with no timer firing in between:
    number that returned true, final penalty (theorem `C40.concurrent_failures_settle_at_min`) -/
def lbSettled (n : Nat) : Nat × Nat := (min n Gen.maxPenalty, min n Gen.maxPenalty)

def opsLB (op : String) (a : List Bytes) : Option String :=
  match op, a with
  | "lbseq", _flag :: cfg :: toks => do
    let cfg ← lbCfg? cfg
    let obs ← lbRun (State.start cfg) toks []
    pure (";".intercalate obs)
  | "lbsettled", [n] => do
    let n ← natOfDec? n
    let (t, p) := lbSettled n
    pure s!"{t} {p}"
  | "lbconsts", [] => some s!"{Gen.maxPenalty} {Gen.penaltyDurationNs}"
  | _, _ => none
end Fh.Driver
