import FhVerif.Base.Bytes
import FhVerif.Model.Lockset
namespace Fh.Driver
open Fh Fh.Model.Lockset

def asciiString (b : Bytes) : String := String.ofList (List.map (fun (c : UInt8) => Char.ofNat c.toNat) b)

/-- one argument per spec entry / row: fields separated by U+001F; "S␟type␟field␟mode", "R␟type␟field␟func␟kind␟class␟lock,lock" -/
def decodeTable : List Bytes → Option (List Spec × List Row)
  | [] => some ([], [])
  | a :: rest => do
    let (sp, rows) ← decodeTable rest
    match (asciiString a).splitOn "\x1f" with
    | ["S", ty, f, mode] => some ((ty, f, mode) :: sp, rows)
    | ["R", ty, f, fn, kind, cls, locks] =>
      let ls := if locks.isEmpty then [] else locks.splitOn ","
      some (sp, (ty, f, fn, kind, cls, ls) :: rows)
    | _ => none

/-- events: "a l t", "r l t", "A l t" (RLock), "R l t" (RUnlock), "x f t w" as decimal triples/quadruples -/
def decodeEv (b : Bytes) : Option Ev :=
  match (asciiString b).splitOn " " with
  | ["a", l, t] => do some (.acq (← l.toNat?) (← t.toNat?))
  | ["r", l, t] => do some (.rel (← l.toNat?) (← t.toNat?))
  | ["A", l, t] => do some (.racq (← l.toNat?) (← t.toNat?))
  | ["R", l, t] => do some (.rrel (← l.toNat?) (← t.toNat?))
  | ["x", f, t, w] => do some (.acc (← f.toNat?) (← t.toNat?) (w == "1"))
  | _ => none

def opsLockset (op : String) (a : List Bytes) : Option String :=
  match op with
  | "lockcheck" => (decodeTable a).map fun (sp, rows) =>
      let bad := sp.filter (fun s =>
        let mine := rows.filter (fun r => r.ty == s.1 && r.field == s.2.1)
        mine.isEmpty || !(mine.all (rowOK rows s.2.2)))
      let unk := rows.filter (fun r => r.cls == "unknown")
      (if tableOK sp rows then "ok" else "bad") ++ " " ++ toString bad.length ++ " " ++ toString unk.length
  | "lockrun" => match a with
    | l :: evs => do
      let l ← (asciiString l).toNat?
      let evs ← evs.mapM decodeEv
      match runL l {} evs with
      | some s => some ("ok " ++ toString (s.writer.getD 0) ++ " " ++ toString s.readers.length)
      | none => some "blocked"
    | _ => none
  | _ => none
end Fh.Driver
