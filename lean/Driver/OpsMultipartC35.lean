import FhVerif.Model.MultipartC35
namespace Fh.Driver
open Fh Fh.Model.C35

private def parseMEv (b : Bytes) : Option MEv :=
  match b with
  | 82 :: p :: n => (natOfDec? n).map fun k => .readOk (p == 49) k      -- R<0|1><n>
  | [69] => some .readErr        -- E
  | 71 :: k :: n => (natOfDec? n).map fun m => .readDrainFail m (k == 101)   -- G<e|t><n>
  | [70] => some .eof            -- F
  | [68] => some .dispatch       -- D
  | 80 :: n => (natOfDec? n).map .parse   -- P<n>
  | [81] => some .parseErr       -- Q
  | 89 :: n => (natOfDec? n).map .parseTooLarge   -- Y<n>
  | [88] => some .removeFiles    -- X
  | [66] => some .resetBody      -- B
  | [84] => some .timeout        -- T
  | [72] => some .handlerRet     -- H
  | [87, k] => some (.writeOk (k == 49))  -- W<0|1>
  | [86] => some .writeErr       -- V
  | [76] => some .loopReset      -- L
  | [90] => some .release        -- Z
  | [67] => some .close          -- C
  | _ => none

private def showNats (l : List Nat) : String := ",".intercalate (l.map toString)

private def runMEvs : MSt → List MEv → List String → List String
  | _, [], acc => acc.reverse
  | s, e :: rest, acc =>
    match mstep s e with
    | none => ("stuck" :: acc).reverse
    | some s' => runMEvs s' rest (s!"{showNats s'.files}|{showNats (liveFiles s')}" :: acc)

def opsMultipartC35 (op : String) (a : List Bytes) : Option String :=
  match op with
  | "c35life" => do
    let evs ← a.mapM parseMEv
    some (";".intercalate (runMEvs {} evs []))
  | _ => none

end Fh.Driver
