/-
fhdrv — line-protocol front end to the executable models and specs.
One case per line:  `op SP hexarg SP hexarg ...`  ("-" = empty byte string).
Reply: one line; `bad-op` for an unknown op or malformed arguments.  Core Lean only (no Mathlib).
-/
import FhVerif.Base.Bytes
import Driver.OpsByteClass
import Driver.OpsIntCodec
import Driver.OpsPath
import Driver.OpsFs
import Driver.OpsArgs
import Driver.OpsHeader
import Driver.OpsFsPath
import Driver.OpsFsCache
import Driver.OpsConn
import Driver.OpsLimits
import Driver.OpsDateIP
import Driver.OpsLB
import Driver.OpsPipe
import Driver.OpsCookie
import Driver.OpsDialer
import Driver.OpsWorkerPool
import Driver.OpsRetry
import Driver.OpsURI
import Driver.OpsHeaderSet
import Driver.OpsAdaptor
import Driver.OpsRedirect
import Driver.OpsPrefork
import Driver.OpsStreamC34
import Driver.OpsTlsRoute
import Driver.OpsHostPool
import Driver.OpsPipeline
import Driver.OpsClientConn
import Driver.OpsCompressC22
import Driver.OpsLockset
import Driver.OpsServerCounters
import Driver.OpsMultipartC35

open Fh Fh.Driver

def handlers : List (String → List Bytes → Option String) :=
  [opsByteClass, opsIntCodec, opsPath, opsFs, opsArgs, opsHeader, opsConn, Fh.Driver.C07.opsLimits, opsDateIP, opsFsPath, opsLB, opsPipe, opsCookie, opsDialer, opsWorkerPool, opsFsCache, opsRetry, opsURI, opsHeaderSet, opsAdaptor, opsRedirect, opsPrefork, opsStreamC34, opsTlsRoute, opsHostPool, opsCompressC22, opsLockset, opsServerCounters, opsMultipartC35, opsPipeline, opsClientConn]

def dispatch (line : String) : String :=
  match (line.splitOn " ").filter (· ≠ "") with
  | [] => "bad-op"
  | op :: args =>
    match args.mapM unhex with
    | none => "bad-op"
    | some a =>
      match handlers.findSome? (fun h => h op a) with
      | some r => r
      | none => "bad-op"

partial def loop (hin : IO.FS.Stream) (hout : IO.FS.Stream) : IO Unit := do
  let line ← hin.getLine
  if line.isEmpty then return ()
  let l := line.trimAsciiEnd.toString
  hout.putStrLn (dispatch l)
  hout.flush
  loop hin hout

def main : IO Unit := do
  let hin ← IO.getStdin
  let hout ← IO.getStdout
  loop hin hout
  hout.flush
