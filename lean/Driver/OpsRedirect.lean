import FhVerif.Base.Bytes
import FhVerif.Model.RedirectURL
namespace Fh.Driver
open Fh Fh.Model Fh.Model.Redir

def rdInt? (b : Bytes) : Option Int :=
  match b with
  | 45 :: r => (natOfDec? r).map (fun n => -(n : Int))
  | _ => (natOfDec? b).map (fun n => (n : Int))

def rdBit (b : Bool) : String := if b then "1" else "0"
def rdFlag? (b : Bytes) : Option Bool :=
  match b with
  | [48] => some false
  | [49] => some true
  | _ => none

/-- one scripted hop: does the URL parse, does it carry userinfo, and what c.Do returned -/
structure RdHop where
  parseOk : Bool
  userinfo : Bool
  result : Option Resp     -- none = c.Do error
  judged : Bytes           -- redirectURI.Host() of the redirect this hop's response causes

/-- hops are 6 args each: parseOk userinfo kind(E|R) status locationEmpty judged -/
def rdHops? : List Bytes → Option (List RdHop)
  | [] => some []
  | p :: u :: k :: st :: le :: j :: rest => do
    let p ← rdFlag? p
    let u ← rdFlag? u
    let st ← natOfDec? st
    let le ← rdFlag? le
    let r : Option Resp := if k == [69] then none else some ⟨st, if le then [] else [120]⟩
    let tl ← rdHops? rest
    pure (⟨p, u, r, j⟩ :: tl)
  | _ => none

/-- the scripted engine: URLs are hop indices -/
def rdEngine (hops : Array RdHop) : Engine Nat where
  parseOk i := match hops[i]? with | some h => h.parseOk | none => false
  userinfo i := match hops[i]? with | some h => h.userinfo | none => false
  resolve i _ := (i + 1, match hops[i]? with | some h => h.judged | none => [])

def rdOutcome : Outcome → String
  | .parseErr => "err"
  | .doErr => "err"
  | .done s => s!"done{s}"
  | .tooMany => "tooMany"
  | .missingLocation => "missingLocation"
  | .scriptEnd => "scriptEnd"

def rdAttempt (E : Engine Nat) (a : Attempt Nat) : String :=
  let ui := E.userinfo a.url
  let names := wireNames a.req ui
  let f := wireFraming a.req ui
  hex a.req.method ++ "/" ++ String.join (sensitiveNames.map fun t => rdBit (hasName names t)) ++ "/" ++
    rdBit f.contentLength ++ rdBit f.contentType ++ rdBit f.transferEncoding ++ rdBit f.trailer ++ rdBit f.body

def rdBody? (b : Bytes) : Option Body :=
  match b with
  | [48] => some .none
  | [49] => some .bytes
  | [50] => some .chunkedStream
  | _ => none

def rdTake : Nat → List Bytes → Option (List Bytes × List Bytes)
  | 0, l => some ([], l)
  | n + 1, x :: l => (rdTake n l).map fun p => (x :: p.1, p.2)
  | _ + 1, [] => none

def rdPRes (r : PRes) : String :=
  match r with
  | .ok s => if s.unk then "unmodelled" else s!"ok {hex s.schemeOrHTTP} {hex s.host} {rdBit s.user}"
  | .fail s => if s.unk then "unmodelled" else "fail"

def opsRedirect (op : String) (a : List Bytes) : Option String :=
  match op, a with
  | "redirsplit", [hp] => some (hex (splitHostPort hp).1 ++ " " ++ hex (splitHostPort hp).2 ++ " " ++ hex (hostnameFromHostPort hp))
  | "redirsub", [sub, parent] => some (rdBit (isDomainOrSubdomain sub parent))
  | "redirtrust", [anchor, hp] => some (rdBit (trusted anchor hp))
  | "redirhostname", [url] => some (hex (hostnameFromURLString url))
  | "redirparse", [url] => some (rdPRes (parseURL url))
  | "redirurl", [base, loc] =>
    let s := getRedirect (.raw base) loc
    if s.unk then some "unmodelled"
    else
      let nxt : UrlV := .built s.scheme s.host s.ctl false
      some (s!"J:{hex s.host} S:{hex s.schemeOrHTTP} N:" ++ rdPRes (parseURL nxt.str))
  | "redirloop", maxR :: anchor :: method :: body :: nNames :: rest => do
    let maxR ← rdInt? maxR
    let body ← rdBody? body
    let n ← natOfDec? nNames
    let (names, rest) ← rdTake n rest
    let hops ← rdHops? rest
    let E := rdEngine hops.toArray
    let script := hops.map (·.result)
    let t := runLoop E maxR anchor script 0 ⟨method, names, body, false⟩ 0 none
    -- a failing c.Do wrote nothing (the fake network only fails at dial time): that attempt is not on the wire
    let sent := if t.2 == .doErr then t.1.dropLast else t.1
    pure (";".intercalate (sent.map (rdAttempt E)) ++ "|" ++ rdOutcome t.2)
  | _, _ => none

end Fh.Driver
