import FhVerif.Model.URI
import Driver.OpsArgs
namespace Fh.Driver
open Fh Fh.Model

def uerrName : UErr → String
  | .invalid => "invalid" | .other => "other" | .escape => "escape" | .hostChar => "hostChar"
  | .v6 .host => "v6host" | .v6 .zone => "v6zone" | .v6 .address => "v6address"

def renderURI (u : URI) : String :=
  ",".intercalate [hex u.getScheme, hex u.host, hex u.username, hex u.password, hex u.pathOriginal,
    hex u.getPath, hex u.queryString, hex u.hash, renderList (parseArgs u.queryString)]

def opsURI (op : String) (a : List Bytes) : Option String :=
  match op, a with
  | "uri", [host, uri, flag] =>
    some (match parseURI host uri with
      | .error e => "err " ++ uerrName e
      | .ok u =>
        let args := if flag == [49] then some (parseArgs u.queryString) else none
        "ok " ++ renderURI u ++ " " ++ hex (u.fullURI args) ++ " " ++ hex (u.requestURI args))
  | "urihost", [h] =>
    some (match parseURI [] (ofString "http://" ++ h ++ [47]) with
      | .error _ => "err"
      | .ok u => "ok " ++ hex u.host)
  | "parsehost", [h] =>
    some (match parseHost h with
      | .error e => "err " ++ uerrName e
      | .ok r => "ok " ++ hex r)
  | "unescape", [s, zone] =>
    some (match unescape s (zone == [49]) with
      | .error e => "err " ++ uerrName e
      | .ok r => "ok " ++ hex r)
  | "quotepath", [p] => some (hex (quotePath p) ++ " " ++ hex (decodeNoPlus (quotePath p)))
  | "splithosturi", [host, uri] =>
    let (s, h, u) := splitHostURI host uri
    some (hex s ++ " " ++ hex h ++ " " ++ hex u)
  | _, _ => none
end Fh.Driver
