import FhVerif.Base.Bytes
import FhVerif.Model.Retry
namespace Fh.Driver
open Fh Fh.Model.Retry

def rtInt? (b : Bytes) : Option Int :=
  match b with
  | 45 :: r => (natOfDec? r).map (fun n => -(n : Int))
  | _ => (natOfDec? b).map (fun n => (n : Int))

/-- script letters of the harness → (fault, duration) -/
def rtFault? (c : UInt8) : Option (Fault × Dur) :=
  match Char.ofNat c.toNat with
  | 'O' => some (.ok, .ns 1)
  | 'D' => some (.acquireErr, .ns 1)
  | 'W' => some (.writeErr, .ns 1)
  | 'E' => some (.readEOF, .ns 1)
  | 'P' => some (.readErr, .ns 1)
  | 'B' => some (.readErr, .ns 1)
  | 'L' => some (.tooLarge, .ns 1)
  | 'K' => some (.tooLarge, .ns 1)
  | 'I' => some (.tooLarge, .ns 1)
  | 'H' => some (.readTimeout, .untilDeadline)
  | _ => none

/-- callback table: answer for `attempts = k` is letter k-1; beyond the table: no retry.
    y = retry, n = no retry, R = retry + resetTimeout, r = resetTimeout without retry -/
def rtTable (t : Bytes) (k : Nat) : Bool × Bool :=
  match Char.ofNat (t.getD (k - 1) 110).toNat with
  | 'y' => (false, true)
  | 'R' => (true, true)
  | 'r' => (true, false)
  | _ => (false, false)

def rtErr : ErrClass → String
  | .nil => "nil" | .timeout => "timeout" | .tooLarge => "toolarge" | .closed => "closed"
  | .dial => "dial" | .scheme => "scheme" | .other => "other"

def opsRetry (op : String) (a : List Bytes) : Option String :=
  match op, a with
  | "retry", [idem, maxA, bs, rif, rife, rifu, tmo, script] => do
    let maxA ← rtInt? maxA
    let sc ← script.mapM rtFault?
    let opt (t : Bytes) : Option Bytes := if t == [45] then none else some t   -- "-" (0x2d) = callback not set
    let cfg : Cfg := {
      maxAttempts := maxA, idempotent := idem == [49], hasBodyStream := bs == [49],
      retryIf := (opt rif).map fun t k => (rtTable t k).2,
      retryIfErr := (opt rife).map fun t k => rtTable t k,
      retryIfErrUpstream := (opt rifu).map fun t k => rtTable t k,
      timeout := if tmo == [48] then 0 else 1000 }
    let t := run cfg sc 0
    -- the harness can only observe calls of a configured callback (the default isIdempotent test is not one)
    let anyCb := (opt rif).isSome || (opt rife).isSome || (opt rifu).isSome
    let cb := if anyCb then ",".intercalate (t.cbCalls.map toString) else ""
    pure s!"n={t.attempts.length} tx={t.transmissions} err={rtErr t.err} cb={cb}"
  | "retryconsts", [] => some s!"{Gen.defaultMaxIdemponentCallAttempts}"
  | _, _ => none
end Fh.Driver
