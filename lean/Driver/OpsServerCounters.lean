import FhVerif.Base.Bytes
import FhVerif.Model.ServerCounters
namespace Fh.Driver
open Fh Fh.Model.Srv

/-
`srvseq C M flags tok tok …` (flags: bit 0 KeepHijackedConns, bit 1 tiny MaxIdleWorkerDuration = the cleaner is active) — validates one observed history of the C12 harness against the transition system.

Each token is `<op>|<observation>`:
  op   S            a `Serve` call starts (pool 0)            L        its listener is closed
       Os<ip> Od<ip>  a connection from ip arrives through Serve / ServeConn and sends a request; a trailing `f`
                    marks a connection whose transport `Close()` will report an error (every close event of that
                    connection then carries `err = true`)
       Bs<ip> Bd<ip>  the same with a malformed request
       R<k> Q<k>    handler of connection k released (keep-alive) / next request sent      (no counter changes)
       X<k> C<k>    client closes connection k / handler answers `Connection: close`
       H<k>         handler hijacks          J<k>  hijack handler returns       K<k>  owner closes the kept connection
       I            an idle period (longer than MaxIdleWorkerDuration)
  observation  `<outcome>,<conc>,<GetOpen>,<open>,<ip1>,<ip2>,<ip3>`  outcome: A admitted, 4 = 429, 5 = 503,
               E served-and-closed, - nothing to report

Every op is expanded into the atomic events the code executes (all of them through `step`, so the replay is an event
list of the model).  The only step whose moment the harness cannot observe is `wp.release` of a `Serve` worker
after its connection was closed; such steps stay pending and are fired when an observation needs the free worker
(or at the end).  An observation that no interleaving explains is a mismatch.
-/

def srvSplit (sep : UInt8) (b : Bytes) : List Bytes :=
  let rec go : Bytes → Bytes → List Bytes
    | [], cur => [cur.reverse]
    | x :: xs, cur => if x = sep then cur.reverse :: go xs [] else go xs (x :: cur)
  go b []

def srvStr (b : Bytes) : String := String.ofList (b.map fun x => Char.ofNat x.toNat)

/-- the acts of the accept loop / the head of ServeConn, in program order; at most one is enabled at a time -/
def srvEntryActs (err : Bool) : List Act :=
  [.register, .skipWrap, .ipDecide, .acqAdd, .acqDecide, .openInc, .getCh, .openDec, .rejectClose err, .concInc, .startServing]

def srvLeaveActs (err : Bool) : List Act := [.cleanupOpen, .cleanupConc, .closeConn err, .releaseConc]

def srvFirst (s : State) (i : Nat) : List Act → Option State
  | [] => none
  | a :: as => match step s (.conn i a) with
    | some s' => some s'
    | none => srvFirst s i as

def srvDrive (acts : List Act) : Nat → State → Nat → State
  | 0, s, _ => s
  | fuel + 1, s, i =>
    match srvFirst s i acts with
    | some s' => srvDrive acts fuel s' i
    | none => s

/-- fire the pending `wp.release` steps -/
def srvSettle (s : State) : State :=
  (List.range s.conns.length).foldl (fun acc i => (step acc (.conn i .workerRelease)).getD acc) s

def srvSnap (s : State) : String :=
  s!"{s.conc},{getOpen s},{s.opn},{s.perIP 1},{s.perIP 2},{s.perIP 3}"

def srvOutcome (s : State) (i : Nat) : String :=
  match s.conns[i]? with
  | some c => match c.phase with
    | .serving => "A"
    | .done .r429 => "4"
    | .done .r503 => "5"
    | .releasing => "E"
    | .done .served => "E"
    | _ => "?"
  | none => "?"

/-- expand one op; `none` = the op is not possible in this state -/
def srvApply (s : State) (faults : List Bool) (op : Bytes) : Option (State × String) :=
  match op with
  | [83] => (step s .serveStart).map fun s' => (s', "-")
  | [76] => (step s (.serveStop 0)).map fun s' => (s', "-")
  | kind :: entry :: ipb =>
    if kind = 79 ∨ kind = 66 then do  -- O / B
      let err := ipb.getLast? = some 102
      let ip ← natOfDec? (if err then ipb.dropLast else ipb)
      let i := s.conns.length
      let s1 ← if entry = 115 then step s (.accept 0 ip) else if entry = 100 then step s (.direct ip) else none
      let s2 := srvDrive (srvEntryActs err) 12 s1 i
      let s3 := if kind = 66 then srvDrive (srvLeaveActs err) 6 s2 i else s2
      pure (s3, srvOutcome s3 i)
    else do
      let k ← natOfDec? (entry :: ipb)
      let err := faults.getD k false
      match kind with
      | 82 | 81 => pure (s, "-")                                  -- R / Q
      | 88 | 67 =>                                                  -- X / C
        let c ← s.conns[k]?
        if c.phase = .serving then pure (srvDrive (srvLeaveActs err) 6 s k, "-") else none
      | 72 => do                                                    -- H
        let s1 ← step s (.conn k .hijackStart)
        pure (srvDrive (srvLeaveActs err) 6 s1 k, "-")
      | 74 => do                                                    -- J
        let s1 ← step s (.conn k .hijackReturn)
        if s.cfg.keep then pure (s1, "-") else (step s1 (.conn k (.hijackClose err))).map fun s2 => (s2, "-")
      | 75 => (step s (.conn k (.userClose err))).map fun s1 => (s1, "-")  -- K
      | _ => none
  | _ => none

/-- the fault flag a connect op declares (`none` for the other ops) -/
def srvFault (op : Bytes) : Option Bool :=
  match op with
  | kind :: _ :: ipb => if kind = 79 ∨ kind = 66 then some (ipb.getLast? = some 102) else none
  | _ => none

/-- `clean` retires every idle worker of pool 0 (they are told to stop; `workersCount` still counts them) -/
def srvRetire : Nat → State → State
  | 0, s => s
  | fuel + 1, s => match step s (.cleanIdle 0) with
    | some s' => srvRetire fuel s'
    | none => s

/-- `j` retired workers of pool 0 leave `workerFunc` -/
def srvExit : Nat → State → State
  | 0, s => s
  | j + 1, s => match step s (.workerExit 0) with
    | some s' => srvExit j s'
    | none => s

/-- the states the server may be in, given the last validated one: steps whose moment the harness cannot observe
    (`wp.release` after a close; with a tiny MaxIdleWorkerDuration also the cleaner retiring idle workers and the
    retired workers leaving) may or may not have happened.  Least advanced first. -/
def srvCandidates (s : State) (cleaner : Bool) : List State :=
  let t := srvSettle s
  if cleaner then
    [s, t, srvRetire 8 s, srvRetire 8 t] ++ (List.range 8).map (fun j => srvExit (j + 1) t) ++
      (List.range 8).map (fun j => srvExit (j + 1) (srvRetire 8 t))
  else [s, t]

def srvTry (cands : List State) (faults : List Bool) (op : Bytes) (want : String) : Option State :=
  cands.findSome? fun c =>
    match srvApply c faults op with
    | some (s1, o) => if s!"{o},{srvSnap s1}" = want then some s1 else none
    | none => none

def srvRun : State → Bool → List Bool → List Bytes → Nat → String
  | s, _, _, [], _ =>
    let s := srvSettle s
    let quiet := s.conns.all fun c => (match c.phase with | .done _ => true | _ => false) && c.closed && c.hj != .running
    s!"ok {srvSnap s} quiet={if quiet then 1 else 0} serving={servingAll s} pools={s.pools.length}"
  | s, cleaner, faults, tok :: rest, n =>
    match srvSplit 124 tok with
    | [op, obs] =>
      let want := srvStr obs
      let faults' := match srvFault op with | some f => faults ++ [f] | none => faults
      if op = [73] then  -- I: an idle period; nothing observable changes
        if s!"-,{srvSnap s}" = want then srvRun s cleaner faults' rest (n + 1)
        else s!"mismatch@{n} op=I observed={want} model=-,{srvSnap s}"
      else
      match srvTry (srvCandidates s cleaner) faults op want with
      | some s1 => srvRun s1 cleaner faults' rest (n + 1)
      | none =>
        let show1 := fun (c : State) => match srvApply c faults op with
          | some (s1, o) => s!"{o},{srvSnap s1}"
          | none => "not-enabled"
        s!"mismatch@{n} op={srvStr op} observed={want} model={show1 s} model-after-release={show1 (srvSettle s)}" ++
          (if cleaner then s!" model-after-retire={show1 (srvRetire 8 (srvSettle s))} model-after-exit={show1 (srvExit 8 (srvRetire 8 (srvSettle s)))}" else "")
    | _ => "bad-token"

def opsServerCounters (op : String) (a : List Bytes) : Option String :=
  match op, a with
  | "srvseq", c :: m :: keep :: toks => do
    let c ← natOfDec? c
    let m ← natOfDec? m
    let keep ← natOfDec? keep
    pure (srvRun (State.init ⟨c, m, keep % 2 != 0⟩) (keep / 2 % 2 != 0) [] toks 0)
  | _, _ => none
end Fh.Driver
