import FhVerif.Base.Bytes
import FhVerif.Model.ServerCounters
namespace Fh.Driver
open Fh Fh.Model.Srv

/-
`srvseq C M keep tok tok …` — validates one observed history of the C12 harness against the transition system.

Each token is `<op>|<observation>`:
  op   S            a `Serve` call starts (pool 0)            L        its listener is closed
       Os<ip> Od<ip>  a connection from ip arrives through Serve / ServeConn and sends a request; a trailing `f`
                    marks a connection whose transport `Close()` will report an error (every close event of that
                    connection then carries `err = true`)
       Bs<ip> Bd<ip>  the same with a malformed request
       R<k> Q<k>    handler of connection k released (keep-alive) / next request sent      (no counter changes)
       X<k> C<k>    client closes connection k / handler answers `Connection: close`
       H<k>         handler hijacks          J<k>  hijack handler returns       K<k>  owner closes the kept connection
  observation  `<outcome>,<conc>,<GetOpen>,<open>,<ip1>,<ip2>,<ip3>`  outcome: A admitted, 4 = 429, 5 = 503,
               E served-and-closed, - nothing to report

Every op is expanded into the atomic events the code executes (all of them through `step`, so the replay is an event
list of the model).  The only step whose moment the harness cannot observe is `wp.release` of a `Serve` worker
after its connection was closed; such steps stay pending and are fired when an observation needs the free worker
(or at the end).  An observation that no interleaving explains is a mismatch.
-/

def srvSplit (sep : UInt8) (b : Bytes) : List Bytes :=
  let rec go : Bytes → Bytes → List Bytes
    | [], cur => [cur.reverse]
    | x :: xs, cur => if x = sep then cur.reverse :: go xs [] else go xs (x :: cur)
  go b []

def srvStr (b : Bytes) : String := String.ofList (b.map fun x => Char.ofNat x.toNat)

/-- the acts of the accept loop / the head of ServeConn, in program order; at most one is enabled at a time -/
def srvEntryActs (err : Bool) : List Act :=
  [.register, .skipWrap, .ipDecide, .acqAdd, .acqDecide, .openInc, .getCh, .openDec, .rejectClose err, .concInc, .startServing]

def srvLeaveActs (err : Bool) : List Act := [.cleanupOpen, .cleanupConc, .closeConn err, .releaseConc]

def srvFirst (s : State) (i : Nat) : List Act → Option State
  | [] => none
  | a :: as => match step s (.conn i a) with
    | some s' => some s'
    | none => srvFirst s i as

def srvDrive (acts : List Act) : Nat → State → Nat → State
  | 0, s, _ => s
  | fuel + 1, s, i =>
    match srvFirst s i acts with
    | some s' => srvDrive acts fuel s' i
    | none => s

/-- fire the pending `wp.release` steps -/
def srvSettle (s : State) : State :=
  (List.range s.conns.length).foldl (fun acc i => (step acc (.conn i .workerRelease)).getD acc) s

def srvSnap (s : State) : String :=
  s!"{s.conc},{getOpen s},{s.opn},{s.perIP 1},{s.perIP 2},{s.perIP 3}"

def srvOutcome (s : State) (i : Nat) : String :=
  match s.conns[i]? with
  | some c => match c.phase with
    | .serving => "A"
    | .done .r429 => "4"
    | .done .r503 => "5"
    | .releasing => "E"
    | .done .served => "E"
    | _ => "?"
  | none => "?"

/-- expand one op; `none` = the op is not possible in this state -/
def srvApply (s : State) (faults : List Bool) (op : Bytes) : Option (State × String) :=
  match op with
  | [83] => (step s .serveStart).map fun s' => (s', "-")
  | [76] => (step s (.serveStop 0)).map fun s' => (s', "-")
  | kind :: entry :: ipb =>
    if kind = 79 ∨ kind = 66 then do  -- O / B
      let err := ipb.getLast? = some 102
      let ip ← natOfDec? (if err then ipb.dropLast else ipb)
      let i := s.conns.length
      let s1 ← if entry = 115 then step s (.accept 0 ip) else if entry = 100 then step s (.direct ip) else none
      let s2 := srvDrive (srvEntryActs err) 12 s1 i
      let s3 := if kind = 66 then srvDrive (srvLeaveActs err) 6 s2 i else s2
      pure (s3, srvOutcome s3 i)
    else do
      let k ← natOfDec? (entry :: ipb)
      let err := faults.getD k false
      match kind with
      | 82 | 81 => pure (s, "-")                                  -- R / Q
      | 88 | 67 =>                                                  -- X / C
        let c ← s.conns[k]?
        if c.phase = .serving then pure (srvDrive (srvLeaveActs err) 6 s k, "-") else none
      | 72 => do                                                    -- H
        let s1 ← step s (.conn k .hijackStart)
        pure (srvDrive (srvLeaveActs err) 6 s1 k, "-")
      | 74 => do                                                    -- J
        let s1 ← step s (.conn k .hijackReturn)
        if s.cfg.keep then pure (s1, "-") else (step s1 (.conn k (.hijackClose err))).map fun s2 => (s2, "-")
      | 75 => (step s (.conn k (.userClose err))).map fun s1 => (s1, "-")  -- K
      | _ => none
  | _ => none

/-- the fault flag a connect op declares (`none` for the other ops) -/
def srvFault (op : Bytes) : Option Bool :=
  match op with
  | kind :: _ :: ipb => if kind = 79 ∨ kind = 66 then some (ipb.getLast? = some 102) else none
  | _ => none

def srvRun : State → List Bool → List Bytes → Nat → String
  | s, _, [], _ =>
    let s := srvSettle s
    let quiet := s.conns.all fun c => (match c.phase with | .done _ => true | _ => false) && c.closed && c.hj != .running
    s!"ok {srvSnap s} quiet={if quiet then 1 else 0} serving={servingAll s} pools={s.pools.length}"
  | s, faults, tok :: rest, n =>
    match srvSplit 124 tok with
    | [op, obs] =>
      let want := srvStr obs
      let faults' := match srvFault op with | some f => faults ++ [f] | none => faults
      let try1 := srvApply s faults op
      match try1 with
      | some (s1, o) =>
        if s!"{o},{srvSnap s1}" = want then srvRun s1 faults' rest (n + 1)
        else
          match srvApply (srvSettle s) faults op with
          | some (s2, o2) =>
            if s!"{o2},{srvSnap s2}" = want then srvRun s2 faults' rest (n + 1)
            else s!"mismatch@{n} op={srvStr op} observed={want} model={o},{srvSnap s1} model-after-release={o2},{srvSnap s2}"
          | none => s!"mismatch@{n} op={srvStr op} observed={want} model={o},{srvSnap s1}"
      | none =>
        match srvApply (srvSettle s) faults op with
        | some (s2, o2) =>
          if s!"{o2},{srvSnap s2}" = want then srvRun s2 faults' rest (n + 1)
          else s!"mismatch@{n} op={srvStr op} observed={want} model-after-release={o2},{srvSnap s2}"
        | none => s!"not-enabled@{n} op={srvStr op}"
    | _ => "bad-token"

def opsServerCounters (op : String) (a : List Bytes) : Option String :=
  match op, a with
  | "srvseq", c :: m :: keep :: toks => do
    let c ← natOfDec? c
    let m ← natOfDec? m
    let keep ← natOfDec? keep
    pure (srvRun (State.init ⟨c, m, keep != 0⟩) [] toks 0)
  | _, _ => none
end Fh.Driver
