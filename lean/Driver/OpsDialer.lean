import FhVerif.Base.Bytes
import FhVerif.Model.Dialer
namespace Fh.Driver
open Fh Fh.Model.Dialer

def dlNat? (b : Bytes) : Option Nat := natOfDec? b

def dlRenderRes (r : DialRes) : String :=
  let tried := ",".intercalate (r.tried.map toString)
  let idxOf (u : Bytes) : String := match u with | [x] => toString x.toNat | _ => "?"
  match r.res with
  | none => s!"none | {tried}"
  | some (.conn u) => s!"conn {idxOf u} | {tried}"
  | some (.err e) => s!"{if e.isDialTimeout then "timeout" else "fail"} {idxOf e.upstream} | {tried}"

/-- behaviour letters per address: a = accepts, r = refuses, h = hangs until the deadline -/
def dlEnvOf (beh : Bytes) : Nat → Nat → TryEnv := fun _ a =>
  match beh.getD a 114 with
  | 97 => ⟨false, .immediate, .connected⟩
  | 104 => ⟨false, .immediate, .ctxDeadline⟩
  | _ => ⟨false, .immediate, .failed⟩

def dlAddrs (n : Nat) : List Bytes := (List.range n).map fun i => [UInt8.ofNat i]

def dlPc : Pc → String
  | .start => "S" | .waiting => "W" | .dialing => "D"
  | .done .conn => "c" | .done .timeout => "t" | .done .failed => "f"

def dlEv? (tok : Bytes) : Option Ev :=
  match tok with
  | [115] => some .spawn
  | [120] => some .spawnExpired
  | 116 :: r => (natOfDec? r).map .trySend
  | 97 :: r => (natOfDec? r).map .acquire
  | 102 :: r => (natOfDec? r).map .timerFire
  | 100 :: o :: r =>
    let oc : Option DialOutcome := if o = 99 then some .connected else if o = 116 then some .ctxDeadline else if o = 102 then some .failed else none
    match oc, natOfDec? r with
    | some oc, some a => some (.dialDone a oc)
    | _, _ => none
  | _ => none

/-- replay a trace: every event must be enabled; track the largest number of dials in progress -/
def dlReplay : State → List Bytes → Nat → Nat → String
  | s, [], _, mx => s!"ok sem={s.sem} max={mx} " ++ String.join (s.actors.map dlPc)
  | s, t :: ts, i, mx =>
    match dlEv? t with
    | none => s!"bad-event {i}"
    | some e =>
      match step s e with
      | none => s!"not-enabled {i}"
      | some s' => dlReplay s' ts (i + 1) (max mx s'.inProgress)

def opsDialer (op : String) (a : List Bytes) : Option String :=
  match op, a with
  | "dialrot", [n, idx, beh, sem] => do
    let n ← dlNat? n; let idx ← dlNat? idx
    pure (dlRenderRes (dial (dlAddrs n) (sem == [49]) idx (dlEnvOf beh)))
  | "dialrotold", [n, idx, beh, sem] => do
    let n ← dlNat? n; let idx ← dlNat? idx
    pure (dlRenderRes (dialUnfixed (dlAddrs n) (sem == [49]) idx (dlEnvOf beh)))
  | "trydial", [exp, hasSem, sem, d] => do
    let so : SemOutcome ← match sem with | [105] => some .immediate | [119] => some .afterWait | [116] => some SemOutcome.timerFired | _ => none
    let dc : DialOutcome ← match d with | [99] => some .connected | [116] => some .ctxDeadline | [102] => some DialOutcome.failed | _ => none
    let (r, u) := tryDial [0] (hasSem == [49]) ⟨exp == [49], so, dc⟩
    let rs := match r with | .conn _ => "conn" | .err e => if e.isDialTimeout then "timeout" else "fail"
    pure s!"{rs} {u.sends} {u.recvs}"
  | "dialsem", n :: toks => do
    let n ← dlNat? n
    pure (dlReplay (State.init n) toks 0 0)
  | _, _ => none
end Fh.Driver
