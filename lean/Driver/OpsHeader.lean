import FhVerif.Model.HeaderOps
import FhVerif.Spec.Multimap
import Driver.OpsArgs
namespace Fh.Driver
open Fh Fh.Model

def runHdrModel : Hdr → List Bytes → List String → Option (List String)
  | hd, [], acc => some (("F:" ++ renderList hd.h) :: acc).reverse
  | hd, [op] :: k :: v :: rest, acc =>
    match Char.ofNat op.toNat with
    | 'A' => runHdrModel (hd.add k v) rest acc
    | 'S' => runHdrModel (hd.set k v) rest acc
    | 'D' => runHdrModel (hd.del k) rest acc
    | 'P' => runHdrModel hd rest (("P:" ++ hex (hd.peek k)) :: acc)
    | 'M' => runHdrModel hd rest (("M:" ++ ",".intercalate ((hd.peekAll k).map hex)) :: acc)
    | _ => none
  | _, _, _ => none

def runHdrSpec (dis : Bool) : Spec.MM → List Bytes → List String → Option (List String)
  | m, [], acc => some (("F:" ++ renderMM m) :: acc).reverse
  | m, [op] :: k :: v :: rest, acc =>
    let ck := normalizeHeaderKey k dis
    match Char.ofNat op.toNat with
    | 'A' => runHdrSpec dis (m.add ck (some v)) rest acc
    | 'S' => runHdrSpec dis (m.set ck (some v)) rest acc
    | 'D' => runHdrSpec dis (m.del ck) rest acc
    | 'P' => runHdrSpec dis m rest (("P:" ++ hex ((m.peek ck).getD [])) :: acc)
    | 'M' => runHdrSpec dis m rest (("M:" ++ ",".intercalate ((m.peekMulti ck).map hex)) :: acc)
    | _ => none
  | _, _, _ => none

def opsHeader (op : String) (a : List Bytes) : Option String :=
  match op, a with
  | "hdr", [d] :: rest => (runHdrModel ⟨d != 0, []⟩ rest []).map (";".intercalate ·)
  | "hdrspec", [d] :: rest => (runHdrSpec (d != 0) [] rest []).map (";".intercalate ·)
  | _, _ => none
end Fh.Driver
