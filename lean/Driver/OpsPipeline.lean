/-
Driver ops for C38 (and the pipelined part of C04): macro steps of the gated PipelineClient harness, each composed
from the events of Model/Pipeline.lean; after every op the model is run to quiescence (every goroutine parked).

  pipeline <cfg> <op>*      cfg = [MaxPendingRequests]      op = [code, n]
    N      a new caller runs Do            (callDo, [doPop, (blocked sender slips in), doRetry])
    L      a new caller runs DoDeadline    (callDeadline)
    B      a new caller runs DoDeadline with a request body stream that the harness holds back: once the writer has
           passed its deadline check (writerBegin) it blocks inside `w.req.Write` until   G w   releases the body of
           call w (writerWrite, whatever happened to the deadline meanwhile)
    E w…   virtual time passes the deadlines of the calls w…   (timerFired w, deadlinePassed w, [returnTimeout w])
    P      the server answers the oldest outstanding request on the live connection   (readerOk)
    X      the server closes the connection (the reader fails as soon as it waits for a response);  X 1: and the
           worker's conn.Close() that follows the reader's exit is slow to start — until   R   the writer has not been
           told to stop: it keeps taking, writing and queueing new items (chR is drained only after BOTH have stopped)
    D      the worker's pending dial succeeds (restart)         F   it fails (the worker dials again)
    Y      the reader's ReadTimeout expires (readerFail with ErrTimeout: the connection is dropped, the late response
           can never be handed to a later request)              W   the worker's 1s pause after a timeout error ends
  quiescence: blocked senders enter chW in FIFO order as soon as there is room, the writer takes, expires or writes,
  pushes to chR while there is room, the reader takes the head of chR, answered callers return, a failed reader stops
  the writer, chR is drained, the worker waits for its dial.
  rendering after each op:  w=<len chW>,r=<len chR>,seen=<ids that reached the connection in this step>,ret=<id:class,…>
  classes: ok timeout overflow connerr
-/
import FhVerif.Model.Pipeline
import FhVerif.Base.Bytes
namespace Fh.Driver
open Fh Fh.Model.PL

structure PlD where
  s : State
  dead : Bool                  -- the server closed the live connection
  seen : List Nat
  rets : List (Nat × String)
  held : Bool := false         -- the worker is held inside conn.Close (before it takes effect): stopW is not closed yet
  gated : List Nat := []       -- calls whose request body stream is still held back by the harness
  rdTO : List Nat := []        -- items whose read failed with ErrTimeout (PipelineClient.ReadTimeout): class "timeout"

def plClass : Res → String
  | .ok => "ok" | .timeout => "timeout" | .overflow => "overflow" | .connErr => "connerr" | .stopped => "connerr"

def plStep (d : PlD) (e : Event) : Option PlD :=
  (step d.s e).map fun s' =>
    let d1 := { d with s := s' }
    -- requests that newly reached the connection
    -- (after the server closed the connection, whether a flush still reaches it races with the worker's Close: not rendered)
    if s'.onConn.length > d.s.onConn.length && !d.dead then { d1 with seen := d1.seen ++ s'.onConn.drop d.s.onConn.length } else d1

def plFind (d : PlD) (p : Work → Bool) : Option Nat :=
  (List.range d.s.works.length).find? fun w => match d.s.works[w]? with
    | some x => p x
    | none => false

def plSettleOnce (d : PlD) : Option (Option PlD) :=
  let s := d.s
  -- 1. a blocked DoDeadline sender enters chW
  match (if s.chW.length < s.max then plFind d (fun x => x.pc == .sending) else none) with
  | some w => (plStep d (.sendBlocked w)).map some
  | none =>
  -- 2. an answered caller returns
  match plFind d (fun x => x.pc == .waiting && x.done.isSome) with
  | some w =>
    (plStep d (.returnDone w)).map fun d1 =>
      some (match s.works[w]? with
        | some ⟨_, _, _, some r, _, _⟩ => { d1 with rets := d1.rets ++ [(w, if d.rdTO.contains w then "timeout" else plClass r)] }
        | _ => d1)
  | none =>
  -- 3. a reader waiting on chR gets a pushed item at once (direct hand-off: len(chR) never counts it)
  if s.reader == .idle && !s.chR.isEmpty then (plStep d .readerTake).map some else
  -- 4. writer
  match s.writer with
  | .idle =>
    if !s.chW.isEmpty then (plStep d .writerTake).map some
    else if s.armed then (plStep d .writerFlush).map some
    else if s.stopping && !d.held then (plStep d .writerStop).map some
    else
      -- 4.. reader and worker below
      match s.reader with
      | .idle =>
        if !s.chR.isEmpty then (plStep d .readerTake).map some
        else if s.stopping then (plStep d .readerStop).map some
        else some none
      | .reading _ => if d.dead then (plStep d .readerFail).map some else some none
      | .exited => some none
  | .took w =>
    match s.works[w]? with
    | some x => if x.deadline && x.expired then (plStep d .writerExpire).map some else (plStep d .writerBegin).map some
    | none => none
  | .writing w =>
    -- `w.req.Write(bw)`: a request whose body stream is gated by the harness stays here until the gate opens
    if !d.gated.contains w then (plStep d .writerWrite).map some
    else
      match s.reader with
      | .idle => if !s.chR.isEmpty then (plStep d .readerTake).map some else some none
      | .reading _ => if d.dead then (plStep d .readerFail).map some else some none
      | .exited => some none
  | .push _ =>
    if s.chR.length < s.max then (plStep d .writerPush).map some
    else if s.armed then (plStep d .writerFlush).map some
    else
      match s.reader with
      | .idle => if !s.chR.isEmpty then (plStep d .readerTake).map some else some none
      | .reading _ => if d.dead then (plStep d .readerFail).map some else some none
      | .exited => if s.stopping && !d.held then (plStep d .writerStop).map some else some none
  | .exited =>
    match s.reader with
    | .idle =>
      if !s.chR.isEmpty then (plStep d .readerTake).map some
      else if s.stopping then (plStep d .readerStop).map some else some none
    | .reading _ => (plStep d .readerFail).map some        -- the worker closed the connection
    | .exited => if !s.chR.isEmpty then (plStep d .drainOne).map some else some none

def plSettle : Nat → PlD → Option PlD
  | 0, d => some d
  | fuel + 1, d =>
    match plSettleOnce d with
    | none => none
    | some none => some d
    | some (some d1) => plSettle fuel d1

def plExpire (d : PlD) (n : Nat) : Option PlD :=
  (plStep d (.timerFired n)).bind fun d1 => (plStep d1 (.deadlinePassed n)).map fun d2 =>
    match plStep d2 (.returnTimeout n) with
    | some d3 => { d3 with rets := d3.rets ++ [(n, "timeout")] }
    | none => d2

def plOp (d : PlD) (code : Char) (ns : List Nat) : Option PlD :=
  match code with
  | 'L' => plStep d .callDeadline
  | 'B' => (plStep d .callDeadline).map fun d1 => { d1 with gated := d1.gated ++ [d.s.works.length] }
  | 'G' => some { d with gated := d.gated.filter (fun w => !ns.contains w) }
  | 'N' =>
    let w := d.s.works.length
    (plStep d .callDo).bind fun d1 =>
      match d1.s.works[w]? with
      | some x =>
        if x.pc == .doPop then
          (plStep d1 (.doPop w)).bind fun d2 =>
            -- a sender blocked on the full channel gets the freed slot at once (Go channel semantics)
            let d3 := match (if d2.s.chW.length < d2.s.max then plFind d2 (fun x => x.pc == .sending) else none) with
              | some b => (plStep d2 (.sendBlocked b)).getD d2
              | none => d2
            (plStep d3 (.doRetry w)).map fun d4 =>
              match d4.s.works[w]? with
              | some y => if y.pc == .returned .overflow then { d4 with rets := d4.rets ++ [(w, "overflow")] } else d4
              | none => d4
        else some d1
      | none => none
  | 'E' => ns.foldlM plExpire d
  | 'P' => plStep d .readerOk
  | 'X' => some { d with dead := true, held := ns == [1] }
  | 'R' => some { d with held := false }
  | 'D' => (plStep d .restart).map fun d1 => { d1 with dead := false }
  | 'F' => some d
  | 'Y' =>
    -- the reader's ReadTimeout expires before the first byte of the response: `w.resp.Read` fails with ErrTimeout,
    -- the reader returns, the worker drops the connection (readerFail) and pauses 1s before it dials again
    match d.s.reader with
    | .reading w => (plStep d .readerFail).map fun d1 => { d1 with rdTO := d1.rdTO ++ [w], dead := true }
    | _ => none
  | 'W' => some d
  | _ => none

def plRender (d : PlD) : String :=
  let rets := d.rets.mergeSort (fun x y => x.1 ≤ y.1)
  "w=" ++ toString d.s.chW.length ++ ",r=" ++ toString d.s.chR.length ++
  ",seen=" ++ ".".intercalate (d.seen.map toString) ++
  ",ret=" ++ ",".intercalate (rets.map fun r => toString r.1 ++ ":" ++ r.2)

def plRun : PlD → List Bytes → List String → Option (List String)
  | _, [], acc => some acc.reverse
  | d, (code :: ns) :: rest, acc =>
    match (plOp { d with rets := [], seen := [] } (Char.ofNat code.toNat) (ns.map (·.toNat))).bind (plSettle 400) with
    | some d1 => plRun d1 rest (plRender d1 :: acc)
    | none => some (acc.reverse ++ ["disabled"])
  | _, _, _ => none

def opsPipeline (op : String) (a : List Bytes) : Option String :=
  match op with
  | "pipeline" =>
    match a with
    | [m] :: ops =>
      -- no connection yet: the worker is about to dial (reachable from init by writerIdleExit, readerStop)
      (run (init m.toNat) [.writerIdleExit, .readerStop]).bind fun s0 =>
        (plRun { s := s0, dead := false, seen := [], rets := [] } ops []).map (";".intercalate ·)
    | _ => none
  | _ => none

end Fh.Driver
