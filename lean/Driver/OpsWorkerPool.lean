/-
Driver ops for C13: macro steps of the gated harness, each composed from the fine-grained events of
Model/WorkerPool.lean (so every macro run IS an event list of the model and the theorems of Props/C13 apply).

  wpool <max> (<op> <a> <b>)*        ops (3 args each; numbers in decimal):
    G - -      getCh for a new connection             (event getCh)
    P k -      send the reserved connection k and let the worker take it   (send w, recv w)
    V - -      Serve = getCh + send (+ recv)
    D k ht     WorkerFunc(k) returns (h = ht / 1000 ∈ {0,1} hijacked, t = ht % 1000 = lastUseTime), release,
               exit if the pool is stopped             (finish w h, release w t, [exit w])
    C crit -   clean with critical time crit, notify and let the retired workers exit (clean, notify/recv/exit*)
    X - -      Stop and let the notified workers exit  (stop, recv/exit*)
  after the last op: send every reserved connection, finish every running one (closed), Stop, drain — the
  final line renders the fate of every connection.
-/
import FhVerif.Model.WorkerPool
import FhVerif.Base.Bytes
namespace Fh.Driver
open Fh Fh.Model.WP

def wpRenderState (s : State) : String :=
  "wc=" ++ toString s.workersCount ++ ",rd=" ++ "|".intercalate (s.ready.map fun e => toString e.1 ++ ":" ++ toString e.2) ++
  ",st=" ++ (if s.mustStop then "1" else "0")

/-- run a list of events; `none` if one of them is not enabled -/
def wpRunAll (s : State) (evs : List Event) : Option State := run s evs

/-- let every worker that has a nil in its channel take it and exit (ids below nextWid, increasing) -/
def wpSettleNil (s : State) : Option State :=
  (List.range s.nextWid).foldlM (fun st w =>
    if (st.workers w).phase = .waiting ∧ (st.workers w).chan = [none] then run st [.recv w, .exit w] else some st) s

def wpFindReserved (s : State) (k : Nat) : Option Nat :=
  (List.range s.nextWid).find? (fun w => (s.workers w).reserved == some k)

def wpFindServing (s : State) (k : Nat) : Option Nat :=
  (List.range s.nextWid).find? (fun w => (s.workers w).phase == .serving k)

def wpSend (s : State) (k : Nat) : Option (State × String) :=
  match wpFindReserved s k with
  | some w => (run s [.send w, .recv w]).map (·, "P:ok")
  | none => some (s, "P:skip")

def wpDone (s : State) (k : Nat) (h : Bool) (t : Nat) : Option (State × String) :=
  match wpFindServing s k with
  | some w =>
    (run s [.finish w h, .release w t]).bind fun s1 =>
      if (s1.workers w).phase = .exiting then (run s1 [.exit w]).map (·, "D:exit") else some (s1, "D:ready")
  | none => some (s, "D:skip")

def wpClean (s : State) (crit : Nat) : Option (State × String) :=
  (step s (.clean crit)).bind fun s1 =>
    let n := s1.pending.length
    (s1.pending.foldlM (fun st w => run st [.notify w, .recv w, .exit w]) s1).map (·, "C:" ++ toString n)

def wpStop (s : State) : Option (State × String) :=
  (step s .stop).bind fun s1 => (wpSettleNil s1).map (·, "X")

def wpGet (s : State) : Option (State × String) :=
  let c := s.nconns
  (step s .getCh).map fun s1 =>
    match s1.loc c with
    | .at w => (s1, "G:" ++ toString w)
    | _ => (s1, "G:nil")

def wpServe (s : State) : Option (State × String) :=
  let c := s.nconns
  (step s .getCh).bind fun s1 =>
    match s1.loc c with
    | .at w => (run s1 [.send w, .recv w]).map (·, "V:true")
    | _ => some (s1, "V:false")

def wpFate (s : State) (c : Nat) : String :=
  match s.loc c with
  | .rejected => toString c ++ ":rej"
  | .fresh => toString c ++ ":fresh"
  | _ =>
    toString c ++ ":s" ++ toString (s.recvBy c).length ++ "x" ++
      String.join ((s.outcomes c).map fun h => if h then "H" else "C")

/-- the end of every sequence: flush, finish, Stop, drain -/
def wpFinal (s : State) : Option String := do
  let s1 ← (List.range s.nconns).foldlM (fun st k => (wpSend st k).map (·.1)) s
  let s2 ← (List.range s1.nconns).foldlM (fun st k => (wpDone st k false 0).map (·.1)) s1
  let (s3, _) ← wpStop s2
  let s4 ← run s3 (drainEvents (work s3) s3)
  pure ("F:" ++ ",".intercalate ((List.range s4.nconns).map (wpFate s4)) ++ ";wc=" ++ toString s4.workersCount ++
        ",rd=" ++ toString s4.ready.length)

def wpRunOps : State → List Bytes → List String → Option (List String)
  | s, [], acc => (wpFinal s).map fun f => (f :: acc).reverse
  | s, [op] :: a :: b :: rest, acc =>
    let na := (natOfDec? a).getD 0
    let nb := (natOfDec? b).getD 0
    let r : Option (State × String) :=
      match Char.ofNat op.toNat with
      | 'G' => wpGet s
      | 'P' => wpSend s na
      | 'V' => wpServe s
      | 'D' => wpDone s na (nb / 1000 == 1) (nb % 1000)
      | 'C' => wpClean s na
      | 'X' => wpStop s
      | _ => none
    match r with
    | some (s1, o) => wpRunOps s1 rest ((o ++ " " ++ wpRenderState s1) :: acc)
    | none => some (("model-stuck at " ++ String.singleton (Char.ofNat op.toNat)) :: acc).reverse
  | _, _, _ => none

def opsWorkerPool (op : String) (a : List Bytes) : Option String :=
  match op, a with
  | "wpool", m :: rest => (natOfDec? m).bind fun mx => (wpRunOps (init mx) rest []).map (";".intercalate ·)
  | "wpclean", crit :: times =>
    -- the binary search alone: times in decimal
    (natOfDec? crit).map fun c =>
      let ts := times.map fun t => (natOfDec? t).getD 0
      toString (cleanCount (ts.map fun t => (0, t)) c)
  | _, _ => none
end Fh.Driver
