import FhVerif.Model.CompressC22
import FhVerif.Model.StacklessC22
namespace Fh.Driver
open Fh Fh.Model.C22

/-- the driver's stand-in codec: the model's DECISIONS do not depend on the codec (the codec is a parameter of the
    theorems); bytes produced by real codecs are never compared with this -/
private def drvCodecs : Codecs where
  enc := fun _ _ x => 1 :: x
  encStream := fun _ _ xs => 1 :: xs.flatten
  dec := fun _ y => match y with | 1 :: x => some x | _ => none
  roundtrip := by intros; rfl
  roundtripStream := by intros; rfl

private def intOfDec? (b : Bytes) : Option Int :=
  match b with
  | 45 :: r => (natOfDec? r).map fun n => -(n : Int)
  | _ => (natOfDec? b).map fun n => (n : Int)

private def zeros (n : Nat) : Bytes := List.replicate n 0

private structure SimSt where
  q : QSt := {}
  next : Nat := 0
  rejected : Nat := 0
  retTrue : Nat := 0
  stuck : Bool := false

private def simStep (w cap : Nat) (s : SimSt) (e : QEv) : SimSt :=
  match qstep false cap w s.q e with
  | some q' => { s with q := q' }
  | none => { s with stuck := true }

private def simSubmit (w cap : Nat) : Nat → SimSt → SimSt
  | 0, s => s
  | n + 1, s =>
    let id := s.next
    let s := { s with next := id + 1 }
    if s.q.running.length < w ∧ s.q.queue.isEmpty then
      simSubmit w cap n (simStep w cap (simStep w cap s (.submit id)) (.take id))
    else if s.q.queue.length < cap then
      simSubmit w cap n (simStep w cap s (.submit id))
    else
      simSubmit w cap n { simStep w cap s (.full id) with rejected := s.rejected + 1 }

private def simRelease (w cap : Nat) : Nat → SimSt → SimSt
  | 0, s => s
  | n + 1, s =>
    match s.q.running.getLast? with
    | none => s
    | some id =>
      let s := simStep w cap (simStep w cap s (.done id)) (.ret id)
      let s := { s with retTrue := s.retTrue + 1 }
      let s := match s.q.queue with
        | h :: _ => simStep w cap s (.take h)
        | [] => s
      simRelease w cap n s

private def simPhases (w cap : Nat) : SimSt → List Bytes → List String → Option (List String)
  | _, [], acc => some acc.reverse
  | s, ph :: rest, acc =>
    match ph with
    | k :: num =>
      match natOfDec? num with
      | none => none
      | some n =>
        let s' := if k == 115 then simSubmit w cap n s else if k == 114 then simRelease w cap n s else s
        if s'.stuck then some (("stuck" :: acc).reverse)
        else simPhases w cap s' rest (s!"{s'.q.running.length} {s'.rejected} {s'.retTrue}" :: acc)
    | [] => simPhases w cap s rest acc

def opsCompressC22 (op : String) (a : List Bytes) : Option String :=
  match op, a with
  | "c22hasae", [ae, name] => some (toString (hasAcceptEncoding ae name))
  | "c22normlevel", [kind, lvl] => do
    let l ← intOfDec? lvl
    if kind == ofString "br" then some (toString (normalizeBrotliCompressLevel l))
    else if kind == ofString "zstd" then some (toString (normalizeZstdCompressLevel l))
    else some (toString (normalizeCompressLevel l))
  | "c22handler", which :: lvl :: bl :: ae :: ct :: ce :: vary :: mode :: nested :: lens => do
    let l ← intOfDec? lvl
    let b ← intOfDec? bl
    let ns ← lens.mapM natOfDec?
    let parts := ns.map zeros
    let total := parts.flatten.length
    let ct := if ct.isEmpty then Gen.defaultContentType else ct
    let h : Resp :=
      if mode == [98] then ⟨ce, ct, vary, 0, .buf parts.flatten⟩
      else if mode == [114] then ⟨ce, ct, vary, 0, .raw parts.flatten⟩
      else if mode == [102] then ⟨ce, ct, vary, total, .stream parts⟩
      else ⟨ce, ct, vary, -1, .stream parts⟩
    let f := fun r => if which == [66] then compressHandlerBrotliLevel drvCodecs b l ae r else compressHandlerLevel drvCodecs l ae r
    let out := if nested == [49] then f (f h) else f h
    let chunked := match out.body with | .stream _ => decide (out.clen < 0) | _ => false
    some s!"{hex out.ce}|{hex out.vary}|{decide (out.ce ≠ h.ce)}|{chunked}"
  | "c22qsim", w :: cap :: phases => do
    let w ← natOfDec? w
    let cap ← natOfDec? cap
    (simPhases w cap {} phases []).map (";".intercalate ·)
  | _, _ => none

end Fh.Driver
