import FhVerif.Model.Pipe
namespace Fh.Driver
open Fh Fh.Model

/-! ### op "pipe": cap, then triples (opcode, end, arg)

  K end -     io.Copy(sink, conn) at `end` / B end - bufio.Reader over the conn + WriteTo: read events until one returns an error
  F end n     io.ReadFull(conn, buf[:n]): read events until n bytes or an error
  S end x     like W, through WriteString (io.StringWriter): the same model event
  W end x     Write at end `end` ('1'|'2') of the payload `pipePayload (x % 256) (x / 256)` (x decimal)
  R end n     Read(p) with len(p) = n (decimal)
  C end -     Close (end ignored: Conn1().Close() = Conn2().Close() = pc.Close())

Reply: observations joined by ';' and a final `F:` item with the byte counters (ghost fields, which the Go side
recomputes from its own bookkeeping). -/

/-- deterministic payload: position dependent so that loss, duplication or reordering changes the stream -/
def pipePayload (seed size : Nat) : Bytes :=
  (List.range size).map fun i => UInt8.ofNat (seed + i + (i / 256) * 3)

def endOf? (b : Bytes) : Option Pipe.End :=
  match b with
  | [49] => some .e1
  | [50] => some .e2
  | _ => none

def renderWRes : Pipe.WRes → String
  | .ok n => "W:ok" ++ toString n
  | .closed => "W:closed"
  | .block => "W:block"

def renderRErr : Pipe.RErr → String
  | .nil => "nil"
  | .eof => "eof"
  | .block => "block"

def renderObs : Pipe.Obs → String
  | .w r => renderWRes r
  | .r r => "R:" ++ hex r.data ++ ":" ++ renderRErr r.err
  | .c => "C"

def pipeFinal (s : Pipe.Duplex) : String :=
  "F:w1=" ++ toString s.d12.written.length ++ ",r2=" ++ toString s.d12.readAcc.length ++
  ",w2=" ++ toString s.d21.written.length ++ ",r1=" ++ toString s.d21.readAcc.length

/-- read events of size `n` at end `e` until one returns an error or `want` bytes are collected (`want = none`:
    until an error).  Every step is an ordinary `read` event of the model; fuel bounds the number of events. -/
def readUntil (cap : Nat) (e : Pipe.End) (n : Nat) (want : Option Nat) : Nat → Pipe.Duplex → Bytes → Bytes × Pipe.RErr × Pipe.Duplex
  | 0, s, acc => (acc, .nil, s)
  | fuel + 1, s, acc =>
    let size := match want with
      | some w => min n (w - acc.length)
      | none => n
    if size = 0 then (acc, .nil, s)
    else
      match Pipe.step cap s (.read e size) with
      | (.r r, s') =>
        let acc' := acc ++ r.data
        if r.err != .nil then (acc', r.err, s')
        else readUntil cap e n want fuel s' acc'
      | (_, s') => (acc, .nil, s')

def pipeFuel (s : Pipe.Duplex) (e : Pipe.End) : Nat := (s.rdir e).measure + 3

def runPipe (cap : Nat) : Pipe.Duplex → List Bytes → List String → Option (List String)
  | s, [], acc => some (pipeFinal s :: acc).reverse
  | s, [op] :: e :: x :: rest, acc =>
    if op == 75 || op == 66 then     -- 'K' io.Copy(dst, conn) / 'B' bufio.Reader + WriteTo: reads until error
      match endOf? e with
      | none => none
      | some en =>
        let r := readUntil cap en 32768 none (pipeFuel s en) s []
        runPipe cap r.2.2 rest (("K:" ++ hex r.1 ++ ":" ++ renderRErr r.2.1) :: acc)
    else if op == 70 then            -- 'F' io.ReadFull(conn, buf[:n])
      match endOf? e, natOfDec? x with
      | some en, some n =>
        let r := readUntil cap en n (some n) (pipeFuel s en + n) s []
        runPipe cap r.2.2 rest (("F:" ++ hex r.1 ++ ":" ++ renderRErr r.2.1) :: acc)
      | _, _ => none
    else
    let ev? : Option Pipe.Ev :=
      match Char.ofNat op.toNat with
      | 'W' => do
        let e ← endOf? e
        let x ← natOfDec? x
        pure (.write e (pipePayload (x % 256) (x / 256)))
      | 'S' => do   -- WriteString / io.WriteString: the other exported entry point, the SAME write event
        let e ← endOf? e
        let x ← natOfDec? x
        pure (.write e (pipePayload (x % 256) (x / 256)))
      | 'R' => do
        let e ← endOf? e
        let n ← natOfDec? x
        pure (.read e n)
      | 'C' => some .close
      | _ => none
    match ev? with
    | none => none
    | some ev =>
      let r := Pipe.step cap s ev
      runPipe cap r.2 rest (renderObs r.1 :: acc)
  | _, _, _ => none

/-! ### op "listener": cap, then triples (opcode, -, -) — macro steps composed of the fine-grained events

  D   a new Dial (ids 0,1,2… in order): dialLock, then dialEnqueue.   `D:fail` | `D:queued` | `D:blocked` (queue full)
  A   a new Accept: acceptBegin, acceptTake, acceptCommit, then dialEnd of the dial it took.
      `A:fail` | `A:<d>` (returned the peer of dial d, and dial d returned success) | `A:block` (open, nothing queued)
  C   Close: close (`C:ok` | `C:err` for a repeated Close), closeDrain until the queue is empty, dialAbort of every
      pending dial; the reply lists the dials that failed by it: `C:ok:1,2`
Final item: `F:` + status of every dial and accept. -/

structure LSt where
  s : Lsn.State
  nd : Nat
  na : Nat

def renderD : Lsn.DStatus → String
  | .fresh => "fresh" | .checked => "checked" | .queued => "queued" | .success => "success" | .failed => "failed"

def renderA : Lsn.AStatus → String
  | .fresh => "fresh" | .started => "started" | .took d => "took" ++ toString d
  | .returned d => "ret" ++ toString d | .failed => "failed"

def lsnFinal (l : LSt) : String :=
  "F:" ++ ",".intercalate ((List.range l.nd).map fun d => "d" ++ toString d ++ "=" ++ renderD (l.s.dial d)) ++ "|" ++
    ",".intercalate ((List.range l.na).map fun a => "a" ++ toString a ++ "=" ++ renderA (l.s.acc a))

/-- apply an event that must be enabled -/
def lstep (cap : Nat) (s : Lsn.State) (e : Lsn.Event) : Lsn.State := (Lsn.step cap s e).getD s

def drainAll (cap : Nat) : Nat → Lsn.State → Lsn.State
  | 0, s => s
  | f + 1, s => match Lsn.step cap s .closeDrain with
    | some s' => drainAll cap f s'
    | none => s

def abortAll (cap : Nat) (s : Lsn.State) (nd : Nat) : Lsn.State × List Nat :=
  (List.range nd).foldl (fun (acc : Lsn.State × List Nat) d =>
    match Lsn.step cap acc.1 (.dialAbort d) with
    | some s' => (s', acc.2 ++ [d])
    | none => acc) (s, [])

/-- every observation ends with the queue length (len(ln.conns)) after the macro step -/
def q (s : Lsn.State) : String := ":q" ++ toString s.queue.length

def runLsn (cap : Nat) : LSt → List Bytes → List String → Option (List String)
  | l, [], acc => some (lsnFinal l :: acc).reverse
  | l, [op] :: _ :: _ :: rest, acc =>
    match Char.ofNat op.toNat with
    | 'D' =>
      let d := l.nd
      let s1 := lstep cap l.s (.dialLock d)
      if s1.dial d = .failed then runLsn cap { l with s := s1, nd := d + 1 } rest (("D:fail" ++ q s1) :: acc)
      else match Lsn.step cap s1 (.dialEnqueue d) with
        | some s2 => runLsn cap { l with s := s2, nd := d + 1 } rest (("D:queued" ++ q s2) :: acc)
        | none => runLsn cap { l with s := s1, nd := d + 1 } rest (("D:blocked" ++ q s1) :: acc)
    | 'A' =>
      let a := l.na
      let s1 := lstep cap l.s (.acceptBegin a)
      if s1.acc a = .failed then runLsn cap { l with s := s1, na := a + 1 } rest (("A:fail" ++ q s1) :: acc)
      else match Lsn.step cap s1 (.acceptTake a) with
        | none => runLsn cap { l with s := s1, na := a + 1 } rest (("A:block" ++ q s1) :: acc)
        | some s2 =>
          match s2.acc a with
          | .took d =>
            let s3 := lstep cap s2 (.acceptCommit a)
            let s4 := lstep cap s3 (.dialEnd d)
            runLsn cap { l with s := s4, na := a + 1 } rest (("A:" ++ toString d ++ q s4) :: acc)
          | _ => runLsn cap { l with s := s2, na := a + 1 } rest (("A:fail" ++ q s2) :: acc)
    | 'C' =>
      let first := !l.s.closed
      let s1 := lstep cap l.s .close
      let s2 := if first then drainAll cap (s1.queue.length + 1) s1 else s1   -- a repeated Close returns an error at once
      let r := abortAll cap s2 l.nd
      let txt := (if first then "C:ok:" else "C:err:") ++ ",".intercalate (r.2.map toString) ++ q r.1
      runLsn cap { l with s := r.1 } rest (txt :: acc)
    | _ => none
  | _, _, _ => none

def opsPipe (op : String) (a : List Bytes) : Option String :=
  match op with
  | "pipe" => match a with
    | c :: rest => do
      let cap ← natOfDec? c
      (runPipe cap Pipe.Duplex.init rest []).map (";".intercalate ·)
    | _ => none
  | "listener" => match a with
    | c :: rest => do
      let cap ← natOfDec? c
      (runLsn cap ⟨Lsn.init, 0, 0⟩ rest []).map (";".intercalate ·)
    | _ => none
  | "pipepayload" => match a with
    | [x] => do
      let x ← natOfDec? x
      pure (hex (pipePayload (x % 256) (x / 256)))
    | _ => none
  | _ => none
end Fh.Driver
