import FhVerif.Model.Limits
namespace Fh.Driver.C07
open Fh Fh.Model

def render : LimRes → String
  | .ok n => s!"ok {n}"
  | .tooLarge n => s!"toolarge {n}"

def nats (bs : List Bytes) : Option (List Nat) := bs.mapM natOfDec?

def opsLimits (op : String) (a : List Bytes) : Option String :=
  match op, a with
  | "limfixed", [l, cl] => do some (render (limFixed (← natOfDec? l) (← natOfDec? cl)))
  | "limchunked", l :: cs => do some (render (limChunked (← natOfDec? l) 0 (← nats cs)))
  | "limcopy", [l, t] => do some (render (limCopy (← natOfDec? l) (← natOfDec? t)))
  | "headfit", [b, h] => do
    match headFitResponse (headFit (← natOfDec? b) (← natOfDec? h)) with
    | none => some "fits"
    | some (st, cl) => some s!"{st} {cl}"
  | _, _ => none
end Fh.Driver.C07
