import FhVerif.Model.HeaderSet
import FhVerif.Spec.HeadLines
import Driver.OpsCookie
namespace Fh.Driver
open Fh Fh.Model

def c05ReqOps : C05Req → List Bytes → Option C05Req
  | s, [] => some s
  | s, [op] :: rest =>
    match Char.ofNat op.toNat, rest with
    | 'S', k :: v :: r => c05ReqOps (s.apply (.set k v)) r
    | 'A', k :: v :: r => c05ReqOps (s.apply (.add k v)) r
    | 'M', b :: r => c05ReqOps (s.apply (.method b)) r
    | 'U', b :: r => c05ReqOps (s.apply (.requestURI b)) r
    | 'H', b :: r => c05ReqOps (s.apply (.host b)) r
    | 'G', b :: r => c05ReqOps (s.apply (.userAgent b)) r
    | 'T', b :: r => c05ReqOps (s.apply (.contentType b)) r
    | 'P', b :: r => c05ReqOps (s.apply (.protocol b)) r
    | 'R', b :: r => c05ReqOps (s.apply (.referer b)) r
    | 'E', b :: r => c05ReqOps (s.apply (.contentEncoding b)) r
    | 'B', b :: r => c05ReqOps (s.apply (.boundary b)) r
    | 'C', k :: v :: r => c05ReqOps (s.apply (.cookie k v)) r
    | 't', b :: r => c05ReqOps (s.apply (.addTrailer b)) r
    | 'r', b :: r => c05ReqOps (s.apply (.setTrailer b)) r
    | 'L', n :: r => (intOfBytes? n).bind fun n => c05ReqOps (s.apply (.contentLength n)) r
    | 'X', _ :: r => c05ReqOps (s.apply .connClose) r
    | _, _ => none
  | _, _ => none

def c05RespOps : C05Resp → List Bytes → Option C05Resp
  | s, [] => some s
  | s, [op] :: rest =>
    match Char.ofNat op.toNat, rest with
    | 'S', k :: v :: r => c05RespOps (s.apply (.set k v)) r
    | 'A', k :: v :: r => c05RespOps (s.apply (.add k v)) r
    | 'c', n :: t :: r => (intOfBytes? n).bind fun n => c05RespOps (s.apply (.status n t)) r
    | 'm', b :: r => c05RespOps (s.apply (.statusMessage b)) r
    | 'P', b :: r => c05RespOps (s.apply (.protocol b)) r
    | 'T', b :: r => c05RespOps (s.apply (.contentType b)) r
    | 'E', b :: r => c05RespOps (s.apply (.contentEncoding b)) r
    | 'V', b :: r => c05RespOps (s.apply (.server b)) r
    | 'C', k :: v :: d :: p :: r => c05RespOps (s.apply (.cookie k v d p)) r
    | 't', b :: r => c05RespOps (s.apply (.addTrailer b)) r
    | 'r', b :: r => c05RespOps (s.apply (.setTrailer b)) r
    | 'L', n :: r => (intOfBytes? n).bind fun n => c05RespOps (s.apply (.contentLength n)) r
    | 'X', _ :: r => c05RespOps (s.apply .connClose) r
    | _, _ => none
  | _, _ => none

def renderHead (h : Option Spec.Head) : String :=
  match h with
  | none => "reject"
  | some h => hex h.first ++ " | " ++ ",".intercalate (h.fields.map fun kv => hex kv.1 ++ "=" ++ hex kv.2) ++ " | " ++ hex h.rest

def opsHeaderSet (op : String) (a : List Bytes) : Option String :=
  match op, a with
  | "c05req", [fl] :: ops =>
    (c05ReqOps { disableNormalizing := fl &&& 1 != 0, noDefaultContentType := fl &&& 2 != 0 } ops).map fun s => hex s.appendBytes
  | "c05resp", [fl] :: date :: text :: ops =>
    (c05RespOps { disableNormalizing := fl &&& 1 != 0, noDefaultContentType := fl &&& 2 != 0,
                  date := if fl &&& 4 != 0 then none else some date, statusText := text } ops).map fun s => hex s.appendBytes
  | "c05parse", [b] => some (renderHead (Spec.parseHead b))
  | "c05connect", [addr, auth] => some (match c05Connect addr auth with | some w => hex w | none => "rejected")
  | "c05rmnl", [b] => some (hex (removeNewLines b))
  | "c05badtrailer", [b] => some (toString (c05IsBadTrailer b))
  | _, _ => none
end Fh.Driver
