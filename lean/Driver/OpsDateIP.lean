import FhVerif.Model.HttpDate
import FhVerif.Model.IPAddr
import FhVerif.Spec.HttpDate
import FhVerif.Spec.IPAddr
namespace Fh.Driver
open Fh Fh.Model

def renderOptInt : Option Int → String
  | none => "none"
  | some t => "ok " ++ toString t

def renderNats (l : List Nat) : String := ".".intercalate (l.map toString)

def ipErrName : IPErr → String
  | .emptyStr => "emptyStr" | .noDot => "noDot" | .emptyPart => "empty" | .firstChar => "firstChar"
  | .trailing => "trailing" | .tooLarge => "tooLarge"

def civilOfArgs (a : List Bytes) : Option Civil :=
  match a.mapM natOfDec? with
  | some [y, m, d, h, mi, s] => some ⟨y, m, d, h, mi, s⟩
  | _ => none

def opsDateIP (op : String) (a : List Bytes) : Option String :=
  match op, a with
  | "fastdate", [b] => some (renderOptInt (parseRFC1123DateGMT b))
  | "datespec", [b] => some (renderOptInt (Spec.httpDateSpec b))
  | "appenddate", _ => (civilOfArgs a).map fun c =>
      hex (appendHTTPDate c) ++ " " ++ toString (civilUnix c) ++ " " ++ toString c.valid
  | "dateunixspec", _ => (civilOfArgs a).map fun c => toString (Spec.unixSecond c.year c.month c.day c.hour c.min c.sec)
  | "ipv4", [b] => some (match parseIPv4 b with
      | .ok l => "ok " ++ renderNats l
      | .error e => "err " ++ ipErrName e)
  | "ipv4spec", [b] => some (match Spec.dottedQuadSpec b with
      | some l => "ok " ++ renderNats l
      | none => "err")
  | "ipv4octet", [b] =>
      let r := parseIPv4Octet b
      some (toString r.octet ++ " " ++ toString r.parsed ++ " " ++ (match r.err with | none => "nil" | some e => ipErrName e))
  | "appendipv4", _ => (a.mapM natOfDec?).map fun l => hex (appendIPv4 l)
  | "v6literal", [b] => some (match validateIPv6Literal b with
      | none => "nil" | some .host => "host" | some .zone => "zone" | some .address => "address")
  | "v6hextets", [b, atc] => some (match parseIPv6Hextets b (atc == [49]) with
      | none => "false"
      | some (g, sd) => toString g ++ " " ++ toString sd ++ " true")
  | "validipv4", [b] => some (toString (validIPv4 b))
  | "v6spec", [b] => some (toString (Spec.ipv6TextSpec b))
  | _, _ => none
end Fh.Driver
