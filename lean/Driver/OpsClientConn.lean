/-
Driver ops for C04: sequential calls of the HostClient harness replayed on Model/ClientConn.lean with the toy framing
(the model is about the release-vs-close decisions, which bytes are consumed and which connection serves the next
call; the byte layout of the head is the parameter `Framing`).

  clientconn <cfg> <call>*    cfg  = [stream, maxBodyHi, maxBodyLo, lifo, requireDrained, headSkips]
    call = [method, lenHi, lenLo, srv, cutHi, cutLo, reqClose, readHi, readLo]
      method    0 GET 1 POST 2 HEAD 3 PUT (GET/HEAD/PUT are retried after a connection error, up to 5 attempts)
      len       declared body length
      srv       what the server does on the FIRST attempt: 0 full response keep-alive, 1 full response with
                Connection: close, 2 cut inside the head then close, 3 cut after `cut` body bytes then close,
                4 stall inside the head (timeout), 5 stall after `cut` body bytes (timeout, the rest arrives later),
                6 nothing: the REQUEST cannot be written (its body stream breaks): error, connection closed, no retry;
                every retry gets the full keep-alive response
      reqClose  the request carries Connection: close
      read      bytes the caller reads from a streamed body before CloseBodyStream
  rendering per call:   a=<connection ids of the attempts, '.'-separated>,res=<ok|toolarge|timeout|err>,
                        tag=<tag of the parsed head or ->,blen=<body bytes delivered>,fate=<R released | C closed>
  final token: pool=<ids of the idle connections in pool order>

  pipeline04 <heads> <flags>   reading the stream of toy responses of a pipelined connection: one byte per request,
                        1 = HEAD; flags = [headSkips]; renders per request tag:blen or err
-/
import FhVerif.Model.ClientConn
namespace Fh.Driver
open Fh Fh.Model.CC

def ccNat2 (hi lo : UInt8) : Nat := hi.toNat * 256 + lo.toNat

structure CcD where
  s : State
  cfg : Cfg
  stream : Bool
  lifo : Bool

/-- one attempt; returns (new driver state, conn id used, outcome, released, reason) -/
def ccAttempt (d : CcD) (tag : Nat) (isHead reqClose : Bool) (bodyLen srv cut readK : Nat) (first : Bool) :
    Option (CcD × Nat × Outcome × Bool × String) :=
  let pick : Option Nat := if d.s.pool.isEmpty then none else if d.lifo then some (d.s.pool.length - 1) else some 0
  let connId := match pick with
    | none => d.s.nextId
    | some i => (d.s.pool[i]?.map (·.id)).getD 0
  let cutN := if isHead then 0 else min cut bodyLen
  let effLen := if isHead then 0 else bodyLen
  let srv := if first then srv else 0
  -- nothing left to cut or to stall: a complete response, closed with announcement (3) / keep-alive (5)
  let srv := if cutN == effLen then (if srv == 3 then 1 else if srv == 5 then 0 else srv) else srv
  let close := srv == 1
  let resp := toyResp tag bodyLen close isHead
  let (arrive, later) : Nat × Bool :=
    match srv with
    | 2 => (2, false)
    | 3 => (4 + cutN, false)
    | 4 => (2, true)
    | 5 => (4 + cutN, true)
    | _ => (resp.length, false)
  let call : Call := ⟨isHead, reqClose, d.stream, readK, 0, false, srv == 6⟩
  let e : Event := ⟨tag, pick, call, resp, arrive, later⟩
  (step toy d.cfg d.s e).map fun s' =>
    let out := (s'.log.getLast?.map (·.out)).getD .err
    let released := s'.pool.any (·.id == connId)
    -- why an attempt failed (decides the retry): the model says err; the class is read off the script
    let tooLarge := !d.stream && !(isHead && d.cfg.headSkips) && decide (0 < d.cfg.maxBody ∧ d.cfg.maxBody < bodyLen) &&
      decide (4 ≤ arrive)
    let reason := match out with
      | .ok _ _ => "ok"
      | .err => if srv == 6 then "err" else if tooLarge then "toolarge" else if later && arrive < resp.length then "timeout" else "err"
    ({ d with s := s' }, connId, out, released, reason)

/-- the retry loop of HostClient.Do: an attempt that failed with a connection error is retried for idempotent methods -/
def ccGo (tag : Nat) (isHead idem reqClose : Bool) (bodyLen srv cut readK : Nat) :
    Nat → CcD → List Nat → Bool → Option (CcD × List Nat × Outcome × Bool × String)
  | 0, _, _, _ => none
  | fuel + 1, d, ids, first =>
    match ccAttempt d tag isHead reqClose bodyLen srv cut readK first with
    | none => none
    | some (d1, cid, out, rel, reason) =>
      let ids1 := ids ++ [cid]
      if reason == "err" && idem && srv != 6 && ids1.length < 5 then ccGo tag isHead idem reqClose bodyLen srv cut readK fuel d1 ids1 false
      else some (d1, ids1, out, rel, reason)

def ccCall (d : CcD) (tag : Nat) (a : List UInt8) : Option (CcD × String) :=
  match a with
  | [m, lh, ll, srv, ch, cl, rc, rh, rl] =>
    let isHead := m.toNat == 2
    let idem := m.toNat != 1
    let bodyLen := ccNat2 lh ll
    (ccGo tag isHead idem (rc.toNat != 0) bodyLen srv.toNat (ccNat2 ch cl) (ccNat2 rh rl) 5 d [] true).map fun (d1, ids, out, rel, reason) =>
      let (tagS, blen) := match out with
        | .ok hd body => ((hd.head?.map (fun (b : UInt8) => toString b.toNat)).getD "-", body.length)
        | .err => ("-", 0)
      -- (a request whose write failed never arrives at the server: the harness sees no attempt)
      let ids := if srv.toNat == 6 then [] else ids
      (d1, "a=" ++ ".".intercalate (ids.map toString) ++ ",res=" ++ reason ++ ",tag=" ++ tagS ++ ",blen=" ++ toString blen ++
        ",fate=" ++ (if rel then "R" else "C"))
  | _ => none

def ccRun : CcD → Nat → List Bytes → List String → Option (List String)
  | d, _, [], acc => some (acc.reverse ++ ["pool=" ++ ".".intercalate (d.s.pool.map fun c => toString c.id)])
  | d, tag, a :: rest, acc =>
    match ccCall d tag a with
    | some (d1, r) => ccRun d1 (tag + 1) rest (r :: acc)
    | none => none

def opsClientConn (op : String) (a : List Bytes) : Option String :=
  match op with
  | "clientconn" =>
    match a with
    | [st, mh, ml, lifo, rd, hs] :: calls =>
      (ccRun ⟨init, ⟨ccNat2 mh ml, rd.toNat != 0, hs.toNat != 0⟩, st.toNat != 0, lifo.toNat != 0⟩ 1 calls []).map (";".intercalate ·)
    | _ => none
  | "pipeline04" =>
    match a with
    | [heads, [hs]] =>
      let rs := (List.range heads.length).map fun i => ((heads.getD i 0).toNat == 1, toyResp (i + 1) 3 false ((heads.getD i 0).toNat == 1))
      let outs := readAll toy ⟨0, true, hs.toNat != 0⟩ (streamOf rs) (rs.map (·.1))
      some (",".intercalate (outs.map fun o => match o with
        | .ok hd body => (hd.head?.map (fun (b : UInt8) => toString b.toNat)).getD "-" ++ ":" ++ toString body.length
        | .err => "err"))
    | _ => none
  | _ => none

end Fh.Driver
