import FhVerif.Spec.Rfc9112
import FhVerif.Model.ReqFraming
namespace Fh.Driver
open Fh Fh.Spec.Rfc

def renderMsg (m : Msg) : String :=
  s!"M {hex m.method} {hex m.target} {hex m.body} {m.endOff} {if m.kind == .accept then "a" else "m"} {if m.http11 then "1" else "0"}"

def renderStop : Stop → String
  | .clean => "clean" | .incomplete => "incomplete" | .invalid => "invalid"

def kvPairs : List Bytes → List (Bytes × Bytes)
  | k :: v :: r => (k, v) :: kvPairs r
  | _ => []

def opsConn (op : String) (a : List Bytes) : Option String :=
  match op, a with
  | "frame", [input] =>
    let (ms, s) := frame input
    some (";".intercalate (ms.map renderMsg ++ ["E " ++ renderStop s]))
  | "reqdecision", [f] :: kvs =>
    match Fh.Model.parseDecision (f != 0) (kvPairs kvs) with
    | .reject => some "reject"
    | .ok cl close => some s!"ok {cl} {close}"
  | "rfcframing", [f] :: kvs =>
    match framingOf (f == 0) (kvPairs kvs) with
    | .invalid => some "invalid"
    | .noBody => some "nobody"
    | .length n amb => some s!"length {n} {amb}"
    | .chunked amb => some s!"chunked {amb}"
  | _, _ => none
end Fh.Driver
