import FhVerif.Spec.Rfc9112
import FhVerif.Model.ReqFraming
import FhVerif.Model.ConnClose
import FhVerif.Model.HeadEnd
import FhVerif.Model.ConnStates
import FhVerif.Model.TimeoutSem
import FhVerif.Model.BodyStream
import FhVerif.Model.ReqConf
import FhVerif.Model.Hijack
import FhVerif.Model.BodyOps
namespace Fh.Driver
open Fh Fh.Spec.Rfc

def renderMsg (m : Msg) : String :=
  s!"M {hex m.method} {hex m.target} {hex m.body} {m.endOff} {if m.kind == .accept then "a" else "m"} {if m.http11 then "1" else "0"}"

def renderStop : Stop → String
  | .clean => "clean" | .incomplete => "incomplete" | .invalid => "invalid"

def kvPairs : List Bytes → List (Bytes × Bytes)
  | k :: v :: r => (k, v) :: kvPairs r
  | _ => []

/-- split the args of `connhist` into per-request groups at the marker "R" -/
def splitReqs : List Bytes → List (List Bytes) → List Bytes → List (List Bytes)
  | [], acc, cur => (if cur.isEmpty then acc else acc ++ [cur])
  | a :: rest, acc, cur =>
    if a == [82] then splitReqs rest (if cur.isEmpty then acc else acc ++ [cur]) [a] else splitReqs rest acc (cur ++ [a])

def connHist (nka : Bool) (maxReqs : Nat) (groups : List (List Bytes)) : String :=
  let cfg : Fh.Model.LoopCfg := ⟨nka, maxReqs, false⟩
  let rec go : Nat → List (List Bytes) → List String
    | _, [] => []
    | n, g :: rest =>
      match g with
      | _ :: [noH11] :: [hc] :: kvs =>
        match Fh.Model.parseDecision (noH11 != 0) (kvPairs kvs) with
        | .reject => ["reject"]
        | .ok _ rc =>
          let o := Fh.Model.respOut cfg n ⟨rc, noH11 == 0, hc != 0, false⟩
          let s := s!"{if o.closeHeader then 1 else 0}{if o.keepAliveHeader then 1 else 0}{if o.closedAfter then 1 else 0}"
          if o.closedAfter then [s] else s :: go (n + 1) rest
      | _ => ["bad"]
  ";".intercalate (go 1 groups)

def opsConn (op : String) (a : List Bytes) : Option String :=
  match op, a with
  | "frame", [input] =>
    let (ms, s) := frame input
    some (";".intercalate (ms.map renderMsg ++ ["E " ++ renderStop s]))
  | "connstates", [iters, observed] =>
    -- iters: one letter per loop iteration (n noByte, s served, c servedClose, e parseError, h hijack);
    -- observed: one letter per hook call (N A I C H). Reply: model's word, and whether the observed word is in the language
    let it := iters.filterMap fun c => match Char.ofNat c.toNat with
      | 'n' => some Fh.Model.Iter.noByte | 's' => some .served | 'c' => some .servedClose | 'e' => some .parseError | 'h' => some .hijack | _ => none
    let letter : Fh.Model.CS → Char := fun | .new => 'N' | .active => 'A' | .idle => 'I' | .closed => 'C' | .hijacked => 'H'
    let obs := observed.filterMap fun c => match Char.ofNat c.toNat with
      | 'N' => some Fh.Model.CS.new | 'A' => some .active | 'I' => some .idle | 'C' => some .closed | 'H' => some .hijacked | _ => none
    some s!"{String.ofList ((Fh.Model.states it).map letter)} {Fh.Model.accepts obs}"
  | "bodyops", ops => do
    -- a response body built in steps; each arg is a letter followed by its text:
    -- b SetBody, a/w Append/Write, r SetBodyRaw, R SetBodyRaw(nil), x ResetBody, s SetBodyStream.  Reply: the body sent
    let os ← ops.mapM fun (o : Bytes) => match o with
      | 98 :: t => some (Fh.Model.BodyOps.Op.set t)
      | 97 :: t => some (.app t)
      | 119 :: t => some (.app t)
      | 114 :: t => some (.raw t)
      | [82] => some .rawNil
      | [120] => some .reset
      | 115 :: t => some (.stream t)
      | _ => none
    some (hex (Fh.Model.BodyOps.sent (Fh.Model.BodyOps.run Fh.Model.BodyOps.init os)))
  | "rskeep", cl :: pre :: acts => do
    -- streamed fixed-length body: Content-Length, prefetched bytes, then what the handler did:
    -- f<N> = io.ReadFull of N bytes, a = read to EOF, d = drop the stream (ResetBody / SetBody / Body())
    let c ← natOfDec? cl
    let p ← natOfDec? pre
    let fin := acts.foldl (fun (s : Fh.Model.HS) (a : Bytes) =>
      match a with
      | 102 :: n => match natOfDec? n with
        | some k => s.run (Fh.Model.readFullActs (k + 2) s.rs k)
        | none => s
      | [97] => s.run (Fh.Model.readFullActs (c + 3) s.rs (c + 1))
      | [100] => s.step .drop
      | _ => s) (⟨⟨c, p, 0⟩, true, false⟩ : Fh.Model.HS)
    some s!"{if fin.keep then "keep" else "close"} {fin.rs.connConsumed}"
  | "reqconf", hook :: smax :: swt :: confs => do
    -- per-request RequestConfig: server (hasHook, MaxRequestBodySize, WriteTimeout; no Read/IdleTimeout), then per request
    -- "rt,wt,mb" (decimal, comma separated).  Reply per request: body limit, write deadline in force, and whether the
    -- server waits for it under a read deadline set by an earlier request
    let sm ← natOfDec? smax
    let sw ← natOfDec? swt
    let c : Fh.Model.ReqConf.SrvCfg := ⟨sm, sw, 0, 0, hook == [49]⟩
    let ks ← confs.mapM fun (b : Bytes) =>
      match (Fh.Spec.Rfc.splitOnByte 44 b).map natOfDec? with
      | [some rt, some wt, some mb] => some (⟨rt, wt, mb⟩ : Fh.Model.ReqConf.Conf)
      | _ => none
    let seen := Fh.Model.ReqConf.run c 1 (Fh.Model.ReqConf.init c) ks
    some (" ".intercalate (seen.map fun s =>
      s!"{s.maxBody}:{if s.wdl then 1 else 0}:{if s.rdlWaiting == .request then 1 else 0}"))
  | "hjflags", reqs =>
    -- per request three flags "nht": n = HijackSetNoResponse(true), h = Hijack, t = handler timed out ('-' = not)
    let rs := reqs.map fun (b : Bytes) => (⟨b[0]? == some 110, b[1]? == some 104, b[2]? == some 116⟩ : Fh.Model.HjReq)
    some (" ".intercalate ((Fh.Model.hjRun {} rs).map fun o => s!"{if o.hijacked then 1 else 0}{if o.suppressed then 1 else 0}"))
  | "tosem", [cap, script] => do
    -- TimeoutHandler concurrency bound: script letters s (handler outlives its timeout) / f (returns at once)
    let n ← natOfDec? cap
    -- letters: s (handler outlives its timeout) / f (returns at once) / R (every handler still running returns now)
    let toks := script.map fun c => if c == 115 then 1 else if c == 82 then 2 else 0
    some (" ".intercalate ((Fh.Model.TimeoutSem.serveTok (Fh.Model.TimeoutSem.init n) toks).map toString))
  | "headend", [buf] =>
    match Fh.Model.parseHead (fun l b => (l, b)) buf with
    | .needMore => some "needmore"
    | .parsed (l, b) c => some s!"end {c} {hex l} {hex b}"
  | "connhist", [nka] :: mr :: rest => do
    let m ← natOfDec? mr
    some (connHist (nka != 0) m (splitReqs rest [] []))
  | "reqdecision", [f] :: kvs =>
    match Fh.Model.parseDecision (f != 0) (kvPairs kvs) with
    | .reject => some "reject"
    | .ok cl close => some s!"ok {cl} {close}"
  | "rfcframing", [f] :: kvs =>
    match framingOf (f == 0) (kvPairs kvs) with
    | .invalid => some "invalid"
    | .noBody => some "nobody"
    | .length n amb => some s!"length {n} {amb}"
    | .chunked amb => some s!"chunked {amb}"
  | _, _ => none
end Fh.Driver
