import FhVerif.Base.Bytes
import FhVerif.Model.TlsRoute
namespace Fh.Driver
open Fh Fh.Model.TlsRoute

/-- the fake network of the C21 harness refuses addresses whose host part is empty -/
def trHostPart (addr : Bytes) : Bytes :=
  match addr with
  | 91 :: rest => rest.takeWhile (· != 93)
  | _ => (addr.reverse.dropWhile (· != 58)).reverse.dropLast |> fun h => if addr.contains 58 then h else addr

def trDialOk (addr : Bytes) : Bool := !(trHostPart addr).isEmpty

def trFlag? (b : Bytes) : Option Bool :=
  match b with
  | [48] => some false
  | [49] => some true
  | _ => none

def trRes (s : St) (r : Res) : String :=
  match r with
  | .err => "E"
  | .mismatch => "M"
  | .wrote id =>
    match s.conns[id]? with
    | some cn => s!"W{id}:{hex cn.addr}:{if cn.tls then 1 else 0}"
    | none => s!"W{id}:?"

/-- ops: N addr tls cfgOk | C first scheme host keep cfgOk | H first i scheme keep | R scheme keep | K.
    `first` = 0 marks a later hop of a redirect chain: it only happens if the previous hop wrote its request.
    R is a further ATTEMPT of the same HostClient.Do call (the previous attempt failed after its write and a retry
    hook rewrote the request): one more `hcDo` on the HostClient the previous op used, only if that op wrote. -/
def trRun : St → Bool → Option Nat → List Bytes → List String → Option (List String)
  | _, _, _, [], acc => some acc.reverse
  | s, _, _, [78] :: addr :: tls :: cfg :: rest, acc => do
    let tls ← trFlag? tls
    let cfg ← trFlag? cfg
    trRun (step trDialOk s (.newHC addr tls cfg)).1 false none rest ("-" :: acc)
  | s, prev, last, [67] :: first :: scheme :: host :: keep :: cfg :: rest, acc => do
    let first ← trFlag? first
    let keep ← trFlag? keep
    let cfg ← trFlag? cfg
    if !first && !prev then trRun s false last rest ("S" :: acc)
    else
      let r := clientDo trDialOk s scheme host keep cfg
      let used := lookup host (if isHTTPS scheme then r.1.ms else r.1.m)
      trRun r.1 (match r.2 with | .wrote _ => true | _ => false) used rest (trRes r.1 r.2 :: acc)
  | s, prev, last, [72] :: first :: i :: scheme :: keep :: rest, acc => do
    let first ← trFlag? first
    let keep ← trFlag? keep
    let i ← natOfDec? i
    if !first && !prev then trRun s false last rest ("S" :: acc)
    else
      let r := hcDo trDialOk s i scheme keep
      trRun r.1 (match r.2 with | .wrote _ => true | _ => false) (some i) rest (trRes r.1 r.2 :: acc)
  | s, _, _, [75] :: rest, acc =>
    -- K: CloseIdleConnections on the Client and on every caller-made HostClient
    let s' := (List.range s.hcs.length).foldl (fun st i => (step trDialOk st (.closeIdle i)).1) s
    trRun s' false none rest ("-" :: acc)
  | s, prev, last, [82] :: scheme :: keep :: rest, acc => do
    let keep ← trFlag? keep
    match prev, last with
    | true, some i =>
      let r := hcDo trDialOk s i scheme keep
      trRun r.1 (match r.2 with | .wrote _ => true | _ => false) (some i) rest (trRes r.1 r.2 :: acc)
    | _, _ => trRun s false last rest ("S" :: acc)
  | _, _, _, _, _ => none
termination_by _ _ _ l _ => l.length

def opsTlsRoute (op : String) (a : List Bytes) : Option String :=
  match op with
  | "tlsroute" => (trRun {} false none a []).map (",".intercalate ·)
  | "addmissingport" => match a with
    | [addr, tls] => (trFlag? tls).map fun t => hex (addMissingPort addr t)
    | _ => none
  | _ => none

end Fh.Driver
