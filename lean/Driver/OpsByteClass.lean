import FhVerif.Model.ByteClass
import FhVerif.Spec.ByteClass
namespace Fh.Driver
open Fh Fh.Model

def b2n (b : Bool) : String := if b then "1" else "0"

/-- ops of the byte-class group (C32).  `none` = op not handled here. -/
def opsByteClass (op : String) (a : List Bytes) : Option String :=
  match op, a with
  | "bc", [[c]] =>
    some s!"{(hex2int c).toNat} {(toLower c).toNat} {(toUpper c).toNat} {b2n (quotedArgShouldEscape c)} {b2n (quotedPathShouldEscape c)} {b2n (validHeaderFieldByte c)} {b2n (validHeaderValueByte c)} {b2n (validMethodValueByte c)}"
  | "bcspec", [[c]] =>
    let n := c.toNat
    some s!"{Spec.hexVal n} {Spec.lowerOf n} {Spec.upperOf n} {b2n (Spec.argShouldEscape n)} {b2n (Spec.pathShouldEscape n)} {b2n (Spec.tchar n)} {b2n (Spec.fieldValueByte n)} {b2n (Spec.tchar n)}"
  | "normkey", [k, [d]] => some (hex (normalizeHeaderKey k (d != 0)))
  | "canonspec", [k] => some (hex (Spec.canonicalMIMEHeaderKey k))
  | "htmlesc", [s] => some (hex (appendHTMLEscape s))
  | "htmlescspec", [s] => some (hex (Spec.htmlEscape s))
  | _, _ => none

end Fh.Driver
