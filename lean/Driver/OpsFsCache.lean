import FhVerif.Model.FsCache
namespace Fh.Driver
open Fh Fh.Model
namespace C25

def splitOnByte (sep : UInt8) (b : Bytes) : List Bytes :=
  b.foldr (fun c (acc : List Bytes) =>
    if c == sep then [] :: acc
    else match acc with
      | s :: r => (c :: s) :: r
      | [] => [[c]]) [[]]

/-- event tokens: o<0|1>  f<i>  g<kind>:<path>  s<kind>:<path>:<i>  d<i>  n<i>  r<i>  c<i>:<0|1>  k<i>,<i>,…  x -/
def parseEv (t : Bytes) : Option Ev :=
  match t with
  | 111 :: r => some (.open_ (r == [49]))
  | 102 :: r => (natOfDec? r).map .fail
  | 103 :: r => match splitOnByte 58 r with
    | [k, p] => (natOfDec? k).map fun k => .get k p
    | _ => none
  | 115 :: r => match splitOnByte 58 r with
    | [k, p, i] => do let k ← natOfDec? k; let i ← natOfDec? i; pure (.set k p i)
    | _ => none
  | 100 :: r => (natOfDec? r).map .dec
  | 110 :: r => (natOfDec? r).map .readerNew
  | 114 :: r => (natOfDec? r).map .read
  | 99 :: r => match splitOnByte 58 r with
    | [i, ok] => (natOfDec? i).map fun i => .readerClose i (ok == [49])
    | _ => none
  | 107 :: r => if r.isEmpty then some (.clean []) else ((splitOnByte 44 r).mapM natOfDec?).map .clean
  | [120] => some .close
  | _ => none

def showLoc : Loc → String
  | .fresh => "F" | .pending => "P" | .detached => "D"
  | .cached k p => s!"C{k}:{hex p}"

def showObj (o : Obj) : String :=
  s!"{showLoc o.loc},{o.readers},{o.released},{o.out},{o.pool},{o.hOpened},{o.hClosed}"

def showSt (s : St) : String :=
  (if s.closed then "c1" else "c0") ++ String.join (s.objs.map fun o => " " ++ showObj o)

def runShow (s : St) (k : Nat) : List Ev → List String
  | [] => []
  | e :: es => match step s e with
    | none => [s!"stuck {k}"]
    | some s' => showSt s' :: runShow s' (k + 1) es

end C25
open C25 in
def opsFsCache (op : String) (a : List Bytes) : Option String :=
  match op, a with
  | "fscache", c :: toks => do
    let evs ← toks.mapM parseEv
    some ("|".intercalate (runShow (init (c == [49])) 0 evs))
  | _, _ => none
end Fh.Driver
