import FhVerif.Model.IntCodec
import FhVerif.Spec.IntCodec
namespace Fh.Driver
open Fh Fh.Model

def perr : PErr → String
  | .empty => "empty" | .firstChar => "firstChar" | .trailing => "trailing" | .tooLong => "tooLong"
def herr : HErr → String
  | .eof => "eof" | .emptyHex => "emptyHex" | .tooLarge => "tooLarge"

def opsIntCodec (op : String) (a : List Bytes) : Option String :=
  match op, a with
  | "parseuint", [w, b] => do
    let w ← natOfDec? w
    match parseUint w b with
    | .ok v => some s!"ok {v}"
    | .error e => some s!"err {perr e}"
  | "parseuintbuf", [w, b] => do
    let w ← natOfDec? w
    let r := parseUintBuf w b
    some s!"{r.v} {r.n} {match r.err with | some e => perr e | none => "nil"}"
  | "parseuintspec", [w, b] => do
    let w ← natOfDec? w
    match Spec.parseUintSpec w b with
    | some v => some s!"ok {v}"
    | none => some "err"
  | "appenduint", [n] => do
    let n ← natOfDec? n
    some (hex (appendUint n))
  | "readhex", [m, s] => do
    let m ← natOfDec? m
    match readHexInt m s with
    | .ok (n, rest) => some s!"ok {n} {rest.length}"
    | .error e => some s!"err {herr e}"
  | "writehex", [n] => do
    let n ← natOfDec? n
    some (hex (writeHexInt n))
  | "maxhex", [] => some s!"{Gen.maxHexIntChars64} {Gen.maxHexIntChars32}"
  | _, _ => none

end Fh.Driver
