import FhVerif.Model.Adaptor
import FhVerif.Spec.ByteClass
namespace Fh.Driver
open Fh Fh.Spec.NH Fh.Model.Adaptor

/-- n bytes made of the pattern repeated (harness op 'R') -/
def repeatTo (pat : Bytes) (n : Nat) : Bytes :=
  ((List.replicate (n / pat.length + 1) pat).flatten).take n

/-- decode a handler program from (opcode, a, b) triples; header names are canonicalised like http.Header does -/
def decodeProg : List Bytes → Option (List HOp)
  | [] => some []
  | [op] :: a :: b :: rest => do
    let tl ← decodeProg rest
    let ck := Spec.canonicalMIMEHeaderKey a
    match Char.ofNat op.toNat with
    | 'W' => (natOfDec? a).map (fun c => HOp.writeHeader c :: tl)
    | 'A' => some (HOp.add ck b :: tl)
    | 'S' => some (HOp.set ck b :: tl)
    | 'D' => some (HOp.del ck :: tl)
    | 'B' => some (HOp.write a :: tl)
    | 'R' => (natOfDec? b).map (fun n => HOp.write (repeatTo (if a.isEmpty then [120] else a) n) :: tl)
    | 'F' => some (HOp.flush :: tl)
    | _ => none
  | _ => none

def renderHdr (h : Hdr) : String := ",".intercalate (h.map fun e => hex e.1 ++ "=" ++ hex e.2)

/-- "status;interim;k=v,k=v;body" -/
def renderResp (r : Option Resp) (interim : List Nat) : String :=
  match r with
  | none => "panic;;;-"
  | some r => toString r.status ++ ";" ++ ",".intercalate (interim.map toString) ++ ";" ++ renderHdr r.header ++ ";" ++ hex r.body

/-- the harness skips WriteHeader ops with invalid codes (they panic in both servers); mirror that -/
def dropInvalid (p : List HOp) : List HOp :=
  p.filter (fun o => match o with | .writeHeader c => validCode c | _ => true)

def pairs : List Bytes → Option (List (Bytes × Bytes))
  | [] => some []
  | k :: v :: rest => (pairs rest).map (fun tl => (Spec.canonicalMIMEHeaderKey k, v) :: tl)
  | _ => none

def renderHReq (r : HReq) : String :=
  " ".intercalate [hex r.method, hex r.requestURI, hex r.requestURI, hex r.proto, toString r.major, toString r.minor,
    hex r.host, "[" ++ renderHdr r.header ++ "]", hex r.body]

def opsAdaptor (op : String) (a : List Bytes) : Option String :=
  match op with
  | "nhwriter" => (decodeProg a).map (fun p => let p := dropInvalid p; renderResp (reference p) (referenceInterim p))
  | "adaptor" => (decodeProg a).map (fun p => renderResp (adaptor (dropInvalid p)) [])
  | "adaptorold" => (decodeProg a).map (fun p => renderResp (adaptorOld (dropInvalid p)) [])
  | "refparse" => match a with
    | m :: t :: pr :: body :: fs => (pairs fs).map (fun f => renderHReq (referenceParse ⟨m, t, pr, f, body⟩))
    | _ => none
  | "convert" => match a with
    | m :: t :: pr :: body :: fs => (pairs fs).map (fun f => renderHReq (convert ⟨m, t, pr, f, body⟩))
    | _ => none
  | "convertold" => match a with
    | m :: t :: pr :: body :: fs => (pairs fs).map (fun f => renderHReq (convertOld ⟨m, t, pr, f, body⟩))
    | _ => none
  | _ => none
end Fh.Driver
