import FhVerif.Model.Cookie
import FhVerif.Spec.SetCookie
namespace Fh.Driver
open Fh Fh.Model

def intOfBytes? (b : Bytes) : Option Int :=
  match b with
  | 45 :: r => (natOfDec? r).map fun n => -(n : Int)
  | _ => (natOfDec? b).map fun n => (n : Int)

def sameSiteOfNat : Nat → SameSite
  | 1 => .default | 2 => .lax | 3 => .strict | 4 => .none | _ => .disabled
def natOfSameSite : SameSite → Nat
  | .disabled => 0 | .default => 1 | .lax => 2 | .strict => 3 | .none => 4

def renderCookie (c : Cookie) : String :=
  s!"k={hex c.key} v={hex c.value} d={hex c.domain} p={hex c.path} ma={c.maxAge} ex={match c.expire with | some t => toString t | none => "-"} ss={natOfSameSite c.sameSite} ho={c.httpOnly} se={c.secure} pa={c.partitioned}"

def renderErr : CkErr → String
  | .noCookies => "err:noCookies" | .invalidValue => "err:invalidValue" | .maxAge => "err:maxAge" | .expires => "err:expires"

def renderParse (r : Except CkErr Cookie) : String :=
  match r with
  | .ok c => renderCookie c
  | .error e => renderErr e

/-- setter ops: pairs (opcode, argument) -/
def runCookieOps : Cookie → List Bytes → Option Cookie
  | c, [] => some c
  | c, [op] :: a :: rest =>
    match Char.ofNat op.toNat with
    | 'K' => runCookieOps (c.setKey a) rest
    | 'V' => runCookieOps (c.setValue a) rest
    | 'D' => runCookieOps (c.setDomain a) rest
    | 'P' => runCookieOps (c.setPath a) rest
    | 'M' => (intOfBytes? a).bind fun n => runCookieOps (c.setMaxAge n) rest
    | 'E' => if a.isEmpty then runCookieOps (c.setExpire none) rest
             else (natOfDec? a).bind fun t => runCookieOps (c.setExpire (some t)) rest
    | 'H' => runCookieOps (c.setHTTPOnly (a != [48])) rest
    | 'S' => runCookieOps (c.setSecure (a != [48])) rest
    | 'X' => (natOfDec? a).bind fun n => runCookieOps (c.setSameSite (sameSiteOfNat n)) rest
    | 'T' => runCookieOps (c.setPartitioned (a != [48])) rest
    | _ => none
  | _, _ => none

def renderAttrName : Spec.AttrName → String
  | .expires => "expires" | .maxAge => "max-age" | .domain => "domain" | .path => "path" | .secure => "secure"
  | .httpOnly => "httponly" | .sameSite => "samesite" | .partitioned => "partitioned"

def renderAttrs (l : List (Spec.AttrName × Bytes)) : String :=
  ",".intercalate (l.map fun (a, v) => renderAttrName a ++ "=" ++ hex v)

def renderPairs (l : List (Bytes × Bytes)) : String := ",".intercalate (l.map fun (k, v) => hex k ++ "=" ++ hex v)

def runReqCookies : ArgList → List Bytes → Option ArgList
  | cs, [] => some cs
  | cs, k :: v :: rest => runReqCookies (reqSetCookie cs k v) rest
  | _, _ => none

def opsCookie (op : String) (a : List Bytes) : Option String :=
  match op, a with
  | "ckbuild", ops => (runCookieOps {} ops).map fun c =>
      let w := c.appendBytes ckDate
      hex w ++ " | " ++ renderCookie c ++ " | " ++ renderParse (Cookie.parseBytes ckDate w) ++ " | " ++ renderAttrs (Spec.rfcAttrs w)
  | "ckparse", [src] =>
      let r := Cookie.parseBytes ckDate src
      some (renderParse r ++ " | " ++ (match r with | .ok c => hex (c.appendBytes ckDate) | .error _ => "-"))
  | "ckrfc", [src] => some (renderAttrs (Spec.rfcAttrs src))
  | "cktrim", [b, [f]] => some (hex (ckTrim b (f != 48)))
  | "ckvalid", [b] => some (s!"{validCookieValue b} {validCookiePathValue b} {hex (removeSemicolons b)}")
  | "ckcieq", [x, y] => some (toString (ckCiEq x y))
  | "ckdate", [t] => (natOfDec? t).map fun n => hex (ckFmtDate n) ++ " " ++ toString (ckParseDate (ckFmtDate n) == some n)
  | "ckdateparse", [b] => some (match ckParseDate b with | some t => toString t | none => "none")
  | "reqck", kvs => (runReqCookies [] kvs).map fun cs =>
      let w := appendRequestCookieBytes cs
      hex w ++ " | " ++ renderPairs (cs.map fun e => (e.key, e.val)) ++ " | " ++ renderPairs (parseRequestCookies w)
        ++ " | " ++ renderPairs (Spec.rfcCookiePairs w)
  | "reqckparse", [src] => some (renderPairs (parseRequestCookies src))
  | "reqckappend", kvs =>
      let rec pairs : List Bytes → Option ArgList
        | [] => some []
        | k :: v :: r => (pairs r).map fun t => ⟨k, some v⟩ :: t
        | _ => none
      (pairs kvs).map fun cs => hex (appendRequestCookieBytes cs)
  | _, _ => none
end Fh.Driver
