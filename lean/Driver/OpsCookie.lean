import FhVerif.Model.Cookie
import FhVerif.Spec.SetCookie
namespace Fh.Driver
open Fh Fh.Model

def intOfBytes? (b : Bytes) : Option Int :=
  match b with
  | 45 :: r => (natOfDec? r).map fun n => -(n : Int)
  | _ => (natOfDec? b).map fun n => (n : Int)

def sameSiteOfNat : Nat → SameSite
  | 1 => .default | 2 => .lax | 3 => .strict | 4 => .none | _ => .disabled
def natOfSameSite : SameSite → Nat
  | .disabled => 0 | .default => 1 | .lax => 2 | .strict => 3 | .none => 4

def renderCookie (c : Cookie) : String :=
  s!"k={hex c.key} v={hex c.value} d={hex c.domain} p={hex c.path} ma={c.maxAge} ex={match c.expire with | some t => toString t | none => "-"} ss={natOfSameSite c.sameSite} ho={c.httpOnly} se={c.secure} pa={c.partitioned}"

def renderErr : CkErr → String
  | .noCookies => "err:noCookies" | .invalidValue => "err:invalidValue" | .maxAge => "err:maxAge" | .expires => "err:expires"

def renderParse (r : Except CkErr Cookie) : String :=
  match r with
  | .ok c => renderCookie c
  | .error e => renderErr e

/-- setter ops: pairs (opcode, argument) -/
def runCookieOps : Cookie → List Bytes → Option Cookie
  | c, [] => some c
  | c, [op] :: a :: rest =>
    match Char.ofNat op.toNat with
    | 'K' => runCookieOps (c.setKey a) rest
    | 'V' => runCookieOps (c.setValue a) rest
    | 'D' => runCookieOps (c.setDomain a) rest
    | 'P' => runCookieOps (c.setPath a) rest
    | 'M' => (intOfBytes? a).bind fun n => runCookieOps (c.setMaxAge n) rest
    | 'E' => if a.isEmpty then runCookieOps (c.setExpire none) rest
             else (natOfDec? a).bind fun t => runCookieOps (c.setExpire (some t)) rest
    | 'H' => runCookieOps (c.setHTTPOnly (a != [48])) rest
    | 'S' => runCookieOps (c.setSecure (a != [48])) rest
    | 'X' => (natOfDec? a).bind fun n => runCookieOps (c.setSameSite (sameSiteOfNat n)) rest
    | 'T' => runCookieOps (c.setPartitioned (a != [48])) rest
    | _ => none
  | _, _ => none

def renderAttrName : Spec.AttrName → String
  | .expires => "expires" | .maxAge => "max-age" | .domain => "domain" | .path => "path" | .secure => "secure"
  | .httpOnly => "httponly" | .sameSite => "samesite" | .partitioned => "partitioned"

def renderAttrs (l : List (Spec.AttrName × Bytes)) : String :=
  ",".intercalate (l.map fun (a, v) => renderAttrName a ++ "=" ++ hex v)

def renderPairs (l : List (Bytes × Bytes)) : String := ",".intercalate (l.map fun (k, v) => hex k ++ "=" ++ hex v)

def runReqCookies : ArgList → List Bytes → Option ArgList
  | cs, [] => some cs
  | cs, k :: v :: rest => runReqCookies (reqSetCookie cs k v) rest
  | _, _ => none

/-- a small pool of Cookie objects plus one ResponseHeader cookie store; ops are triples (opcode, slot, argument) -/
structure CkSeqSt where
  slots : List Cookie := [{}, {}, {}]
  store : ArgList := []
  obs : List String := []

def CkSeqSt.get (st : CkSeqSt) (i : Nat) : Cookie := st.slots.getD i {}
def CkSeqSt.put (st : CkSeqSt) (i : Nat) (c : Cookie) : CkSeqSt := { st with slots := st.slots.set i c }

def ckSetterOp (op : Char) (a : Bytes) : Option CkObjOp :=
  match op with
  | 'K' => some (.setKey a)
  | 'V' => some (.setValue a)
  | 'D' => some (.setDomain a)
  | 'P' => some (.setPath a)
  | 'M' => (intOfBytes? a).map .setMaxAge
  | 'E' => if a.isEmpty then some (.setExpire none) else (natOfDec? a).map fun t => .setExpire (some t)
  | 'H' => some (.setHTTPOnly (a != [48]))
  | 'S' => some (.setSecure (a != [48]))
  | 'X' => (natOfDec? a).map fun n => .setSameSite (sameSiteOfNat n)
  | 'T' => some (.setPartitioned (a != [48]))
  | 'Z' => some .reset
  | 'A' => some .reset
  | _ => none

def runCkSeq : CkSeqSt → List Bytes → Option CkSeqSt
  | st, [] => some st
  | st, [op] :: [sl] :: a :: rest =>
    let i := sl.toNat % 3
    let c := st.get i
    match Char.ofNat op.toNat with
    | 'R' =>
      let r := Cookie.parseInto ckDate a
      runCkSeq { (st.put i r.1) with obs := ("R:" ++ (match r.2 with | none => "ok" | some e => renderErr e)) :: st.obs } rest
    | 'C' =>
      match a with
      | [j] => -- CopyTo resets the receiver first: copying an object onto itself leaves it empty
        runCkSeq (st.put i (if j.toNat % 3 = i then {} else st.get (j.toNat % 3))) rest
      | _ => none
    | 'W' => runCkSeq { st with obs := ("W:" ++ hex (c.appendBytes ckDate)) :: st.obs } rest
    | 'h' =>
      let w := c.appendBytes ckDate
      if w.isEmpty then runCkSeq st rest
      else runCkSeq { st with store := setArg st.store (removeNewLines c.key) (some (removeNewLines w)) } rest
    | 'g' =>
      match peekArg st.store c.key with
      | none => runCkSeq { st with obs := "g:none" :: st.obs } rest
      | some v =>
        let r := Cookie.parseInto ckDate v
        runCkSeq { (st.put i r.1) with obs := ("g:" ++ (match r.2 with | none => "ok" | some e => renderErr e)) :: st.obs } rest
    | o =>
      match ckSetterOp o a with
      | some ob => runCkSeq (st.put i (c.applyObj ckDate ob)) rest
      | none => none
  | _, _ => none

def opsCookie (op : String) (a : List Bytes) : Option String :=
  match op, a with
  | "ckbuild", ops => (runCookieOps {} ops).map fun c =>
      let w := c.appendBytes ckDate
      hex w ++ " | " ++ renderCookie c ++ " | " ++ renderParse (Cookie.parseBytes ckDate w) ++ " | " ++ renderAttrs (Spec.rfcAttrs w)
  | "ckseq", ops => (runCkSeq {} ops).map fun st =>
      ";".intercalate st.obs.reverse ++ ";F:" ++ "|".intercalate (st.slots.map renderCookie)
  | "ckparse", [src] =>
      let r := Cookie.parseBytes ckDate src
      some (renderParse r ++ " | " ++ (match r with | .ok c => hex (c.appendBytes ckDate) | .error _ => "-"))
  | "ckrfc", [src] => some (renderAttrs (Spec.rfcAttrs src))
  | "cktrim", [b, [f]] => some (hex (ckTrim b (f != 48)))
  | "ckvalid", [b] => some (s!"{validCookieValue b} {validCookiePathValue b} {hex (removeSemicolons b)}")
  | "ckcieq", [x, y] => some (toString (ckCiEq x y))
  | "ckdate", [t] => (natOfDec? t).map fun n => hex (ckFmtDate n) ++ " " ++ toString (ckParseDate (ckFmtDate n) == some n)
  | "ckdateparse", [b] => some (match ckParseDate b with | some t => toString t | none => "none")
  | "reqck", kvs => (runReqCookies [] kvs).map fun cs =>
      let w := appendRequestCookieBytes cs
      hex w ++ " | " ++ renderPairs (cs.map fun e => (e.key, e.val)) ++ " | " ++ renderPairs (parseRequestCookies w)
        ++ " | " ++ renderPairs (Spec.rfcCookiePairs w)
  | "reqckparse", [src] => some (renderPairs (parseRequestCookies src))
  | "reqckappend", kvs =>
      let rec pairs : List Bytes → Option ArgList
        | [] => some []
        | k :: v :: r => (pairs r).map fun t => ⟨k, some v⟩ :: t
        | _ => none
      (pairs kvs).map fun cs => hex (appendRequestCookieBytes cs)
  | _, _ => none
end Fh.Driver
