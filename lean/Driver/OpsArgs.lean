import FhVerif.Model.Args
import FhVerif.Spec.Multimap
namespace Fh.Driver
open Fh Fh.Model

def renderKV (k : Bytes) (v : Option Bytes) : String :=
  match v with
  | none => hex k
  | some v => hex k ++ "=" ++ hex v

def renderList (l : ArgList) : String := ",".intercalate (l.map fun e => renderKV e.key e.value)
def renderMM (l : Spec.MM) : String := ",".intercalate (l.map fun e => renderKV e.key e.value)

/-- run ops (triples opcode,key,value) on the model; returns observations -/
def runArgsModel : ArgList → List Bytes → List String → Option (List String)
  | l, [], acc => some (("F:" ++ renderList l) :: acc).reverse
  | l, [op] :: k :: v :: rest, acc =>
    match Char.ofNat op.toNat with
    | 'A' => runArgsModel (appendArg l k (some v)) rest acc
    | 'N' => runArgsModel (appendArg l k none) rest acc
    | 'S' => runArgsModel (setArg l k (some v)) rest acc
    | 's' => runArgsModel (setArg l k none) rest acc
    | 'D' => runArgsModel (delAllArgsStable l k) rest acc
    | 'P' => runArgsModel l rest (("P:" ++ hex ((peekArg l k).getD [])) :: acc)
    | 'M' => runArgsModel l rest (("M:" ++ ",".intercalate ((peekAll l k).map hex)) :: acc)
    | 'H' => runArgsModel l rest (("H:" ++ toString (hasArg l k)) :: acc)
    | 'L' => runArgsModel l rest (("L:" ++ toString l.length) :: acc)
    | 'Q' => runArgsModel l rest (("Q:" ++ hex (argsAppendBytes l) ++ ">" ++ renderList (parseArgs (argsAppendBytes l))) :: acc)
    | _ => none
  | _, _, _ => none

def runArgsSpec : Spec.MM → List Bytes → List String → Option (List String)
  | l, [], acc => some (("F:" ++ renderMM l) :: acc).reverse
  | l, [op] :: k :: v :: rest, acc =>
    match Char.ofNat op.toNat with
    | 'A' => runArgsSpec (l.add k (some v)) rest acc
    | 'N' => runArgsSpec (l.add k none) rest acc
    | 'S' => runArgsSpec (l.set k (some v)) rest acc
    | 's' => runArgsSpec (l.set k none) rest acc
    | 'D' => runArgsSpec (l.del k) rest acc
    | 'P' => runArgsSpec l rest (("P:" ++ hex ((l.peek k).getD [])) :: acc)
    | 'M' => runArgsSpec l rest (("M:" ++ ",".intercalate ((l.peekMulti k).map hex)) :: acc)
    | 'H' => runArgsSpec l rest (("H:" ++ toString (l.has k)) :: acc)
    | 'L' => runArgsSpec l rest (("L:" ++ toString l.length) :: acc)
    | 'Q' => -- round trip: parsing the query string yields the same list minus blank entries
      let want := l.filter (fun e => !(e.key.isEmpty && (e.value.getD []).isEmpty))
      runArgsSpec l rest (("Q:>" ++ renderMM want) :: acc)
    | _ => none
  | _, _, _ => none

def opsArgs (op : String) (a : List Bytes) : Option String :=
  match op with
  | "args" => (runArgsModel [] a []).map (";".intercalate ·)
  | "argsspec" => (runArgsSpec [] a []).map (";".intercalate ·)
  | "argsparse" => match a with
    | [b] => some (renderList (parseArgs b) ++ ">" ++ hex (argsAppendBytes (parseArgs b)))
    | _ => none
  | "decodearg" => match a with | [b] => some (hex (decodeArg b)) | _ => none
  | "quotearg" => match a with | [b] => some (hex (appendQuotedArg b)) | _ => none
  | "delswap" => match a with
    | k :: keys => some (",".intercalate ((delAllArgsSwap (keys.map fun x => ⟨x, none⟩) k).map fun e => hex e.key))
    | _ => none
  | _ => none
end Fh.Driver
