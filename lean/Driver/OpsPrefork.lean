import FhVerif.Base.Bytes
import FhVerif.Model.Prefork
namespace Fh.Driver
open Fh Fh.Model.Prefork

/-
`pfrun G T backoff readyErr script inject` — replays the harness scenario on the transition system.

script : one byte per `CommandProducer` call, in call order (past its end: 'S')
   S sleeper (dies on SIGTERM)          I sleeper that ignores SIGTERM        H sleeper whose OnChildSpawn fails
   E / Z dead before `doCommand` returns (exit 3 / exit 0)
   F producer error   N producer returns (nil, nil)   U producer returns an unstarted command
inject : one byte per crash the harness injects once the fleet is stable (past its end: 0):
   the victim is the (b mod n)-th of the n living children, in spawn order.

The schedule is the canonical one the harness enforces with its gates: every goroutine step that is enabled runs
before the harness injects the next crash; children that honour SIGTERM die right after it.  Every move goes through
`step`, so the replayed run is an event list of the model (the theorems of Props/C39 apply to its states).
-/

structure PfSim where
  st : State
  kinds : List UInt8
  script : List UInt8
  inject : List UInt8
  calls : Nat
  readyErr : Bool
  /-- children alive (and still in `childProcs`) when the SIGTERM loop ran -/
  aliveAtTerm : Nat
  /-- TERM-ignoring children alive when the SIGTERM loop ran -/
  ignAtTerm : Nat
  stuck : Bool

def pfKind (sim : PfSim) (i : Nat) : UInt8 := sim.kinds.getD i 83

/-- first index satisfying `p` -/
def pfFind (p : Nat → Child → Bool) (kids : List Child) : Option Nat :=
  let rec go : List Child → Nat → Option Nat
    | [], _ => none
    | c :: cs, i => if p i c then some i else go cs (i + 1)
  go kids 0

def pfAlive (kids : List Child) : List Nat :=
  let rec go : List Child → Nat → List Nat
    | [], _ => []
    | c :: cs, i => if c.proc = .alive then i :: go cs (i + 1) else go cs (i + 1)
  go kids 0

def pfStep (sim : PfSim) (e : Ev) : PfSim :=
  match step sim.st e with
  | some s' => { sim with st := s' }
  | none => { sim with stuck := true }

/-- one goroutine step that is enabled without any further input, if there is one -/
def pfGoroutine (sim : PfSim) : Option Ev :=
  let s := sim.st
  match pfFind (fun _ c => c.proc = .zombie && c.w = .waiting) s.kids with
  | some i => some (.waitReturns i)
  | none =>
    if s.cancelled then
      match pfFind (fun _ c => c.w = .backoff || c.w = .sending) s.kids with
      | some i => some (.ctxDone i)
      | none => none
    else
      match pfFind (fun _ c => c.w = .backoff) s.kids with
      | some i => some (.backoffDone i)
      | none =>
        match pfFind (fun _ c => c.w = .sending) s.kids with
        | some i => if s.sigCh.length < s.G then some (.deliver i) else none
        | none => none

def pfSpawn (sim : PfSim) : PfSim :=
  let (k, rest) := match sim.script with
    | [] => ((83 : UInt8), [])
    | k :: rest => (k, rest)
  let sim := { sim with script := rest, calls := sim.calls + 1 }
  if k = 70 ∨ k = 78 ∨ k = 85 then pfStep sim .spawnFail
  else
    let idx := sim.st.kids.length
    let sim := pfStep { sim with kinds := sim.kinds ++ [k] } .spawnOk
    if k = 69 ∨ k = 90 then pfStep sim (.childExit idx) else sim

def pfLoop : Nat → PfSim → PfSim
  | 0, sim => { sim with stuck := true }
  | fuel + 1, sim =>
    if sim.stuck then sim else
    let s := sim.st
    match s.pc with
    | .returned _ => sim
    | .spawnInit _ => pfLoop fuel (pfSpawn sim)
    | .respawn _ => pfLoop fuel (pfSpawn sim)
    | .hookInit _ =>
      pfLoop fuel (pfStep sim (if pfKind sim (s.kids.length - 1) = 72 then .hookErr else .hookOk))
    | .hookRec _ =>
      pfLoop fuel (pfStep sim (if pfKind sim (s.kids.length - 1) = 72 then .hookErr else .hookOk))
    | .ready => pfLoop fuel (pfStep sim (if sim.readyErr then .readyErr else .readyOk))
    | .waiting =>
      match s.sigCh with
      | _ :: _ => pfLoop fuel (pfStep sim .recv)
      | [] =>
        match pfGoroutine sim with
        | some e => pfLoop fuel (pfStep sim e)
        | none =>
          let alive := pfAlive s.kids
          if alive.isEmpty then { sim with stuck := true }
          else
            let (b, rest) := match sim.inject with
              | [] => ((0 : UInt8), [])
              | b :: rest => (b, rest)
            let victim := alive.getD (b.toNat % alive.length) 0
            pfLoop fuel (pfStep { sim with inject := rest } (.childExit victim))
    | .shutCancel _ => pfLoop fuel (pfStep sim .cancel)
    | .shutTerm _ =>
      let alive := (pfAlive s.kids).filter fun i => match s.kids[i]? with
        | some c => !c.reported
        | none => false
      let ign := alive.filter fun i => pfKind sim i = 73
      let sim := pfStep { sim with aliveAtTerm := alive.length, ignAtTerm := ign.length } .sigterm
      -- children that honour SIGTERM die
      pfLoop fuel (alive.foldl (fun acc i => if pfKind acc i = 73 then acc else pfStep acc (.childExit i)) sim)
    | .graceWait _ =>
      match pfGoroutine sim with
      | some e => pfLoop fuel (pfStep sim e)
      | none => pfLoop fuel (pfStep sim (if allDone s then .graceDone else .graceTimeout))
    | .shutKill _ => pfLoop fuel (pfStep sim .kill)
    | .finalWait _ =>
      match pfGoroutine sim with
      | some e => pfLoop fuel (pfStep sim e)
      | none => pfLoop fuel (pfStep sim .finalDone)

def pfErrName : Err → String
  | .spawn => "spawn"
  | .hook => "hook"
  | .ready => "ready"
  | .overRecovery => "overRecovery"

def pfRender (sim : PfSim) : String :=
  if sim.stuck then "stuck"
  else match sim.st.pc with
    | .returned e =>
      let s := sim.st
      let reaped := s.kids.all fun c => c.proc = .reaped && c.w = .done
      let killed := (s.kids.filter fun c => c.killed).length
      s!"{pfErrName e} calls={sim.calls} started={s.kids.length} recovered={s.recovered} exited={s.exited} " ++
      s!"sigterm={sim.aliveAtTerm} ign={sim.ignAtTerm} grace={if s.graceFired then 1 else 0} killed={killed} " ++
      s!"reaped={if reaped then 1 else 0}"
    | _ => "stuck"

def opsPrefork (op : String) (a : List Bytes) : Option String :=
  match op, a with
  | "pfrun", [g, t, bo, re, script, inject] => do
    let g ← natOfDec? g
    let t ← natOfDec? t
    let bo ← natOfDec? bo
    let re ← natOfDec? re
    let sim : PfSim := ⟨State.init g t (bo != 0), [], script, inject, 0, re != 0, 0, 0, false⟩
    pure (pfRender (pfLoop (200 + 40 * (g + t)) sim))
  | _, _ => none
end Fh.Driver
