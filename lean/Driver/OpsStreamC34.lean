import FhVerif.Model.StreamC34
import FhVerif.Spec.Rfc9112
namespace Fh.Driver
open Fh Fh.Model Fh.Model.C34

private def cerr : CErr → String
  | .hex .eof => "hex-eof" | .hex .emptyHex => "hex-empty" | .hex .tooLarge => "hex-toolarge"
  | .brokenChunk => "broken" | .unexpectedEOF => "eof" | .tooLarge => "toolarge" | .fuel => "fuel"

private def renderAtt : Att → String
  | .none => "n" | .plain id => s!"p{id}" | .comp id => s!"c{id}"

private def renderNats (l : List Nat) : String := ",".intercalate (l.map toString)

private def parseCloseEv (b : Bytes) : Option CloseEv :=
  match b with
  | 83 :: r => (natOfDec? r).map .set          -- 'S'
  | [67] => some .compress                      -- 'C'
  | [68] => some (.detachClose false)           -- 'D'
  | [68, 33] => some (.detachClose true)        -- 'D!' the Close call returned an error
  | [80] => some .panicWrite                    -- 'P'
  | [78] => some .noop                          -- 'N'
  | 87 :: r => (natOfDec? r).map .writerFinish  -- 'W'
  | _ => none

private def runCloseEvs : CloseSt → List CloseEv → List String → List String
  | _, [], acc => acc.reverse
  | s, e :: rest, acc =>
    let s' := closeStep s e
    runCloseEvs s' rest (s!"{renderAtt s'.att}|{renderNats s'.log}|{renderNats s'.pending}" :: acc)

def opsStreamC34 (op : String) (a : List Bytes) : Option String :=
  match op, a with
  | "chunkenc", parts => some (hex (writeBodyChunked parts))
  | "chunkdec", [m, mb, s] => do
    let m ← natOfDec? m
    let mb ← natOfDec? mb
    match readBodyChunked m mb (s.length + 1) s [] with
    | .ok (body, rest) => some s!"ok {hex body} {rest.length}"
    | .error e => some s!"err {cerr e}"
  | "rfcdec", [s] =>
    match Spec.Rfc.readChunks (s.length + 1) s [] with
    | .ok body rest => some s!"ok {hex body} {rest.length}"
    | .incomplete => some "incomplete"
    | .invalid => some "invalid"
  | "fixedsize", sz :: parts => do
    let sz ← natOfDec? sz
    let r := writeBodyFixedSize parts sz
    some s!"{hex r.1} {r.2}"
  | "closesm", evs => do
    let es ← evs.mapM parseCloseEv
    some (";".intercalate (runCloseEvs {} es []))
  | _, _ => none

end Fh.Driver
