import FhVerif.Model.ByteRange
namespace Fh.Driver
open Fh Fh.Model

def brerr : BRErr → String
  | .units => "units" | .missingEq => "missingEq" | .missingDash => "missingDash" | .badInt => "badInt"
  | .emptyContent => "emptyContent" | .zeroSuffix => "zeroSuffix" | .startTooLarge => "startTooLarge" | .startAfterEnd => "startAfterEnd"

def intOfDec? (b : Bytes) : Option Int :=
  match b with
  | 45 :: r => (natOfDec? r).map (fun n => -(n : Int))
  | _ => (natOfDec? b).map (fun n => (n : Int))

def opsFs (op : String) (a : List Bytes) : Option String :=
  match op, a with
  | "byterange", [br, cl] => do
    let cl ← intOfDec? cl
    match parseByteRange 64 br cl with
    | .ok (s, e) => some s!"ok {s} {e}"
    | .error e => some s!"err {brerr e}"
  | "fsdecision", [cl, ims, range] => do
    let cl ← intOfDec? cl
    let r := fsDecision 64 cl (ims != [48]) range
    match r.slice with
    | some (s, e) => some s!"{r.status} {s} {e}"
    | none => some s!"{r.status} {if r.full then "full" else "none"}"
  | _, _ => none
end Fh.Driver
