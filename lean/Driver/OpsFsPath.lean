import FhVerif.Model.FsPath
namespace Fh.Driver
open Fh Fh.Model
namespace C23

def splitNL (b : Bytes) : List Bytes :=
  if b.isEmpty then [] else
  (b.foldr (fun c (acc : List Bytes) =>
    if c == 10 then [] :: acc
    else match acc with
      | s :: r => (c :: s) :: r
      | [] => [[c]]) [[]])

def rewriterOf (kind : Bytes) (n : Nat) : Option Rewriter :=
  if kind == ofString "none" then some .none
  else if kind == ofString "vhost" then some (.vhost n)
  else if kind == ofString "slashes" then some (.slashes n)
  else if kind == ofString "pfx" then some (.pfx n)
  else none

def fsOpName : FsOp → String
  | .open_ => "open" | .stat => "stat" | .remove => "remove" | .mkdirAll => "mkdirall"
  | .createTemp => "createtemp" | .readDir => "readdir"

def flag (b : Bytes) : Bool := b == [49]

end C23
open C23 in
def opsFsPath (op : String) (a : List Bytes) : Option String :=
  match op, a with
  | "fsstrip", [n, p] => do
    let n ← natOfDec? n
    match stripLeadingSlashes n p with
    | none => some "panic"
    | some q => some s!"ok {hex q}"
  | "fstarget", [t] => some (hex (requestPath t))
  | "fshasdotdot", [p] => some (if hasDotDot p then "1" else "0")
  | "fsp2f", [osfs, root, p] => some (hex (pathToFilePath (flag osfs) root p))
  | "fstocompressed", [root, croot, fp] =>
    some (hex (filePathToCompressed { osfs := true, root := root, croot := croot, rw := .none, suffix := [],
                                      indexNames := [], genIndex := false } fp))
  | "fsrewrite", [kind, n, host, orig] => do
    let n ← natOfDec? n
    let rw ← rewriterOf kind n
    match rewritePath rw host orig with
    | none => some "panic"
    | some q => some s!"ok {hex q}"
  | "fspath", [osfs, root, croot, kind, n, suffix, index, gen, mc, host, orig] => do
    let n ← natOfDec? n
    let rw ← rewriterOf kind n
    let cfg : FsCfg := { osfs := flag osfs, root := root, croot := croot, rw := rw, suffix := suffix,
                         indexNames := splitNL index, genIndex := flag gen }
    match handlePath cfg host orig with
    | .panic => some "panic"
    | .badRequest => some "400"
    | .dotdot => some "500"
    | .serve path fp =>
      let names := (fsNames cfg (flag mc) host orig).map fun (o, nm) => s!"{fsOpName o}:{hex nm}"
      some s!"serve {hex path} {hex fp} {",".intercalate names}"
  | _, _ => none
end Fh.Driver
