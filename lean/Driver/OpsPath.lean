import FhVerif.Model.NormPath
import FhVerif.Spec.RemoveDotSegments
namespace Fh.Driver
open Fh Fh.Model

/-- the property's right-hand side: RFC remove_dot_segments of the collapsed, decoded, slash-prefixed path -/
def normPathSpec (src : Bytes) : Bytes :=
  unsegs (Spec.removeDotSegments (segs (collapseSlashes (addLeadingSlash src ++ decodeNoPlus src))))

def opsPath (op : String) (a : List Bytes) : Option String :=
  match op, a with
  | "normpath", [p] => some (hex (normalizePath p))
  | "normpathspec", [p] => some (hex (normPathSpec p))
  | _, _ => none
end Fh.Driver
