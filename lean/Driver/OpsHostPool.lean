/-
Driver ops for C18: macro steps of the gated HostClient harness, each composed from the fine-grained events of
Model/HostPool.lean (so every macro run IS an event list of the model and the theorems of Props/C18 apply).

  hostpool <cfg> <op>*      cfg = [maxConns, waitMode, fifo]   waitMode 0: no MaxConnWaitTimeout, 1: long (per-actor
                            short request timeout), 2: short MaxConnWaitTimeout for everybody
    op = [code, n]:
    A f    a new actor calls AcquireConn (f&1: short request timeout)         (acquire, [enqueue])
    Q f    a new actor performs a request through Do                          (acquire, [enqueue])
    D d    dial number d succeeds            F d   dial number d fails        (dialOk*/dialFail*, …)
    R c    the holder of connection c calls ReleaseConn     C c   … CloseConn (release c / close c)
    S a k  the server answers the request of actor a: k=0 keep-alive (→ release), k=1 Connection: close (→ close),
           k=2 a body larger than MaxResponseBodySize (→ close), k=3 cut inside the body (→ close); [ 'S', a*4+k ]
    E c k  the next SetWriteDeadline (k=0) / SetReadDeadline (k=1) call on connection c fails; [ 'E', c*2+k ]: the
           request that gets connection c next ends in RoundTrip's error exit for that call (acquire …, close c;
           result err) — for the pool both exits are the same CloseConn
    T      virtual time passes the short timeout: every parked short waiter takes its timer branch
           (waiterTimeout, cancel)
    K      virtual time passes MaxIdleConnDuration: T, then the cleaner closes every idle connection
    I      CloseIdleConnections
    J      CloseIdleConnections on its own goroutine with slow Closes: snapshot under the lock (closeIdle), CloseConn of
           the first entry (close), then the closer is held inside that Close     U   the held Close returns, the
           closer closes the next entry of its snapshot (close) — other ops may come in between
  after each op the model is run to quiescence (enqueue, waiterReturn, decAfterFail, release of connections held
  by a dialConnFor that could not deliver) and the observable state is rendered:
      cc=<connsCount>,idle=<n>,q=<actors in connsWait, FIFO, '.'-separated>,dl=<pending dials>,ret=<actor:result,…>
  final token: z=<1 iff quiescent and connsCount = 0>

  wcq <op>*   the wantConnQueue alone: op = [code, n]: P w push (waiter w waiting), p w push (not waiting), O pop,
              C clearFront, W pop-until-waiting; renders popped ids and the shape (len(head), headPos, len(tail)).
-/
import FhVerif.Model.HostPool
import FhVerif.Base.Bytes
namespace Fh.Driver
open Fh Fh.Model.HP

inductive HpASt
  | dialing | waiting (w : Nat) | holds (c : Nat) | fin
  deriving DecidableEq

structure HpActor where
  isReq : Bool
  short : Bool
  st : HpASt

structure HpDial where
  own : Bool
  who : Nat        -- actor (own) or waiter (for)
  pending : Bool

structure HpD where
  s : State
  mode : Nat
  actors : List HpActor
  dials : List HpDial
  rets : List (Nat × String)
  wtab : List (Nat × Nat)      -- waiter index → actor (kept after the actor returned: stale queue entries)
  closing : List Nat := []     -- snapshot of a running CloseIdleConnections: connections it still has to close
  faults : List Nat := []      -- connections whose next Set*Deadline call fails

def hpSetActor (d : HpD) (a : Nat) (st : HpASt) : HpD :=
  { d with actors := match d.actors[a]? with
      | some x => d.actors.set a { x with st := st }
      | none => d.actors }

def hpRet (d : HpD) (a : Nat) (r : String) : HpD := { d with rets := d.rets ++ [(a, r)] }

def hpActorOfWaiter (d : HpD) (w : Nat) : Option Nat := (d.wtab.find? (·.1 == w)).map (·.2)

def hpHolder (d : HpD) (c : Nat) : Option Nat :=
  (List.range d.actors.length).find? fun a => match d.actors[a]? with
    | some x => x.st == .holds c
    | none => false

/-- apply a model event; a dialConnFor spawned by decConnsCount becomes a new pending dial -/
def hpStep (d : HpD) (e : Event) : Option HpD :=
  (step d.s e).map fun s' =>
    let d1 := { d with s := s' }
    if s'.forDials.length > d.s.forDials.length then
      match s'.forDials.getLast? with
      | some w => { d1 with dials := d1.dials ++ [⟨false, w, true⟩] }
      | none => d1
    else d1

/-- actor `a` obtained connection `c` -/
def hpGot (d : HpD) (a c : Nat) : HpD :=
  let d1 := hpSetActor d a (.holds c)
  match d.actors[a]? with
  | some x =>
    if x.isReq then
      if d.faults.contains c then
        -- RoundTrip fails at SetWriteDeadline / SetReadDeadline on this connection: CloseConn, the call returns the error
        match hpStep d1 (.close c) with
        | some d2 => hpRet (hpSetActor { d2 with faults := d2.faults.erase c } a .fin) a "err"
        | none => d1
      else d1
    else hpRet d1 a ("c" ++ toString c)
  | none => d1

def hpSettleOnce (d : HpD) : Option (Option HpD) :=
  -- a. queueForIdle
  match (List.range d.s.waiters.length).find? (fun w => match d.s.waiters[w]? with
      | some x => x.pc == .toEnqueue | none => false) with
  | some w => (hpStep d (.enqueue w)).map some
  | none =>
  -- b. a parked waiter whose record was answered returns
  match (List.range d.s.waiters.length).find? (fun w => match d.s.waiters[w]? with
      | some x => x.pc == .parked && (x.st.isDelivered || x.st == .failed) | none => false) with
  | some w =>
    match d.s.waiters[w]? with
    | some ⟨.delivered c, _⟩ =>
      (hpStep d (.waiterReturn w)).map fun d1 =>
        some (match hpActorOfWaiter d w with | some a => hpGot d1 a c | none => d1)
    | _ =>
      (hpStep d (.waiterReturn w)).map fun d1 =>
        some (match hpActorOfWaiter d w with | some a => hpRet (hpSetActor d1 a .fin) a "dialerr" | none => d1)
  | none =>
  -- c. the decConnsCount of a failed dialConnFor
  if d.s.failedDials > 0 then (hpStep d .decAfterFail).map some
  else
  -- d. a connection held by a goroutine that is not an actor (dialConnFor that could not deliver): ReleaseConn
  match d.s.inUse.find? (fun c => (hpHolder d c).isNone && !d.closing.contains c) with
  | some c => (hpStep d (.release c)).map some
  | none => some none

def hpSettle : Nat → HpD → Option HpD
  | 0, d => some d
  | fuel + 1, d =>
    match hpSettleOnce d with
    | none => none
    | some none => some d
    | some (some d1) => hpSettle fuel d1

def hpNewActor (d : HpD) (isReq short : Bool) : Option HpD :=
  let a := d.actors.length
  let d0 := { d with actors := d.actors ++ [⟨isReq, short, .fin⟩] }
  (hpStep d0 .acquire).map fun d1 =>
    if d1.s.inUse.length > d.s.inUse.length then
      match d1.s.inUse.getLast? with
      | some c => hpGot d1 a c
      | none => d1
    else if d1.s.ownDials > d.s.ownDials then
      { hpSetActor d1 a .dialing with dials := d1.dials ++ [⟨true, a, true⟩] }
    else if d1.s.waiters.length > d.s.waiters.length then
      { hpSetActor d1 a (.waiting d.s.waiters.length) with wtab := d1.wtab ++ [(d.s.waiters.length, a)] }
    else hpRet d1 a "nofree"

def hpMarkDial (d : HpD) (i : Nat) : HpD :=
  { d with dials := match d.dials[i]? with
      | some x => d.dials.set i { x with pending := false }
      | none => d.dials }

def hpDial (d : HpD) (i : Nat) (ok : Bool) : Option HpD :=
  match d.dials[i]? with
  | some ⟨true, a, true⟩ =>
    let c := d.s.nextConn
    if ok then (hpStep d .dialOkOwn).map fun d1 => hpGot (hpMarkDial d1 i) a c
    else (hpStep d .dialFailOwn).map fun d1 => hpRet (hpSetActor (hpMarkDial d1 i) a .fin) a "dialerr"
  | some ⟨false, w, true⟩ =>
    (hpStep d (if ok then .dialOkFor w else .dialFailFor w)).map fun d1 => hpMarkDial d1 i
  | _ => none

def hpShortWaiter (d : HpD) (x : HpActor) : Bool := d.mode == 2 || (d.mode == 1 && x.short)

def hpTimeouts (d : HpD) : Option HpD :=
  (List.range d.actors.length).foldlM (fun (d : HpD) a =>
    match d.actors[a]? with
    | some x =>
      match x.st with
      | .waiting w =>
        if hpShortWaiter d x then
          (hpStep d (.waiterTimeout w)).bind fun d1 => (hpStep d1 (.cancel w)).map fun d2 =>
            hpRet (hpSetActor d2 a .fin) a (if d.mode == 1 then "timeout" else "nofree")
        else some d
      | _ => some d
    | none => some d) d

def hpCloseIdle (d : HpD) : Option HpD :=
  let cs := d.s.idle
  (hpStep d .closeIdle).bind fun d1 => cs.foldlM (fun (d : HpD) c => hpStep d (.close c)) d1

def hpOp (d : HpD) (code : Char) (n : Nat) : Option HpD :=
  match code with
  | 'A' => hpNewActor d false (n % 2 == 1)
  | 'Q' => hpNewActor d true false
  | 'D' => hpDial d n true
  | 'F' => hpDial d n false
  | 'R' => (hpStep d (.release n)).map fun d1 =>
      match hpHolder d n with | some a => hpSetActor d1 a .fin | none => d1
  | 'C' => (hpStep d (.close n)).map fun d1 =>
      match hpHolder d n with | some a => hpSetActor d1 a .fin | none => d1
  | 'S' =>
    -- how the server answers the request of actor a = n/4: 0 keep-alive (ReleaseConn), 1 Connection: close (CloseConn),
    -- 2 a body larger than MaxResponseBodySize (ErrBodyTooLarge: CloseConn), 3 cut inside the body (read error: CloseConn)
    let a := n / 4
    let k := n % 4
    match d.actors[a]? with
    | some ⟨true, _, .holds c⟩ =>
      (hpStep d (if k == 0 then .release c else .close c)).map fun d1 =>
        hpRet (hpSetActor d1 a .fin) a (if k == 2 then "toolarge" else if k == 3 then "err" else "ok")
    | _ => none
  | 'E' => some { d with faults := (n / 2) :: d.faults }
  | 'T' => hpTimeouts d
  | 'K' => (hpTimeouts d).bind fun d1 => (hpSettle 200 d1).bind hpCloseIdle
  | 'I' => hpCloseIdle d
  | 'J' =>
    -- CloseIdleConnections with slow Closes: the lock section takes the snapshot (closeIdle), the closer calls
    -- CloseConn on the first entry (decConnsCount = `close`) and is held inside that connection's Close
    match d.s.idle with
    | [] => none
    | c :: rest => (hpStep d .closeIdle).bind fun d1 => (hpStep d1 (.close c)).map fun d2 => { d2 with closing := rest }
  | 'U' =>
    -- the held Close returns; the closer goes on with the next entry of its snapshot
    match d.closing with
    | [] => some d
    | c :: rest => (hpStep { d with closing := rest } (.close c)).map fun d1 => { d1 with closing := rest }
  | _ => none

def hpRender (d : HpD) : String :=
  let q := d.s.queue.abs.map fun w => match hpActorOfWaiter d w with
    | some a => toString a
    | none => "w" ++ toString w
  let rets := d.rets.mergeSort (fun x y => x.1 ≤ y.1)
  "cc=" ++ toString d.s.connsCount ++ ",idle=" ++ toString d.s.idle.length ++ ",q=" ++ ".".intercalate q ++
  ",dl=" ++ toString (d.dials.countP (·.pending)) ++
  ",ret=" ++ ",".intercalate (rets.map fun r => toString r.1 ++ ":" ++ r.2)

def hpIsQuiescent (s : State) : Bool :=
  s.idle.isEmpty && s.inUse.isEmpty && dialing s == 0 &&
    s.waiters.all (fun w => match w.pc with | .done _ => true | _ => false)

def hpRun : HpD → List Bytes → List String → Option (List String)
  | d, [], acc => some (acc.reverse ++ ["z=" ++ (if hpIsQuiescent d.s && d.s.connsCount == 0 then "1" else "0")])
  | d, [code, n] :: rest, acc =>
    match (hpOp { d with rets := [] } (Char.ofNat code.toNat) n.toNat).bind (hpSettle 200) with
    | some d1 => hpRun d1 rest (hpRender d1 :: acc)
    | none => some (acc.reverse ++ ["disabled"])
  | _, _, _ => none

/-! ### the queue alone -/

def wcqRun : WQ → List Nat → List Bytes → List String → Option (List String)
  | q, _, [], acc => some (acc.reverse ++ ["shape=" ++ toString q.head.length ++ "/" ++ toString q.headPos ++ "/" ++ toString q.tail.length])
  | q, live, [code, n] :: rest, acc =>
    let w := n.toNat
    let isW := fun x => live.contains x
    match Char.ofNat code.toNat with
    | 'P' => wcqRun (q.pushBack w) (w :: live) rest acc
    | 'p' => wcqRun (q.pushBack w) live rest acc
    | 'O' =>
      let r := q.popFront
      wcqRun r.2 live rest (("O:" ++ match r.1 with | some x => toString x | none => "nil") :: acc)
    | 'C' =>
      let q' := WQ.clearFront isW q.len q
      wcqRun q' live rest (("C:" ++ toString q'.len) :: acc)
    | 'W' =>
      let r := WQ.popWaiting isW q.len q
      wcqRun r.2 live rest (("W:" ++ match r.1 with | some x => toString x | none => "nil") :: acc)
    | 'L' => wcqRun q live rest (("L:" ++ toString q.len ++ ":" ++ match q.peekFront with | some x => toString x | none => "nil") :: acc)
    | 'X' => wcqRun q (live.erase w) rest acc       -- waiter w stops waiting
    | _ => none
  | _, _, _, _ => none

def opsHostPool (op : String) (a : List Bytes) : Option String :=
  match op with
  | "hostpool" =>
    match a with
    | [m, mode, fifo] :: ops =>
      (hpRun { s := init m.toNat (mode.toNat != 0) (fifo.toNat != 0), mode := mode.toNat, actors := [], dials := [], rets := [], wtab := [] } ops []).map (";".intercalate ·)
    | _ => none
  | "wcq" => (wcqRun WQ.empty [] a []).map (";".intercalate ·)
  | _ => none

end Fh.Driver
