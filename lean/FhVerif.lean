-- root of the library: imports every property file (so `lake build FhVerif` checks all theorems)
import FhVerif.Props.C32
import FhVerif.Props.C30
import FhVerif.Props.C26
import FhVerif.Props.C24
import FhVerif.Props.C28
import FhVerif.Props.C29
import FhVerif.Props.C23
import FhVerif.Props.C40
import FhVerif.Props.C33
import FhVerif.Props.C06
import FhVerif.Props.C01
import FhVerif.Props.C41
import FhVerif.Props.C13
import FhVerif.Props.C25
import FhVerif.Props.C19
import FhVerif.Props.C10
import FhVerif.Props.C09
