package main

// handover.go — ownership hand-over facts for C37 (appended to Gen/Locks.lean by genLocks).
//
// Some objects are protected by no mutex at all: a *pipelineWork is owned by exactly one goroutine at a time and changes
// owner through channels. The protocol, read off client.go:
//   caller:  w := acquirePipelineWork(); fill w; `chW <- w`  ==> the connection worker owns w
//            `<-w.done`                                        ==> the caller owns w again
//   worker:  `w = <-chW` / `w = <-chR`                         ==> the worker owns w
//            `chR <- w` (to the reader) or `w.done <- …`       ==> not the worker's any more
// While a goroutine does not own w it may only look at w.t (its own timer) and w.done (the channel it waits on).
// The lockset table cannot see this (no lock is involved); this file checks it syntactically, per function, with the same
// kind of abstract interpretation as locks.go: state per tracked variable = owned | handed over; a select clause whose
// communication is the hand-over starts handed over, `<-w.done` / `w = <-ch` gives it back; at joins "may be handed over"
// wins; loop bodies are analysed twice (second time from the joined state).
// Emitted:  handoverSites (number of hand-over points found: a refactoring that hides them from this analysis must fail the
// theorem, not pass it) and handoverRows (function, access) = every access to a handed-over work item. Theorem
// Props/C37.handover_respected: no rows, and the sites are still there.

import (
	"bytes"
	"fmt"
	"go/ast"
	"go/token"
	"path/filepath"
	"sort"
)

// types that change owner through channels, and the fields a non-owner may touch
var handoverTypes = map[string]map[string]bool{
	"pipelineWork": {"t": true, "done": true},
}

type hoRow struct{ fn, access, pos string }

type hoWalker struct {
	f     *lkFunc
	rows  []hoRow
	sites int
}

type hoState map[string]bool // variable -> handed over

func (s hoState) clone() hoState {
	o := hoState{}
	for k, v := range s {
		o[k] = v
	}
	return o
}

func hoJoin(a, b hoState) hoState {
	o := a.clone()
	for k, v := range b {
		if v {
			o[k] = true
		}
	}
	return o
}

func (h *hoWalker) tracked(id *ast.Ident) bool {
	t := h.f.typeOf(id)
	return t != nil && handoverTypes[t.name] != nil
}

func (h *hoWalker) where(n ast.Node) string {
	p := fset.Position(n.Pos())
	return fmt.Sprintf("%s:%d", filepath.Base(p.Filename), p.Line)
}

// scan reports every use of a handed-over variable inside e
func (h *hoWalker) scan(e ast.Node, st hoState) {
	if e == nil {
		return
	}
	ast.Inspect(e, func(n ast.Node) bool {
		switch x := n.(type) {
		case *ast.FuncLit:
			h.stmts(x.Body.List, st.clone())
			return false
		case *ast.SelectorExpr:
			if id, ok := x.X.(*ast.Ident); ok && h.tracked(id) {
				if st[id.Name] {
					t := h.f.typeOf(id)
					if !handoverTypes[t.name][x.Sel.Name] {
						h.rows = append(h.rows, hoRow{h.f.key, id.Name + "." + x.Sel.Name, h.where(x)})
					}
				}
				return false
			}
		case *ast.Ident:
			if st[x.Name] && h.tracked(x) {
				h.rows = append(h.rows, hoRow{h.f.key, x.Name + " (as a value)", h.where(x)})
			}
		}
		return true
	})
}

// recvOwn: `<-w.done` gives w back; returns the variable name
func (h *hoWalker) recvDone(e ast.Expr) string {
	ue, ok := e.(*ast.UnaryExpr)
	if !ok || ue.Op != token.ARROW {
		return ""
	}
	se, ok := ue.X.(*ast.SelectorExpr)
	if !ok || se.Sel.Name != "done" {
		return ""
	}
	if id, ok := se.X.(*ast.Ident); ok && h.tracked(id) {
		return id.Name
	}
	return ""
}

// comm handles one communication (statement or select clause head); returns the new state
func (h *hoWalker) comm(s ast.Stmt, st hoState) hoState {
	switch x := s.(type) {
	case *ast.SendStmt:
		// w.done <- v : the sender gives w up;  ch <- w : w is handed to the receiver
		if se, ok := x.Chan.(*ast.SelectorExpr); ok && se.Sel.Name == "done" {
			if id, ok := se.X.(*ast.Ident); ok && h.tracked(id) {
				h.scan(x.Value, st)
				if st[id.Name] {
					h.rows = append(h.rows, hoRow{h.f.key, id.Name + ".done <- (second hand-back)", h.where(x)})
				}
				h.sites++
				st = st.clone()
				st[id.Name] = true
				return st
			}
		}
		if id, ok := x.Value.(*ast.Ident); ok && h.tracked(id) {
			h.scan(x.Chan, st)
			if st[id.Name] {
				h.rows = append(h.rows, hoRow{h.f.key, id.Name + " sent while handed over", h.where(x)})
			}
			h.sites++
			st = st.clone()
			st[id.Name] = true
			return st
		}
		h.scan(x.Chan, st)
		h.scan(x.Value, st)
		return st
	case *ast.ExprStmt:
		if v := h.recvDone(x.X); v != "" {
			h.sites++
			st = st.clone()
			st[v] = false
			return st
		}
		h.scan(x.X, st)
		return st
	case *ast.AssignStmt:
		// w = <-ch / w := <-ch : ownership received
		if len(x.Lhs) >= 1 && len(x.Rhs) == 1 {
			if ue, ok := x.Rhs[0].(*ast.UnaryExpr); ok && ue.Op == token.ARROW {
				h.scan(ue.X, st)
				h.f.declare(x)
				if id, ok := x.Lhs[0].(*ast.Ident); ok {
					if t := h.f.typeOf(ue); t != nil && handoverTypes[t.name] != nil {
						if x.Tok != token.DEFINE && h.f.env[id.Name] == nil {
							h.f.bind(id.Name, t, false)
						}
						h.sites++
						st = st.clone()
						st[id.Name] = false
						return st
					}
				}
				return st
			}
		}
		for _, r := range x.Rhs {
			h.scan(r, st)
		}
		for _, l := range x.Lhs {
			// assigning a NEW value to the variable itself is not an access to the old object
			if id, ok := l.(*ast.Ident); ok && h.tracked(id) {
				st = st.clone()
				st[id.Name] = false
				continue
			}
			h.scan(l, st)
		}
		h.f.declare(x)
		return st
	}
	return st
}

func (h *hoWalker) stmts(list []ast.Stmt, st hoState) (hoState, bool) {
	for _, s := range list {
		var term bool
		st, term = h.stmt(s, st)
		if term {
			return st, true
		}
	}
	return st, false
}

func (h *hoWalker) stmt(s ast.Stmt, st hoState) (hoState, bool) {
	if s == nil {
		return st, false
	}
	switch x := s.(type) {
	case *ast.BlockStmt:
		return h.stmts(x.List, st)
	case *ast.SendStmt, *ast.ExprStmt, *ast.AssignStmt:
		st = h.comm(s, st)
		return st, isTerminating(s)
	case *ast.DeclStmt:
		h.scan(x, st)
		h.f.declare(x)
		return st, false
	case *ast.IncDecStmt:
		h.scan(x.X, st)
		return st, false
	case *ast.ReturnStmt:
		for _, r := range x.Results {
			h.scan(r, st)
		}
		return st, true
	case *ast.BranchStmt:
		return st, true
	case *ast.LabeledStmt:
		return h.stmt(x.Stmt, st)
	case *ast.DeferStmt:
		h.scan(x.Call, st)
		return st, false
	case *ast.GoStmt:
		h.scan(x.Call, st)
		return st, false
	case *ast.IfStmt:
		st, _ = h.stmt(x.Init, st)
		h.scan(x.Cond, st)
		s1, t1 := h.stmts(x.Body.List, st.clone())
		s2, t2 := st.clone(), false
		if x.Else != nil {
			s2, t2 = h.stmt(x.Else, st.clone())
		}
		switch {
		case t1 && t2:
			return st, true
		case t1:
			return s2, false
		case t2:
			return s1, false
		}
		return hoJoin(s1, s2), false
	case *ast.ForStmt:
		st, _ = h.stmt(x.Init, st)
		h.scan(x.Cond, st)
		out, _ := h.stmts(x.Body.List, st.clone())
		if x.Post != nil {
			out, _ = h.stmt(x.Post, out)
		}
		// second pass from the joined state: accesses at the top of the next iteration
		j := hoJoin(st, out)
		n := len(h.rows)
		sites := h.sites
		out2, _ := h.stmts(x.Body.List, j.clone())
		h.sites = sites // the sites of the body were counted once
		h.rows = dedupRows(h.rows, n)
		return hoJoin(j, out2), false
	case *ast.RangeStmt:
		h.scan(x.X, st)
		h.f.declare(x)
		out, _ := h.stmts(x.Body.List, st.clone())
		j := hoJoin(st, out)
		n := len(h.rows)
		sites := h.sites
		out2, _ := h.stmts(x.Body.List, j.clone())
		h.sites = sites
		h.rows = dedupRows(h.rows, n)
		return hoJoin(j, out2), false
	case *ast.SwitchStmt:
		st, _ = h.stmt(x.Init, st)
		h.scan(x.Tag, st)
		return h.clauses(x.Body.List, st, true), false
	case *ast.TypeSwitchStmt:
		st, _ = h.stmt(x.Init, st)
		h.scan(x.Assign, st)
		return h.clauses(x.Body.List, st, true), false
	case *ast.SelectStmt:
		var out hoState
		any := false
		for _, c := range x.Body.List {
			cc, ok := c.(*ast.CommClause)
			if !ok {
				continue
			}
			cs := st.clone()
			if cc.Comm != nil {
				cs = h.comm(cc.Comm, cs)
			}
			cs, t := h.stmts(cc.Body, cs)
			if !t {
				if !any {
					out, any = cs, true
				} else {
					out = hoJoin(out, cs)
				}
			}
		}
		if !any {
			return st, true // every clause leaves the function / loop iteration
		}
		return out, false
	default:
		h.scan(s, st)
	}
	return st, false
}

func (h *hoWalker) clauses(list []ast.Stmt, st hoState, mayFallThrough bool) hoState {
	out := st.clone()
	for _, c := range list {
		cc, ok := c.(*ast.CaseClause)
		if !ok {
			continue
		}
		for _, e := range cc.List {
			h.scan(e, st)
		}
		cs, t := h.stmts(cc.Body, st.clone())
		if !t {
			out = hoJoin(out, cs)
		}
	}
	return out
}

// dedupRows drops rows appended since index n that repeat an earlier row (second loop pass)
func dedupRows(rows []hoRow, n int) []hoRow {
	seen := map[hoRow]bool{}
	for _, r := range rows[:n] {
		seen[r] = true
	}
	out := rows[:n]
	for _, r := range rows[n:] {
		if !seen[r] {
			seen[r] = true
			out = append(out, r)
		}
	}
	return out
}

// genHandover analyses every function of the package and renders the Lean definitions
func genHandover(a *lkAnalysis) string {
	var b bytes.Buffer
	var rows []hoRow
	sites := 0
	note := ""
	func() {
		defer func() {
			if r := recover(); r != nil {
				note = fmt.Sprintf("-- MISSING: hand-over analysis panic: %v\n", r)
				sites = 0
			}
		}()
		for _, fd := range a.lp.funcs {
			f := &lkFunc{a: a, fd: fd, env: map[string]*lkType{}, fresh: map[string]bool{}, parents: map[ast.Node]ast.Node{},
				deferred: lockset{}, file: a.lp.fileOf[fd]}
			f.key = fd.Name.Name
			if r := recvTypeName(fd); r != "" {
				f.key = r + "." + f.key
				if len(fd.Recv.List[0].Names) == 1 {
					f.env[fd.Recv.List[0].Names[0].Name] = &lkType{name: r}
				}
			}
			if fd.Type.Params != nil {
				for _, p := range fd.Type.Params.List {
					for _, id := range p.Names {
						f.env[id.Name] = typeOfExprAST(p.Type)
					}
				}
			}
			if fd.Type.Results != nil {
				for _, p := range fd.Type.Results.List {
					for _, id := range p.Names {
						f.env[id.Name] = typeOfExprAST(p.Type)
					}
				}
			}
			h := &hoWalker{f: f}
			h.stmts(fd.Body.List, hoState{})
			rows = append(rows, h.rows...)
			sites += h.sites
		}
	}()
	sort.SliceStable(rows, func(i, j int) bool { return rows[i].fn < rows[j].fn })
	b.WriteString("\n/-! ownership hand-over of *pipelineWork through channels (extract/handover.go) -/\n")
	b.WriteString(note)
	fmt.Fprintf(&b, "/-- hand-over points found (`ch <- w`, `w.done <- …`, `<-w.done`, `w = <-ch`) -/\ndef handoverSites : Nat := %d\n\n", sites)
	b.WriteString("/-- (function, access): accesses to a work item while another goroutine owns it -/\n")
	b.WriteString("def handoverRows : List (String × String) := [\n")
	for i, r := range rows {
		sep := ","
		if i == len(rows)-1 {
			sep = ""
		}
		fmt.Fprintf(&b, "  (%s, %s)%s   -- %s\n", leanStr(r.fn), leanStr(r.access), sep, r.pos)
	}
	b.WriteString("]\n")
	return b.String()
}
