package main

// Facts for C22 (compression / stackless queue) — written to Gen/Compress.lean.
//   stacklessQueueFactor      the literal k in `make(chan *funcWork, runtime.GOMAXPROCS(-1)*k)` of stackless.NewFunc
//   stacklessSites            per call site stacklessWrite{Gzip,Deflate,Brotli,Zstd}: is the boolean returned by the
//                             NewFunc wrapper used, and does the site call nonblockingWrite<X> itself (inline fallback)
//   stacklessWriterDoInline   does stackless/writer.go (*writer).do call writerFunc itself when the queue is full
//   compressibleTypePrefixes  the byte strings isCompressibleContentType tests with bytes.HasPrefix
//   compressHandlerOrder / compressHandlerBrotliOrder   the str* names tested, in order, by the two handler wrappers

import (
	"bytes"
	"fmt"
	"go/ast"
	"go/token"
	"path/filepath"
	"strconv"
)

func callIsStmt(fd *ast.FuncDecl, callee string) (found, usedResult bool) {
	if fd == nil || fd.Body == nil {
		return false, false
	}
	ast.Inspect(fd.Body, func(n ast.Node) bool {
		switch x := n.(type) {
		case *ast.ExprStmt:
			if ce, ok := x.X.(*ast.CallExpr); ok {
				if id, ok := ce.Fun.(*ast.Ident); ok && id.Name == callee {
					found = true
					return false
				}
			}
		case *ast.CallExpr:
			if id, ok := x.Fun.(*ast.Ident); ok && id.Name == callee {
				found, usedResult = true, true
			}
		}
		return true
	})
	return
}

func containsStr(xs []string, s string) bool {
	for _, x := range xs {
		if x == s {
			return true
		}
	}
	return false
}

// switchCaseArgs lists, in order, the identifier passed to `method` in the case clauses of the first switch of fd's
// returned func literal.
func switchCaseArgs(fd *ast.FuncDecl, method string) []string {
	var out []string
	if fd == nil {
		return nil
	}
	ast.Inspect(fd.Body, func(n ast.Node) bool {
		cc, ok := n.(*ast.CaseClause)
		if !ok {
			return true
		}
		for _, e := range cc.List {
			if ce, ok := e.(*ast.CallExpr); ok {
				if se, ok := ce.Fun.(*ast.SelectorExpr); ok && se.Sel.Name == method && len(ce.Args) == 1 {
					if id, ok := ce.Args[0].(*ast.Ident); ok {
						out = append(out, id.Name)
					}
				}
			}
		}
		return true
	})
	return out
}

// readBeforeErr reports whether the `for` loop of fd consumes the bytes a Read returned (an `if <n> > 0` statement)
// BEFORE it looks at the error (`if <err> != nil`): the io.Reader contract.
func readBeforeErr(fd *ast.FuncDecl) bool {
	if fd == nil || fd.Body == nil {
		return false
	}
	ok := false
	ast.Inspect(fd.Body, func(n ast.Node) bool {
		fs, isFor := n.(*ast.ForStmt)
		if !isFor {
			return true
		}
		nVar, eVar := "", ""
		posN, posE := -1, -1
		for i, st := range fs.Body.List {
			switch x := st.(type) {
			case *ast.AssignStmt:
				if len(x.Lhs) == 2 && len(x.Rhs) == 1 {
					if ce, isCall := x.Rhs[0].(*ast.CallExpr); isCall {
						if se, isSel := ce.Fun.(*ast.SelectorExpr); isSel && se.Sel.Name == "Read" {
							if a, ok1 := x.Lhs[0].(*ast.Ident); ok1 {
								nVar = a.Name
							}
							if b, ok2 := x.Lhs[1].(*ast.Ident); ok2 {
								eVar = b.Name
							}
						}
					}
				}
			case *ast.IfStmt:
				be, isBin := x.Cond.(*ast.BinaryExpr)
				if !isBin {
					continue
				}
				id, isID := be.X.(*ast.Ident)
				if !isID {
					continue
				}
				if id.Name == nVar && be.Op == token.GTR && posN < 0 {
					posN = i
				}
				if id.Name == eVar && be.Op == token.NEQ && posE < 0 {
					posE = i
				}
			}
		}
		if nVar != "" && posN >= 0 && posE >= 0 && posN < posE {
			ok = true
		}
		return false
	})
	return ok
}

// callsMethod reports whether fd calls a method named `name` on anything.
func callsMethod(fd *ast.FuncDecl, name string) bool {
	found := false
	if fd == nil || fd.Body == nil {
		return false
	}
	ast.Inspect(fd.Body, func(n ast.Node) bool {
		if ce, ok := n.(*ast.CallExpr); ok {
			if se, ok := ce.Fun.(*ast.SelectorExpr); ok && se.Sel.Name == name {
				found = true
			}
		}
		return true
	})
	return found
}

func countCalls(fd *ast.FuncDecl, name string) (n int, loops int) {
	if fd == nil || fd.Body == nil {
		return 0, 0
	}
	ast.Inspect(fd.Body, func(x ast.Node) bool {
		switch v := x.(type) {
		case *ast.CallExpr:
			if id, ok := v.Fun.(*ast.Ident); ok && id.Name == name {
				n++
			}
		case *ast.ForStmt, *ast.RangeStmt:
			loops++
		}
		return true
	})
	return
}

// assignsNil reports whether fd contains `<x>.<field> = nil`.
func assignsNil(fd *ast.FuncDecl, field string) bool {
	found := false
	if fd == nil || fd.Body == nil {
		return false
	}
	ast.Inspect(fd.Body, func(x ast.Node) bool {
		as, ok := x.(*ast.AssignStmt)
		if !ok || len(as.Lhs) != 1 || len(as.Rhs) != 1 {
			return true
		}
		se, ok1 := as.Lhs[0].(*ast.SelectorExpr)
		id, ok2 := as.Rhs[0].(*ast.Ident)
		if ok1 && ok2 && se.Sel.Name == field && id.Name == "nil" {
			found = true
		}
		return true
	})
	return found
}

// methodsCalledOn lists the method names fd calls on the identifier `recv`.
func methodsCalledOn(fd *ast.FuncDecl, recv string) []string {
	var out []string
	if fd == nil || fd.Body == nil {
		return nil
	}
	ast.Inspect(fd.Body, func(x ast.Node) bool {
		if ce, ok := x.(*ast.CallExpr); ok {
			if se, ok := ce.Fun.(*ast.SelectorExpr); ok {
				if id, ok := se.X.(*ast.Ident); ok && id.Name == recv {
					out = append(out, se.Sel.Name)
				}
			}
		}
		return true
	})
	return out
}

// genC34 writes Gen/StreamC34.lean: structure of the WriteTo-based chunk framing.
func genC34(root *pkgInfo, out string) {
	var b bytes.Buffer
	b.WriteString("-- GENERATED by fhextract from /repo/http.go; do not edit.\nnamespace Fh.Gen\n\n")
	fd := root.funcDecl("chunkedBodyWriter", "Write")
	n, loops := countCalls(fd, "writeChunk")
	fmt.Fprintf(&b, "/-- (*chunkedBodyWriter).Write: number of writeChunk call sites, number of loops (one write = one chunk) -/\ndef cbwWriteChunkCalls : Nat := %d\ndef cbwLoops : Nat := %d\n\n", n, loops)
	b.WriteString("end Fh.Gen\n")
	writeIfChanged(filepath.Join(out, "StreamC34.lean"), b.Bytes())
}

func genC22(repo string, root *pkgInfo, out string) {
	var b bytes.Buffer
	b.WriteString("-- GENERATED by fhextract from /repo (compress.go, brotli.go, zstd.go, header.go, server.go, stackless/); do not edit.\nnamespace Fh.Gen\n\n")
	sl := parseDir(filepath.Join(repo, "stackless"))
	factor := 0
	if fd := sl.funcDecl("", "NewFunc"); fd != nil {
		ast.Inspect(fd.Body, func(n ast.Node) bool {
			ce, ok := n.(*ast.CallExpr)
			if !ok {
				return true
			}
			if id, ok := ce.Fun.(*ast.Ident); !ok || id.Name != "make" || len(ce.Args) != 2 {
				return true
			}
			if be, ok := ce.Args[1].(*ast.BinaryExpr); ok && be.Op == token.MUL {
				if bl, ok := be.Y.(*ast.BasicLit); ok && bl.Kind == token.INT {
					factor, _ = strconv.Atoi(bl.Value)
				}
			}
			return true
		})
	}
	fmt.Fprintf(&b, "/-- stackless.NewFunc: queue capacity = GOMAXPROCS * this (0 = not found) -/\ndef stacklessQueueFactor : Nat := %d\n\n", factor)
	b.WriteString("/-- (call site, result of the NewFunc wrapper is used, the site runs nonblockingWrite<X> itself) -/\ndef stacklessSites : List (String × Bool × Bool) := [")
	all := true
	for i, x := range []string{"Gzip", "Deflate", "Brotli", "Zstd"} {
		fd := root.funcDecl("", "stacklessWrite"+x)
		found, used := callIsStmt(fd, "stacklessWrite"+x+"Func")
		inline := found && used && containsStr(calledFuncs(fd), "nonblockingWrite"+x)
		all = all && inline
		if i > 0 {
			b.WriteString(", ")
		}
		fmt.Fprintf(&b, "(%q, %v, %v)", "stacklessWrite"+x, found && used, inline)
	}
	b.WriteString("]\n\n")
	doFd := sl.funcDecl("writer", "do")
	_, doUsed := callIsStmt(doFd, "stacklessWriterFunc")
	doInline := doUsed && containsStr(calledFuncs(doFd), "writerFunc")
	fmt.Fprintf(&b, "/-- stackless (*writer).do runs writerFunc itself when the queue is full -/\ndef stacklessWriterDoInline : Bool := %v\n\n", doInline)
	// the queue-full branch of (*writer).do is the single statement `writerFunc(w)`: it does not depend on the operation
	// (Write, Flush, Close and Reset all fall back the same way)
	uniform := false
	if doFd != nil && doFd.Body != nil {
		ast.Inspect(doFd.Body, func(n ast.Node) bool {
			is, ok := n.(*ast.IfStmt)
			if !ok {
				return true
			}
			ue, ok := is.Cond.(*ast.UnaryExpr)
			if !ok || ue.Op != token.NOT {
				return true
			}
			ce, ok := ue.X.(*ast.CallExpr)
			if !ok {
				return true
			}
			if id, ok := ce.Fun.(*ast.Ident); !ok || id.Name != "stacklessWriterFunc" {
				return true
			}
			if len(is.Body.List) == 1 && is.Else == nil {
				if es, ok := is.Body.List[0].(*ast.ExprStmt); ok {
					if c2, ok := es.X.(*ast.CallExpr); ok {
						if id, ok := c2.Fun.(*ast.Ident); ok && id.Name == "writerFunc" {
							uniform = true
						}
					}
				}
			}
			return false
		})
	}
	// the staging buffer (w.xw) is emptied after EVERY operation, also when the destination write fails (no return between
	// the dstW.Write and xw.Reset()), and again when the writer is re-targeted (Reset)
	stagingAlways, resetClears := false, false
	isXwReset := func(st ast.Stmt) bool {
		es, ok := st.(*ast.ExprStmt)
		if !ok {
			return false
		}
		ce, ok := es.X.(*ast.CallExpr)
		if !ok {
			return false
		}
		se, ok := ce.Fun.(*ast.SelectorExpr)
		if !ok || se.Sel.Name != "Reset" {
			return false
		}
		inner, ok := se.X.(*ast.SelectorExpr)
		return ok && inner.Sel.Name == "xw"
	}
	if doFd != nil && doFd.Body != nil {
		for i, st := range doFd.Body.List {
			is, ok := st.(*ast.IfStmt)
			if !ok {
				continue
			}
			writes, returns := false, false
			ast.Inspect(is, func(n ast.Node) bool {
				switch x := n.(type) {
				case *ast.CallExpr:
					if se, ok := x.Fun.(*ast.SelectorExpr); ok && se.Sel.Name == "Write" {
						if in, ok := se.X.(*ast.SelectorExpr); ok && in.Sel.Name == "dstW" {
							writes = true
						}
					}
				case *ast.ReturnStmt:
					returns = true
				}
				return true
			})
			if writes && !returns {
				for _, later := range doFd.Body.List[i+1:] {
					if isXwReset(later) {
						stagingAlways = true
					}
				}
			}
		}
	}
	if rfd := sl.funcDecl("writer", "Reset"); rfd != nil && rfd.Body != nil {
		for _, st := range rfd.Body.List {
			if isXwReset(st) {
				resetClears = true
			}
		}
	}
	fmt.Fprintf(&b, "/-- (*writer).do empties the staging buffer after the destination write whether or not that write failed; (*writer).Reset empties it too -/\ndef stacklessDoAlwaysClearsStaging : Bool := %v\ndef stacklessResetClearsStaging : Bool := %v\n\n", stagingAlways, resetClears)
	fmt.Fprintf(&b, "/-- the queue-full branch of (*writer).do is exactly `writerFunc(w)`, whatever the operation -/\ndef stacklessWriterDoUniform : Bool := %v\n\n", uniform)
	fmt.Fprintf(&b, "/-- every user of the stackless queue falls back to running the job inline when the queue is full -/\ndef stacklessInlineOnFull : Bool := %v\n\n", all && doInline)

	b.WriteString("/-- prefixes tested by (*ResponseHeader).isCompressibleContentType -/\ndef compressibleTypePrefixes : List (List UInt8) := [")
	first := true
	if fd := root.funcDecl("ResponseHeader", "isCompressibleContentType"); fd != nil {
		ast.Inspect(fd.Body, func(n ast.Node) bool {
			ce, ok := n.(*ast.CallExpr)
			if !ok {
				return true
			}
			if se, ok := ce.Fun.(*ast.SelectorExpr); ok && se.Sel.Name == "HasPrefix" && len(ce.Args) == 2 {
				if id, ok := ce.Args[1].(*ast.Ident); ok {
					if e, _ := root.lookup(id.Name, "strings.go"); e != nil {
						if s, ok := stringLit(e); ok {
							if !first {
								b.WriteString(", ")
							}
							first = false
							b.WriteString(leanBytes(s))
						}
					}
				}
			}
			return true
		})
	}
	b.WriteString("]\n\n")
	fmt.Fprintf(&b, "def compressHandlerOrder : List String := %s\n\n", leanStrList(switchCaseArgs(root.funcDecl("", "CompressHandlerLevel"), "HasAcceptEncodingBytes")))
	fmt.Fprintf(&b, "def compressHandlerBrotliOrder : List String := %s\n\n", leanStrList(switchCaseArgs(root.funcDecl("", "CompressHandlerBrotliLevel"), "HasAcceptEncodingBytes")))
	// streamed bodies: every compress*BodyStream copies through copyBodyStream (no Read loop of its own), and the loop
	// behind copyBodyStream (copyBuffer) consumes the n > 0 bytes of a Read before it looks at the error
	b.WriteString("/-- (function, calls copyBodyStream, plain functions it calls, calls a .Read method itself) -/\ndef compressStreamCopies : List (String × Bool × List String × Bool) := [")
	for i, x := range []string{"Gzip", "Deflate", "Brotli", "Zstd"} {
		fd := root.funcDecl("", "compress"+x+"BodyStream")
		cf := calledFuncs(fd)
		if i > 0 {
			b.WriteString(", ")
		}
		fmt.Fprintf(&b, "(%q, %v, %s, %v)", "compress"+x+"BodyStream", containsStr(cf, "copyBodyStream"), leanStrList(cf), callsMethod(fd, "Read"))
	}
	b.WriteString("]\n\n")
	fmt.Fprintf(&b, "/-- copyBuffer's loop handles `nr > 0` before `er != nil` -/\ndef copyBufferReadBeforeErr : Bool := %v\n\n", readBeforeErr(root.funcDecl("", "copyBuffer")))
	fmt.Fprintf(&b, "/-- plain functions called by copyBodyStream / copyZeroAlloc -/\ndef calls_copyBodyStream : List String := %s\ndef calls_copyZeroAlloc : List String := %s\n\n",
		leanStrList(calledFuncs(root.funcDecl("", "copyBodyStream"))), leanStrList(calledFuncs(root.funcDecl("", "copyZeroAlloc"))))
	// buffered bodies: after the body was replaced by its compressed form, bodyRaw must be cleared (bodyBytes() prefers it):
	// in the *Body function itself or in a Response method it calls
	b.WriteString("/-- (function, clears resp.bodyRaw after swapping in the compressed buffer) -/\ndef compressBodyClearsRaw : List (String × Bool) := [")
	for i, x := range []string{"gzipBody", "deflateBody", "brotliBody", "zstdBody"} {
		fd := root.funcDecl("Response", x)
		ok := assignsNil(fd, "bodyRaw")
		for _, m := range methodsCalledOn(fd, "resp") {
			if m != "bodyBytes" && assignsNil(root.funcDecl("Response", m), "bodyRaw") {
				ok = true
			}
		}
		if i > 0 {
			b.WriteString(", ")
		}
		fmt.Fprintf(&b, "(%q, %v)", x, ok)
	}
	b.WriteString("]\n\n")
	genC34(root, out)
	b.WriteString("end Fh.Gen\n")
	writeIfChanged(filepath.Join(out, "Compress.lean"), b.Bytes())
}
