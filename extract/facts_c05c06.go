package main

// Call facts for C05 (every setter family reaches the CR/LF sanitiser) and C06 (cookie setters reach removeSemicolons).
// Regenerated into lean/FhVerif/Gen/Facts.lean on every run; Props/C05.lean and Props/C06.lean decide over them.
func init() {
	callFacts = append(callFacts,
		// the sanitising chain itself
		callFact{"calls_initHeaderValueBytes", "", "initHeaderValueBytes"},
		callFact{"calls_initHeaderValueString", "", "initHeaderValueString"},
		callFact{"calls_initHeaderKV", "", "initHeaderKV"},
		callFact{"calls_getHeaderKeyBytes", "", "getHeaderKeyBytes"},
		callFact{"calls_normalizeHeaderKey", "", "normalizeHeaderKey"},
		// RequestHeader
		callFact{"calls_RequestHeader_SetHost", "RequestHeader", "SetHost"},
		callFact{"calls_RequestHeader_SetHostBytes", "RequestHeader", "SetHostBytes"},
		callFact{"calls_RequestHeader_SetUserAgent", "RequestHeader", "SetUserAgent"},
		callFact{"calls_RequestHeader_SetUserAgentBytes", "RequestHeader", "SetUserAgentBytes"},
		callFact{"calls_RequestHeader_SetMethod", "RequestHeader", "SetMethod"},
		callFact{"calls_RequestHeader_SetMethodBytes", "RequestHeader", "SetMethodBytes"},
		callFact{"calls_RequestHeader_SetRequestURI", "RequestHeader", "SetRequestURI"},
		callFact{"calls_RequestHeader_SetRequestURIBytes", "RequestHeader", "SetRequestURIBytes"},
		callFact{"calls_RequestHeader_SetProtocol", "RequestHeader", "SetProtocol"},
		callFact{"calls_RequestHeader_SetProtocolBytes", "RequestHeader", "SetProtocolBytes"},
		callFact{"calls_RequestHeader_SetRefererBytes", "RequestHeader", "SetRefererBytes"},
		callFact{"calls_RequestHeader_SetContentEncodingBytes", "RequestHeader", "SetContentEncodingBytes"},
		callFact{"calls_RequestHeader_SetCanonical", "RequestHeader", "SetCanonical"},
		callFact{"calls_RequestHeader_Set", "RequestHeader", "Set"},
		callFact{"calls_RequestHeader_SetBytesKV", "RequestHeader", "SetBytesKV"},
		callFact{"calls_RequestHeader_SetBytesV", "RequestHeader", "SetBytesV"},
		callFact{"calls_RequestHeader_AddBytesKV", "RequestHeader", "AddBytesKV"},
		callFact{"calls_RequestHeader_SetCookie", "RequestHeader", "SetCookie"},
		// shared header part
		callFact{"calls_header_SetContentType", "header", "SetContentType"},
		callFact{"calls_header_SetContentTypeBytes", "header", "SetContentTypeBytes"},
		// ResponseHeader
		callFact{"calls_ResponseHeader_SetStatusMessage", "ResponseHeader", "SetStatusMessage"},
		callFact{"calls_ResponseHeader_SetProtocol", "ResponseHeader", "SetProtocol"},
		callFact{"calls_ResponseHeader_SetServer", "ResponseHeader", "SetServer"},
		callFact{"calls_ResponseHeader_SetServerBytes", "ResponseHeader", "SetServerBytes"},
		callFact{"calls_ResponseHeader_SetContentEncoding", "ResponseHeader", "SetContentEncoding"},
		callFact{"calls_ResponseHeader_SetContentEncodingBytes", "ResponseHeader", "SetContentEncodingBytes"},
		callFact{"calls_ResponseHeader_SetCanonical", "ResponseHeader", "SetCanonical"},
		callFact{"calls_ResponseHeader_Set", "ResponseHeader", "Set"},
		callFact{"calls_ResponseHeader_SetBytesKV", "ResponseHeader", "SetBytesKV"},
		callFact{"calls_ResponseHeader_SetBytesV", "ResponseHeader", "SetBytesV"},
		callFact{"calls_ResponseHeader_AddBytesKV", "ResponseHeader", "AddBytesKV"},
		callFact{"calls_ResponseHeader_SetCookie", "ResponseHeader", "SetCookie"},
		// Cookie
		callFact{"calls_Cookie_SetKey", "Cookie", "SetKey"},
		callFact{"calls_Cookie_SetKeyBytes", "Cookie", "SetKeyBytes"},
		callFact{"calls_Cookie_SetValue", "Cookie", "SetValue"},
		callFact{"calls_Cookie_SetValueBytes", "Cookie", "SetValueBytes"},
		callFact{"calls_Cookie_SetDomain", "Cookie", "SetDomain"},
		callFact{"calls_Cookie_SetDomainBytes", "Cookie", "SetDomainBytes"},
		callFact{"calls_Cookie_SetPath", "Cookie", "SetPath"},
		callFact{"calls_Cookie_SetPathBytes", "Cookie", "SetPathBytes"},
	)
}
