package main

// pool_c18.go — control skeletons of the HostClient pool hand-off functions (Gen/PoolShape.lean, property C18).
//
// The Lean transition system of C18 treats `ReleaseConn`'s loop "pop a waiter; if it still waits, tryDeliver; go on
// with the next waiter if the delivery failed; put the connection into the idle list if nobody took it" as ONE event,
// which is sound only for exactly that loop shape (Props/C18 `release_loop_linearises`: a cancel that slips in between
// `w.waiting()` and `w.tryDeliver` is the same as that cancel happening before the release). The window between the
// two calls is a few nanoseconds wide, so no run will reliably tell a loop that drops the connection there from one
// that does not; the shape is therefore recomputed from the source on every run and pinned by a theorem.
//
// For each function the query emits its skeleton: one token per interesting action, prefixed by the conditions that
// guard it (`if`/`else` conditions and `for` conditions, outermost first, separated by " | ").
// Interesting actions: calls of tryDeliver (result used / dropped), ReleaseConn, decConnsCount, dialConnFor (go),
// close(...), appends to c.conns, c.connsCount++/--, break, return inside a guard.
// Anything unexpected yields a `-- MISSING` comment, so the dependent theorem stops compiling.

import (
	"bytes"
	"fmt"
	"go/ast"
	"go/printer"
	"go/token"
	"path/filepath"
	"strings"
)

type poolSkel struct {
	fset   *token.FileSet
	tokens []string
	idle   bool // also note connsLock Lock/Unlock, copies / aliases / truncations of c.conns, range loops (CloseIdleConnections)
}

func (s *poolSkel) expr(e ast.Node) string {
	var b bytes.Buffer
	printer.Fprint(&b, s.fset, e)
	return strings.Join(strings.Fields(b.String()), " ")
}

func (s *poolSkel) emit(guards []string, action string) {
	if len(guards) == 0 {
		s.tokens = append(s.tokens, action)
		return
	}
	s.tokens = append(s.tokens, strings.Join(guards, " | ")+" => "+action)
}

// callName returns the selector / identifier name of a call.
func callName(ce *ast.CallExpr) string {
	switch f := ce.Fun.(type) {
	case *ast.Ident:
		return f.Name
	case *ast.SelectorExpr:
		return f.Sel.Name
	}
	return ""
}

var poolCalls = map[string]bool{"tryDeliver": true, "ReleaseConn": true, "decConnsCount": true, "dialConnFor": true, "close": true}

// calls notes the interesting calls inside e; used tells whether the value of e is consumed.
func (s *poolSkel) calls(guards []string, e ast.Node, used bool) {
	if e == nil {
		return
	}
	ast.Inspect(e, func(n ast.Node) bool {
		if _, ok := n.(*ast.FuncLit); ok {
			return false
		}
		if ce, ok := n.(*ast.CallExpr); ok {
			if name := callName(ce); poolCalls[name] {
				tok := name
				if name == "tryDeliver" {
					if used {
						tok += ":result-used"
					} else {
						tok += ":result-dropped"
					}
				}
				s.emit(guards, tok)
			}
		}
		return true
	})
}

func (s *poolSkel) block(guards []string, stmts []ast.Stmt) {
	for _, st := range stmts {
		s.stmt(guards, st)
	}
}

func with(guards []string, g string) []string {
	return append(append([]string(nil), guards...), g)
}

func (s *poolSkel) stmt(guards []string, st ast.Stmt) {
	switch x := st.(type) {
	case nil:
	case *ast.ExprStmt:
		if s.idle {
			if ce, ok := x.X.(*ast.CallExpr); ok {
				if sel, ok := ce.Fun.(*ast.SelectorExpr); ok && (sel.Sel.Name == "Lock" || sel.Sel.Name == "Unlock") && strings.HasSuffix(s.expr(sel.X), ".connsLock") {
					s.emit(guards, strings.ToLower(sel.Sel.Name))
				}
				if callName(ce) == "CloseConn" {
					s.emit(guards, "CloseConn")
				}
			}
		}
		s.calls(guards, x.X, false)
	case *ast.GoStmt:
		if name := callName(x.Call); poolCalls[name] {
			s.emit(guards, "go "+name)
		}
	case *ast.DeferStmt:
		s.calls(guards, x.Call, false)
	case *ast.AssignStmt:
		for _, r := range x.Rhs {
			s.calls(guards, r, true)
		}
		for i, l := range x.Lhs {
			if sel, ok := l.(*ast.SelectorExpr); ok && sel.Sel.Name == "conns" && i < len(x.Rhs) {
				if ce, ok := x.Rhs[i].(*ast.CallExpr); ok && callName(ce) == "append" {
					s.emit(guards, "append c.conns")
				} else if s.idle {
					s.emit(guards, "c.conns = "+s.expr(x.Rhs[i]))
				}
			}
			if id, ok := l.(*ast.Ident); ok && s.idle && i < len(x.Rhs) {
				// a local that is a fresh copy of c.conns (append(<other slice>, c.conns...)) or shares its backing array
				rhs := s.expr(x.Rhs[i])
				if ce, ok := x.Rhs[i].(*ast.CallExpr); ok && callName(ce) == "append" && len(ce.Args) == 2 && ce.Ellipsis.IsValid() &&
					strings.HasSuffix(s.expr(ce.Args[1]), ".conns") && !strings.Contains(s.expr(ce.Args[0]), ".conns") {
					s.emit(guards, id.Name+" = copy of c.conns")
				} else if strings.Contains(rhs, ".conns") {
					s.emit(guards, id.Name+" shares "+rhs)
				}
			}
		}
	case *ast.IncDecStmt:
		if sel, ok := x.X.(*ast.SelectorExpr); ok && sel.Sel.Name == "connsCount" {
			s.emit(guards, "connsCount"+x.Tok.String())
		}
	case *ast.ReturnStmt:
		for _, r := range x.Results {
			s.calls(guards, r, true)
		}
		if len(guards) > 0 {
			s.emit(guards, "return")
		}
	case *ast.BranchStmt:
		s.emit(guards, x.Tok.String())
	case *ast.BlockStmt:
		s.block(guards, x.List)
	case *ast.IfStmt:
		g := ""
		if x.Init != nil {
			s.stmt(guards, x.Init)
			g = s.expr(x.Init) + "; "
		}
		s.calls(guards, x.Cond, true)
		cond := s.expr(x.Cond)
		s.block(with(guards, "if "+g+cond), x.Body.List)
		switch e := x.Else.(type) {
		case *ast.BlockStmt:
			s.block(with(guards, "else of "+cond), e.List)
		case *ast.IfStmt:
			s.stmt(with(guards, "else of "+cond), e)
		}
	case *ast.ForStmt:
		cond := "true"
		if x.Cond != nil {
			cond = s.expr(x.Cond)
		}
		s.block(with(guards, "for "+cond), x.Body.List)
	case *ast.RangeStmt:
		if s.idle {
			s.block(with(guards, "range "+s.expr(x.X)), x.Body.List)
			return
		}
		ast.Inspect(x, func(n ast.Node) bool {
			if ce, ok := n.(*ast.CallExpr); ok && poolCalls[callName(ce)] {
				s.emit(guards, "in-range "+callName(ce))
			}
			return true
		})
	case *ast.SelectStmt, *ast.SwitchStmt, *ast.DeclStmt, *ast.SendStmt, *ast.LabeledStmt, *ast.EmptyStmt:
		// not part of the hand-off skeleton of these functions
		ast.Inspect(x, func(n ast.Node) bool {
			if ce, ok := n.(*ast.CallExpr); ok && poolCalls[callName(ce)] {
				s.emit(guards, "in-"+fmt.Sprintf("%T", x)+" "+callName(ce))
			}
			return true
		})
	}
}

type poolFn struct{ lean, recv, fn string }

var poolFns = []poolFn{
	{"poolShape_ReleaseConn", "HostClient", "ReleaseConn"},
	{"poolShape_decConnsCount", "HostClient", "decConnsCount"},
	{"poolShape_dialConnFor", "HostClient", "dialConnFor"},
	{"poolShape_cancel", "wantConn", "cancel"},
	{"poolShape_tryDeliver", "wantConn", "tryDeliver"},
}

func genPoolShape(p *pkgInfo, out string) {
	var b bytes.Buffer
	b.WriteString("-- GENERATED by fhextract from /repo/client.go; do not edit.\nnamespace Fh.Gen\n\n")
	for _, f := range poolFns {
		fd := p.funcDecl(f.recv, f.fn)
		if fd == nil || fd.Body == nil {
			fmt.Fprintf(&b, "-- MISSING (%s).%s\n\n", f.recv, f.fn)
			continue
		}
		s := &poolSkel{fset: token.NewFileSet()}
		s.block(nil, fd.Body.List)
		fmt.Fprintf(&b, "/-- hand-off skeleton of (%s).%s: guarded interesting actions in source order -/\ndef %s : List String := %s\n\n",
			f.recv, f.fn, f.lean, leanStrList(s.tokens))
	}
	// CloseIdleConnections: what leaves the lock section must be a copy of the idle list, not the list's backing array
	if fd := p.funcDecl("HostClient", "CloseIdleConnections"); fd == nil || fd.Body == nil {
		b.WriteString("-- MISSING (HostClient).CloseIdleConnections\n\n")
	} else {
		s := &poolSkel{fset: token.NewFileSet(), idle: true}
		s.block(nil, fd.Body.List)
		fmt.Fprintf(&b, "/-- skeleton of (HostClient).CloseIdleConnections: lock section, what happens to c.conns, the closing loop -/\ndef poolShape_CloseIdleConnections : List String := %s\n\n", leanStrList(s.tokens))
	}
	// transport.RoundTrip: every way out after AcquireConn, with what happens to the connection on it
	if fd := p.funcDecl("transport", "RoundTrip"); fd == nil || fd.Body == nil {
		b.WriteString("-- MISSING (transport).RoundTrip\n\n")
	} else {
		ps := &pipeSkel{fset: token.NewFileSet()}
		var toks []string
		var walk func(guards []string, stmts []ast.Stmt)
		note := func(guards []string, n ast.Node) {
			ast.Inspect(n, func(x ast.Node) bool {
				if _, ok := x.(*ast.FuncLit); ok {
					toks = append(toks, strings.Join(append(append([]string(nil), guards...), "stream close callback installed"), " | "))
					return false
				}
				if ce, ok := x.(*ast.CallExpr); ok {
					if nm := callName(ce); nm == "AcquireConn" || nm == "CloseConn" || nm == "ReleaseConn" {
						toks = append(toks, strings.Join(append(append([]string(nil), guards...), nm), " | "))
					}
				}
				return true
			})
		}
		walk = func(guards []string, stmts []ast.Stmt) {
			for _, st := range stmts {
				switch x := st.(type) {
				case *ast.IfStmt:
					if x.Init != nil {
						note(guards, x.Init)
					}
					g := with(guards, "if "+ps.expr(x.Cond))
					walk(g, x.Body.List)
					switch e := x.Else.(type) {
					case *ast.BlockStmt:
						walk(with(guards, "else of "+ps.expr(x.Cond)), e.List)
					case *ast.IfStmt:
						walk(with(guards, "else of "+ps.expr(x.Cond)), []ast.Stmt{e})
					}
				case *ast.ReturnStmt:
					toks = append(toks, strings.Join(append(append([]string(nil), guards...), "return"), " | "))
				case *ast.BlockStmt:
					walk(guards, x.List)
				default:
					note(guards, st)
				}
			}
		}
		walk(nil, fd.Body.List)
		fmt.Fprintf(&b, "/-- (transport).RoundTrip: AcquireConn, every CloseConn / ReleaseConn / return with its guards, in source order -/\ndef rtShape_RoundTrip : List String := %s\n\n", leanStrList(toks))
	}
	b.WriteString("end Fh.Gen\n")
	writeIfChanged(filepath.Join(out, "PoolShape.lean"), b.Bytes())
}
