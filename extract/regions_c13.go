package main

// regions_c13.go — critical-section facts for workerpool.go (Gen/WpRegions.lean, property C13).
//
// The Lean transition system of C13 has ONE event per lock region of getCh / release / clean / Stop / workerFunc.
// This query recomputes those regions from the source: for each of the five methods it walks the body in control-flow
// order (a branch that ends in return/break/continue/panic does not leak its Unlock) and emits
//   wpRegions_<fn>  : List (List String)   one entry per `wp.lock.Lock() … wp.lock.Unlock()` region, in source order,
//                                          each the sorted set of what happens inside it:
//                                          "r:<field>" / "w:<field>" for wp.ready, wp.mustStop, wp.workersCount, and
//                                          "send" for a plain (blocking) channel send statement, "selsend" for a send that is
//                                          a case of a select without default, "trysend" for one in a select WITH default
//                                          (non-blocking: the value is dropped if nobody receives)
//   wpUnlocked_<fn> : List String          the same tokens for what happens outside every region
// A function literal (`go func() {…}()`) is skipped: it does not run inside the caller's region.
// Anything unexpected yields a `-- MISSING` comment, so the dependent theorem stops compiling.

import (
	"bytes"
	"fmt"
	"go/ast"
	"go/token"
	"path/filepath"
	"sort"
	"strings"
)

var wpTracked = map[string]bool{"ready": true, "mustStop": true, "workersCount": true}

type wpRegionScan struct {
	recv     string // receiver identifier (wp)
	regions  []map[string]bool
	unlocked map[string]bool
	held     bool
}

func (s *wpRegionScan) note(tok string) {
	if s.held && len(s.regions) > 0 {
		s.regions[len(s.regions)-1][tok] = true
	} else {
		s.unlocked[tok] = true
	}
}

// isLockCall reports wp.lock.Lock() / wp.lock.Unlock().
func (s *wpRegionScan) isLockCall(e ast.Expr) (name string, ok bool) {
	ce, ok := e.(*ast.CallExpr)
	if !ok {
		return "", false
	}
	sel, ok := ce.Fun.(*ast.SelectorExpr)
	if !ok || (sel.Sel.Name != "Lock" && sel.Sel.Name != "Unlock") {
		return "", false
	}
	in, ok := sel.X.(*ast.SelectorExpr)
	if !ok || in.Sel.Name != "lock" {
		return "", false
	}
	if id, ok := in.X.(*ast.Ident); !ok || id.Name != s.recv {
		return "", false
	}
	return sel.Sel.Name, true
}

// fieldOf reports wp.<tracked field>.
func (s *wpRegionScan) fieldOf(e ast.Expr) (string, bool) {
	sel, ok := e.(*ast.SelectorExpr)
	if !ok || !wpTracked[sel.Sel.Name] {
		return "", false
	}
	if id, ok := sel.X.(*ast.Ident); !ok || id.Name != s.recv {
		return "", false
	}
	return sel.Sel.Name, true
}

// reads notes every tracked field read inside an expression (function literals skipped).
func (s *wpRegionScan) reads(e ast.Node) {
	if e == nil {
		return
	}
	ast.Inspect(e, func(n ast.Node) bool {
		switch x := n.(type) {
		case *ast.FuncLit:
			return false
		case *ast.SelectorExpr:
			if f, ok := s.fieldOf(x); ok {
				s.note("r:" + f)
				return false
			}
		}
		return true
	})
}

func terminates(stmts []ast.Stmt) bool {
	if len(stmts) == 0 {
		return false
	}
	switch x := stmts[len(stmts)-1].(type) {
	case *ast.ReturnStmt:
		return true
	case *ast.BranchStmt:
		return x.Tok == token.BREAK || x.Tok == token.CONTINUE || x.Tok == token.GOTO
	case *ast.ExprStmt:
		if ce, ok := x.X.(*ast.CallExpr); ok {
			if id, ok := ce.Fun.(*ast.Ident); ok && id.Name == "panic" {
				return true
			}
		}
	}
	return false
}

func (s *wpRegionScan) block(stmts []ast.Stmt) {
	for _, st := range stmts {
		s.stmt(st)
	}
}

// branch walks a conditional block; if it ends in return/break/continue its lock state does not flow on.
func (s *wpRegionScan) branch(stmts []ast.Stmt) {
	before := s.held
	s.block(stmts)
	if terminates(stmts) {
		s.held = before
	}
}

func (s *wpRegionScan) stmt(st ast.Stmt) {
	switch x := st.(type) {
	case nil:
	case *ast.ExprStmt:
		if name, ok := s.isLockCall(x.X); ok {
			if name == "Lock" {
				s.held = true
				s.regions = append(s.regions, map[string]bool{})
			} else {
				s.held = false
			}
			return
		}
		s.reads(x.X)
	case *ast.SendStmt:
		s.reads(x.Chan)
		s.reads(x.Value)
		s.note("send")
	case *ast.AssignStmt:
		for _, r := range x.Rhs {
			s.reads(r)
		}
		for _, l := range x.Lhs {
			if f, ok := s.fieldOf(l); ok {
				s.note("w:" + f)
				if x.Tok != token.ASSIGN && x.Tok != token.DEFINE {
					s.note("r:" + f)
				}
				continue
			}
			s.reads(l) // wp.ready[i] = …, ready[n] = … (content of an alias is not tracked)
		}
	case *ast.IncDecStmt:
		if f, ok := s.fieldOf(x.X); ok {
			s.note("r:" + f)
			s.note("w:" + f)
		} else {
			s.reads(x.X)
		}
	case *ast.DeclStmt:
		s.reads(x)
	case *ast.ReturnStmt:
		for _, r := range x.Results {
			s.reads(r)
		}
	case *ast.BlockStmt:
		s.block(x.List)
	case *ast.IfStmt:
		s.stmt(x.Init)
		s.reads(x.Cond)
		s.branch(x.Body.List)
		switch e := x.Else.(type) {
		case *ast.BlockStmt:
			s.branch(e.List)
		case *ast.IfStmt:
			s.stmt(e)
		}
	case *ast.ForStmt:
		s.stmt(x.Init)
		s.reads(x.Cond)
		s.branch(x.Body.List)
		s.stmt(x.Post)
	case *ast.RangeStmt:
		s.reads(x.X)
		s.branch(x.Body.List)
	case *ast.SwitchStmt:
		s.stmt(x.Init)
		s.reads(x.Tag)
		for _, c := range x.Body.List {
			if cc, ok := c.(*ast.CaseClause); ok {
				for _, e := range cc.List {
					s.reads(e)
				}
				s.branch(cc.Body)
			}
		}
	case *ast.SelectStmt:
		// the KIND of a send matters: a select with a default clause does not wait for the receiver ("trysend": the
		// value may be dropped), a select without default waits for one of its cases ("selsend")
		hasDefault := false
		for _, c := range x.Body.List {
			if cc, ok := c.(*ast.CommClause); ok && cc.Comm == nil {
				hasDefault = true
			}
		}
		for _, c := range x.Body.List {
			if cc, ok := c.(*ast.CommClause); ok {
				if snd, ok := cc.Comm.(*ast.SendStmt); ok {
					s.reads(snd.Chan)
					s.reads(snd.Value)
					if hasDefault {
						s.note("trysend")
					} else {
						s.note("selsend")
					}
				} else {
					s.stmt(cc.Comm)
				}
				s.branch(cc.Body)
			}
		}
	case *ast.GoStmt, *ast.DeferStmt:
		// the literal / call runs elsewhere (go) or at return (defer): arguments only
		var ce *ast.CallExpr
		if g, ok := x.(*ast.GoStmt); ok {
			ce = g.Call
		} else {
			ce = x.(*ast.DeferStmt).Call
		}
		for _, a := range ce.Args {
			s.reads(a)
		}
	case *ast.LabeledStmt:
		s.stmt(x.Stmt)
	default:
		s.reads(st)
	}
}

func sortedKeys(m map[string]bool) []string {
	var out []string
	for k := range m {
		out = append(out, k)
	}
	sort.Strings(out)
	return out
}

func genWpRegions(p *pkgInfo, out string) {
	var b bytes.Buffer
	b.WriteString("-- GENERATED by fhextract from /repo/workerpool.go; do not edit.\nnamespace Fh.Gen\n\n")
	for _, fn := range []string{"getCh", "release", "clean", "Stop", "workerFunc", "Serve"} {
		fd := p.funcDecl("workerPool", fn)
		if fd == nil || fd.Body == nil || fd.Recv == nil || len(fd.Recv.List) != 1 || len(fd.Recv.List[0].Names) != 1 {
			fmt.Fprintf(&b, "-- MISSING: (workerPool).%s\n", fn)
			continue
		}
		s := &wpRegionScan{recv: fd.Recv.List[0].Names[0].Name, unlocked: map[string]bool{}}
		s.block(fd.Body.List)
		var rs []string
		for _, r := range s.regions {
			rs = append(rs, leanStrList(sortedKeys(r)))
		}
		fmt.Fprintf(&b, "/-- lock regions of (workerPool).%s, in source order -/\ndef wpRegions_%s : List (List String) := [%s]\n", fn, fn, strings.Join(rs, ", "))
		fmt.Fprintf(&b, "/-- what (workerPool).%s does outside every lock region -/\ndef wpUnlocked_%s : List String := %s\n\n", fn, fn, leanStrList(sortedKeys(s.unlocked)))
	}
	b.WriteString("end Fh.Gen\n")
	writeIfChanged(filepath.Join(out, "WpRegions.lean"), b.Bytes())
}
