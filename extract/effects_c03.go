package main

// Effect skeletons of the Response body methods (C03, Model/BodyOps): for each method, in source (pre-)order,
//   call:<m>        a method called on the receiver
//   onresult:<m>    a method called on the result of a receiver call (resp.bodyBuffer().Write)
//   local:<v>.<m>   a method called on a local variable
//   set:<f>=<rhs>   an assignment to a receiver field (rhs printed; nil / parameter name / expression)
//   if:<cond>       an if statement (condition printed)
//   return:<expr>   a return statement with its results
// The model's step function is written from these; Props/C03 compares them with what the model assumes.

import (
	"bytes"
	"fmt"
	"go/ast"
	"go/printer"
	"go/token"
	"strings"
)

var bodyEffectMethods = []string{"SetBody", "SetBodyString", "AppendBody", "AppendBodyString", "ResetBody", "SetBodyRaw",
	"SetBodyStream", "bodyBuffer", "bodyBytes"}

func exprText(e ast.Expr) string {
	var b bytes.Buffer
	printer.Fprint(&b, token.NewFileSet(), e)
	return strings.Join(strings.Fields(b.String()), " ")
}

func effectSkeleton(fd *ast.FuncDecl) []string {
	if fd == nil || fd.Body == nil || fd.Recv == nil || len(fd.Recv.List) != 1 || len(fd.Recv.List[0].Names) != 1 {
		return nil
	}
	recv := fd.Recv.List[0].Names[0].Name
	var out []string
	ast.Inspect(fd.Body, func(n ast.Node) bool {
		switch x := n.(type) {
		case *ast.CallExpr:
			if se, ok := x.Fun.(*ast.SelectorExpr); ok {
				switch r := se.X.(type) {
				case *ast.Ident:
					if r.Name == recv {
						out = append(out, "call:"+se.Sel.Name)
					} else {
						out = append(out, "local:"+r.Name+"."+se.Sel.Name)
					}
				case *ast.CallExpr:
					out = append(out, "onresult:"+se.Sel.Name)
				default:
					out = append(out, "other:"+exprText(x.Fun))
				}
			} else {
				out = append(out, "fn:"+exprText(x.Fun))
			}
		case *ast.AssignStmt:
			for i, l := range x.Lhs {
				if se, ok := l.(*ast.SelectorExpr); ok {
					if id, ok := se.X.(*ast.Ident); ok && id.Name == recv && i < len(x.Rhs) {
						out = append(out, "set:"+se.Sel.Name+"="+exprText(x.Rhs[i]))
					}
				}
			}
		case *ast.IfStmt:
			out = append(out, "if:"+exprText(x.Cond))
		case *ast.ReturnStmt:
			var rs []string
			for _, r := range x.Results {
				rs = append(rs, exprText(r))
			}
			out = append(out, "return:"+strings.Join(rs, ","))
		}
		return true
	})
	return out
}

func genBodyEffects(p *pkgInfo, b *bytes.Buffer) {
	for _, m := range bodyEffectMethods {
		fd := p.funcDecl("Response", m)
		if fd == nil {
			fmt.Fprintf(b, "-- MISSING: (Response).%s\n", m)
			continue
		}
		fmt.Fprintf(b, "/-- effect skeleton of (*Response).%s (see extract/effects_c03.go) -/\ndef effects_Response_%s : List String := %s\n\n", m, m, leanStrList(effectSkeleton(fd)))
	}
}
