package main

// C15: where the serve loop stamps a connection as idle.  For every call `idleConnTime.Store(ctx.time.Unix())` inside
// serveConnCounted: the conditions of the enclosing if statements (innermost first).  The shutdown model has a phase
// "buffered" (response in the write buffer, further requests already read) that carries no idle stamp; Props/C15 pins
// that the stamp is guarded accordingly.

import (
	"bytes"
	"fmt"
	"go/ast"
	"strings"
)

func genIdleStampGuards(p *pkgInfo, b *bytes.Buffer) {
	fd := p.funcDecl("Server", "serveConnCounted")
	if fd == nil || fd.Body == nil {
		b.WriteString("-- MISSING: (Server).serveConnCounted\n")
		return
	}
	var guards []string
	var stack []ast.Node
	ast.Inspect(fd.Body, func(n ast.Node) bool {
		if n == nil {
			stack = stack[:len(stack)-1]
			return true
		}
		stack = append(stack, n)
		ce, ok := n.(*ast.CallExpr)
		if !ok {
			return true
		}
		se, ok := ce.Fun.(*ast.SelectorExpr)
		if !ok || se.Sel.Name != "Store" || exprText(se.X) != "idleConnTime" || len(ce.Args) != 1 || exprText(ce.Args[0]) != "ctx.time.Unix()" {
			return true
		}
		var conds []string
		for i := len(stack) - 1; i >= 0; i-- {
			if is, ok := stack[i].(*ast.IfStmt); ok {
				// only when the call sits in the body (not in the condition or the else branch)
				inBody := false
				for j := i + 1; j < len(stack); j++ {
					if stack[j] == ast.Node(is.Body) {
						inBody = true
					}
				}
				if inBody {
					conds = append(conds, exprText(is.Cond))
				} else {
					conds = append(conds, "else-or-cond-of:"+exprText(is.Cond))
				}
			}
		}
		guards = append(guards, strings.Join(conds, " && "))
		return true
	})
	fmt.Fprintf(b, "/-- for every `idleConnTime.Store(ctx.time.Unix())` in serveConnCounted: the conditions of the enclosing if statements -/\ndef idleStampGuards : List String := %s\n\n", leanStrList(guards))
}
