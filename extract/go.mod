module fhextract

go 1.23
