package main

// Scratch-field facts for C06: the Cookie struct has value fields (everything Reset assigns) and scratch buffers
// (bufK, bufV).  A method whose result depended on what an EARLIER call left in a scratch buffer would make
// serialisation depend on the object's history.  For every method of Cookie this generator lists the scratch fields
// that are read before the method itself has written them ("stale reads"):
//   * a clean write is an assignment `c.F = e` in which every mention of c.F inside e has the form c.F[:0];
//   * a mention of c.F that is neither the left side of an assignment nor c.F[:0] is a read;
//   * a read is fresh iff a clean write to the same field precedes it in a block that encloses the read.
// Emitted as Gen/CookieScratch.lean; Props/C06.lean decides that the list is empty, that CopyTo assigns every
// value field and that ParseBytes starts from Reset.

import (
	"bytes"
	"fmt"
	"go/ast"
	"go/token"
	"path/filepath"
	"sort"
)

type scratchWrite struct {
	field string
	pos   token.Pos
	block ast.Node
}

func isZeroSlice(e ast.Expr, recv string, scratch map[string]bool) (string, bool) {
	se, ok := e.(*ast.SliceExpr)
	if !ok || se.Low != nil || se.Max != nil || se.High == nil {
		return "", false
	}
	bl, ok := se.High.(*ast.BasicLit)
	if !ok || bl.Value != "0" {
		return "", false
	}
	return selField(se.X, recv, scratch)
}

func selField(e ast.Expr, recv string, fields map[string]bool) (string, bool) {
	s, ok := e.(*ast.SelectorExpr)
	if !ok {
		return "", false
	}
	id, ok := s.X.(*ast.Ident)
	if !ok || id.Name != recv || !fields[s.Sel.Name] {
		return "", false
	}
	return s.Sel.Name, true
}

// staleScratchReads returns "Method:field" for every stale read in fd.
func staleScratchReads(fd *ast.FuncDecl, scratch map[string]bool) []string {
	recv := recvName(fd)
	if recv == "" || fd.Body == nil {
		return nil
	}
	var writes []scratchWrite
	stale := map[string]bool{}
	var blocks []ast.Node

	// reads inside an expression (c.F[:0] is not a read)
	var reads func(e ast.Node, found func(f string, pos token.Pos))
	reads = func(e ast.Node, found func(f string, pos token.Pos)) {
		ast.Inspect(e, func(n ast.Node) bool {
			if ex, ok := n.(ast.Expr); ok {
				if _, ok := isZeroSlice(ex, recv, scratch); ok {
					return false
				}
				if f, ok := selField(ex, recv, scratch); ok {
					found(f, ex.Pos())
					return false
				}
			}
			return true
		})
	}
	fresh := func(f string, pos token.Pos) bool {
		for _, w := range writes {
			if w.field != f || w.pos >= pos {
				continue
			}
			for _, b := range blocks {
				if b == w.block {
					return true
				}
			}
		}
		return false
	}
	note := func(f string, pos token.Pos) {
		if !fresh(f, pos) {
			stale[fd.Name.Name+":"+f] = true
		}
	}
	var walk func(n ast.Node)
	walkList := func(owner ast.Node, list []ast.Stmt) {
		blocks = append(blocks, owner)
		for _, s := range list {
			walk(s)
		}
		blocks = blocks[:len(blocks)-1]
	}
	walk = func(n ast.Node) {
		switch x := n.(type) {
		case nil:
		case *ast.BlockStmt:
			walkList(x, x.List)
		case *ast.CaseClause:
			for _, e := range x.List {
				reads(e, note)
			}
			walkList(x, x.Body)
		case *ast.CommClause:
			walk(x.Comm)
			walkList(x, x.Body)
		case *ast.AssignStmt:
			for _, r := range x.Rhs {
				reads(r, note)
			}
			for i, l := range x.Lhs {
				if f, ok := selField(l, recv, scratch); ok {
					clean := x.Tok == token.ASSIGN && len(x.Lhs) == len(x.Rhs)
					if clean {
						// every mention of c.F on the right side is c.F[:0] (reads() above has already flagged the others)
						reads(x.Rhs[i], func(g string, _ token.Pos) {
							if g == f {
								clean = false
							}
						})
					}
					if clean && len(blocks) > 0 {
						writes = append(writes, scratchWrite{f, x.End(), blocks[len(blocks)-1]})
					}
					continue
				}
				reads(l, note)
			}
		case *ast.IfStmt:
			walk(x.Init)
			reads(x.Cond, note)
			walk(x.Body)
			walk(x.Else)
		case *ast.ForStmt:
			walk(x.Init)
			if x.Cond != nil {
				reads(x.Cond, note)
			}
			walk(x.Post)
			walk(x.Body)
		case *ast.RangeStmt:
			reads(x.X, note)
			walk(x.Body)
		case *ast.SwitchStmt:
			walk(x.Init)
			if x.Tag != nil {
				reads(x.Tag, note)
			}
			walk(x.Body)
		case *ast.TypeSwitchStmt:
			walk(x.Init)
			walk(x.Assign)
			walk(x.Body)
		case *ast.SelectStmt:
			walk(x.Body)
		case *ast.LabeledStmt:
			walk(x.Stmt)
		case ast.Stmt:
			// return, expression, inc/dec, defer, go, send, decl: every mention is a read
			reads(x, note)
		}
	}
	walk(fd.Body)
	var out []string
	for k := range stale {
		out = append(out, k)
	}
	sort.Strings(out)
	return out
}

// directAssigns lists the receiver fields assigned (c.F = …) anywhere in fd.
func directAssigns(fd *ast.FuncDecl) []string {
	recv := recvName(fd)
	set := map[string]bool{}
	if fd != nil && fd.Body != nil {
		ast.Inspect(fd.Body, func(n ast.Node) bool {
			if as, ok := n.(*ast.AssignStmt); ok {
				for _, l := range as.Lhs {
					if s, ok := l.(*ast.SelectorExpr); ok {
						if id, ok := s.X.(*ast.Ident); ok && id.Name == recv {
							set[s.Sel.Name] = true
						}
					}
				}
			}
			return true
		})
	}
	var out []string
	for k := range set {
		out = append(out, k)
	}
	sort.Strings(out)
	return out
}

func firstStmtCallsRecvMethod(fd *ast.FuncDecl, method string) bool {
	if fd == nil || fd.Body == nil || len(fd.Body.List) == 0 {
		return false
	}
	es, ok := fd.Body.List[0].(*ast.ExprStmt)
	if !ok {
		return false
	}
	ce, ok := es.X.(*ast.CallExpr)
	if !ok {
		return false
	}
	s, ok := ce.Fun.(*ast.SelectorExpr)
	if !ok || s.Sel.Name != method {
		return false
	}
	id, ok := s.X.(*ast.Ident)
	return ok && id.Name == recvName(fd)
}

func genCookieScratch(p *pkgInfo, out string) {
	var b bytes.Buffer
	b.WriteString("-- GENERATED by fhextract from /repo/cookie.go; do not edit.\nnamespace Fh.Gen\n\n")
	fields, _ := p.fieldsOf("Cookie")
	sort.Strings(fields)
	reset := directAssigns(p.funcDecl("Cookie", "Reset"))
	isReset := map[string]bool{}
	for _, f := range reset {
		isReset[f] = true
	}
	scratch := map[string]bool{}
	var scratchL []string
	for _, f := range fields {
		if !isReset[f] && f != "noCopy" {
			scratch[f] = true
			scratchL = append(scratchL, f)
		}
	}
	var stale, methods []string
	var files []string
	for fn := range p.files {
		files = append(files, fn)
	}
	sort.Strings(files)
	for _, fn := range files {
		for _, d := range p.files[fn].Decls {
			fd, ok := d.(*ast.FuncDecl)
			if !ok || fd.Recv == nil || len(fd.Recv.List) != 1 {
				continue
			}
			t := fd.Recv.List[0].Type
			if st, ok := t.(*ast.StarExpr); ok {
				t = st.X
			}
			if id, ok := t.(*ast.Ident); !ok || id.Name != "Cookie" {
				continue
			}
			methods = append(methods, fd.Name.Name)
			stale = append(stale, staleScratchReads(fd, scratch)...)
		}
	}
	sort.Strings(methods)
	sort.Strings(stale)
	fmt.Fprintf(&b, "/-- fields of Cookie -/\ndef cookie_fields : List String := %s\n\n", leanStrList(fields))
	fmt.Fprintf(&b, "/-- value fields: assigned by (Cookie).Reset -/\ndef cookie_resetFields : List String := %s\n\n", leanStrList(reset))
	fmt.Fprintf(&b, "/-- scratch fields: every other field except noCopy -/\ndef cookie_scratchFields : List String := %s\n\n", leanStrList(scratchL))
	fmt.Fprintf(&b, "/-- methods of Cookie that were analysed -/\ndef cookie_methods : List String := %s\n\n", leanStrList(methods))
	fmt.Fprintf(&b, "/-- \"Method:field\": a scratch field read before the method wrote it (content left by an earlier call) -/\ndef cookie_staleScratchReads : List String := %s\n\n", leanStrList(stale))
	fmt.Fprintf(&b, "/-- fields assigned by (Cookie).CopyTo -/\ndef cookie_copyToFields : List String := %s\n\n", leanStrList(directAssigns(p.funcDecl("Cookie", "CopyTo"))))
	fmt.Fprintf(&b, "/-- the first statement of ParseBytes / CopyTo is c.Reset() -/\ndef cookie_parseBytesResetsFirst : Bool := %v\ndef cookie_copyToResetsFirst : Bool := %v\n\n",
		firstStmtCallsRecvMethod(p.funcDecl("Cookie", "ParseBytes"), "Reset"), firstStmtCallsRecvMethod(p.funcDecl("Cookie", "CopyTo"), "Reset"))
	b.WriteString("end Fh.Gen\n")
	writeIfChanged(filepath.Join(out, "CookieScratch.lean"), b.Bytes())
}
