// fhextract regenerates lean/FhVerif/Gen/*.lean from /repo's current source (go/ast only).
//
// usage: fhextract <repo> <outdir>
//
// Gen/Tables.lean  - the lookup tables of bytesconv_table.go as List UInt8 literals
// Gen/Consts.lean  - constants and byte-string variables the theorems mention
// Gen/Facts.lean   - a few structural facts (which helper a function calls, ...)
//
// A file is rewritten only if its content changed, so an unchanged tree costs no rebuild.
package main

import (
	"bytes"
	"fmt"
	"go/ast"
	"go/parser"
	"go/token"
	"os"
	"path/filepath"
	"sort"
	"strconv"
	"strings"
)

var fset = token.NewFileSet()

type pkgInfo struct {
	files  map[string]*ast.File
	consts map[string]map[string]ast.Expr // file -> name -> expr (const or var initialiser)
}

func parseDir(dir string) *pkgInfo {
	p := &pkgInfo{files: map[string]*ast.File{}, consts: map[string]map[string]ast.Expr{}}
	ents, err := os.ReadDir(dir)
	if err != nil {
		fatal("readdir %s: %v", dir, err)
	}
	for _, e := range ents {
		n := e.Name()
		if e.IsDir() || !strings.HasSuffix(n, ".go") || strings.HasSuffix(n, "_test.go") {
			continue
		}
		if strings.HasPrefix(n, "verif_") {
			continue
		}
		f, err := parser.ParseFile(fset, filepath.Join(dir, n), nil, parser.ParseComments)
		if err != nil {
			fatal("parse %s: %v", n, err)
		}
		p.files[n] = f
		m := map[string]ast.Expr{}
		for _, d := range f.Decls {
			gd, ok := d.(*ast.GenDecl)
			if !ok || (gd.Tok != token.CONST && gd.Tok != token.VAR) {
				continue
			}
			for _, s := range gd.Specs {
				vs := s.(*ast.ValueSpec)
				for i, id := range vs.Names {
					if i < len(vs.Values) {
						m[id.Name] = vs.Values[i]
					}
				}
			}
		}
		p.consts[n] = m
	}
	return p
}

func fatal(f string, a ...any) {
	fmt.Fprintf(os.Stderr, "fhextract: "+f+"\n", a...)
	os.Exit(2)
}

func (p *pkgInfo) lookup(name string, files ...string) (ast.Expr, string) {
	if len(files) == 0 {
		for fn := range p.consts {
			files = append(files, fn)
		}
		sort.Strings(files)
	}
	for _, fn := range files {
		if e, ok := p.consts[fn][name]; ok {
			return e, fn
		}
	}
	return nil, ""
}

// leanExpr translates a constant integer expression to a Lean Nat expression.
// `w` is the int width parameter (math.MaxInt, strconv.IntSize depend on it).
func (p *pkgInfo) leanExpr(e ast.Expr, usesW *bool) (string, error) {
	switch x := e.(type) {
	case *ast.BasicLit:
		switch x.Kind {
		case token.INT:
			v, err := strconv.ParseInt(strings.ReplaceAll(x.Value, "_", ""), 0, 64)
			if err != nil {
				return "", err
			}
			return strconv.FormatInt(v, 10), nil
		case token.CHAR:
			r, _, _, err := strconv.UnquoteChar(x.Value[1:len(x.Value)-1], '\'')
			if err != nil {
				return "", err
			}
			return strconv.Itoa(int(r)), nil
		}
	case *ast.ParenExpr:
		s, err := p.leanExpr(x.X, usesW)
		return "(" + s + ")", err
	case *ast.BinaryExpr:
		a, err := p.leanExpr(x.X, usesW)
		if err != nil {
			return "", err
		}
		b, err := p.leanExpr(x.Y, usesW)
		if err != nil {
			return "", err
		}
		switch x.Op {
		case token.ADD, token.SUB, token.MUL, token.QUO, token.REM:
			return "(" + a + " " + x.Op.String() + " " + b + ")", nil
		case token.SHL:
			return "(" + a + " * 2 ^ " + b + ")", nil
		}
	case *ast.SelectorExpr:
		if id, ok := x.X.(*ast.Ident); ok {
			switch id.Name + "." + x.Sel.Name {
			case "math.MaxInt":
				*usesW = true
				return "(2 ^ (w - 1) - 1)", nil
			case "strconv.IntSize":
				*usesW = true
				return "w", nil
			case "math.MaxInt32":
				return "2147483647", nil
			case "math.MaxUint32":
				return "4294967295", nil
			case "time.Nanosecond":
				return "1", nil
			case "time.Microsecond":
				return "1000", nil
			case "time.Millisecond":
				return "1000000", nil
			case "time.Second":
				return "1000000000", nil
			case "time.Minute":
				return "60000000000", nil
			case "time.Hour":
				return "3600000000000", nil
			}
		}
	case *ast.Ident:
		if d, _ := p.lookup(x.Name); d != nil {
			return p.leanExpr(d, usesW)
		}
	case *ast.CallExpr:
		// conversions such as int64(x), uint32(x), time.Duration(x)
		if len(x.Args) == 1 {
			return p.leanExpr(x.Args[0], usesW)
		}
	}
	return "", fmt.Errorf("unsupported constant expression %T at %s", e, fset.Position(e.Pos()))
}

func stringLit(e ast.Expr) (string, bool) {
	switch x := e.(type) {
	case *ast.BasicLit:
		if x.Kind == token.STRING {
			s, err := strconv.Unquote(x.Value)
			return s, err == nil
		}
	case *ast.CallExpr: // []byte("...")
		if len(x.Args) == 1 {
			return stringLit(x.Args[0])
		}
	case *ast.BinaryExpr:
		if x.Op == token.ADD {
			a, ok1 := stringLit(x.X)
			b, ok2 := stringLit(x.Y)
			return a + b, ok1 && ok2
		}
	case *ast.ParenExpr:
		return stringLit(x.X)
	}
	return "", false
}

func leanBytes(s string) string {
	var b strings.Builder
	b.WriteString("[")
	for i := 0; i < len(s); i++ {
		if i > 0 {
			b.WriteString(", ")
		}
		fmt.Fprintf(&b, "%d", s[i])
	}
	b.WriteString("]")
	return b.String()
}

func writeIfChanged(path string, content []byte) {
	old, err := os.ReadFile(path)
	if err == nil && bytes.Equal(old, content) {
		return
	}
	tmp := path + ".tmp"
	if err := os.WriteFile(tmp, content, 0o644); err != nil {
		fatal("write %s: %v", tmp, err)
	}
	if err := os.Rename(tmp, path); err != nil {
		fatal("rename: %v", err)
	}
}

func main() {
	if len(os.Args) != 3 {
		fatal("usage: fhextract <repo> <outdir>")
	}
	repo, out := os.Args[1], os.Args[2]
	if err := os.MkdirAll(out, 0o755); err != nil {
		fatal("%v", err)
	}
	root := parseDir(repo)
	genTables(root, out)
	genConsts(repo, root, out)
	genFacts(repo, root, out)
	genLocks(root, out)
	genAdaptorFacts(repo, out)
	genC22(repo, root, out)
	genResets(root, out)
	genWpRegions(root, out)
	genPipeWrite(repo, out)
	genPoolShape(root, out)
	genPerIPClose(root, out)
	genPipeShape(root, out)
	genLBGuard(root, out)
	genDialerCtx(root, out)
	genCookieScratch(root, out)
}

var tableNames = []string{
	"hex2intTable", "toLowerTable", "toUpperTable", "quotedArgShouldEscapeTable",
	"quotedPathShouldEscapeTable", "validHeaderFieldByteTable", "validHeaderValueByteTable",
	"validMethodValueByteTable",
}

func genTables(p *pkgInfo, out string) {
	var b bytes.Buffer
	b.WriteString("-- GENERATED by fhextract from /repo/bytesconv_table.go; do not edit.\nnamespace Fh.Gen\n\n")
	for _, n := range tableNames {
		e, _ := p.lookup(n, "bytesconv_table.go")
		s, ok := "", false
		if e != nil {
			s, ok = stringLit(e)
		}
		if !ok {
			// the fact is missing: emit an empty table so the dependent theorem fails
			fmt.Fprintf(&b, "-- MISSING: %s not found as a string constant\n", n)
			s = ""
		}
		fmt.Fprintf(&b, "def %s : List UInt8 := %s\n\n", n, leanBytes(s))
	}
	b.WriteString("end Fh.Gen\n")
	writeIfChanged(filepath.Join(out, "Tables.lean"), b.Bytes())
}
