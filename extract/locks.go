package main

// locks.go — the lock/access table for C37 (Gen/Locks.lean).
//
// Which fields: the explicit list lockFields PLUS, inferred on every run, every field of a package struct that is written
// while a mutex is held somewhere (its guard = that mutex; then EVERY access, reads included, must hold it) and every
// field that is accessed atomically somewhere (then every access must be atomic).  Exceptions are explicit tables:
// ctorAllow (pre-sharing configuration), exemptAllow (single access sites), noGuardInference (fields whose lock is
// incidental), each with its reason.  For these fields every syntactic access site in the root package is emitted as a row
//   (type, field, function, kind, class, locks held)            -- file:line
// kind : "w"  the field itself is assigned (x.f = …, x.f++, &x.f taken)
//        "cw" the content is written (x.f[k] = …, delete(x.f, k), copy(x.f[…], …))
//        "cm" a method is called on x.f (judged like a content write; not used to INFER a guard: calling a method of
//             an interface value or of an internally synchronised object while some lock is held says nothing)
//        "r"  the field is read as a value / handle (passed, returned, compared, ranged by alias)
//        "cr" the content is read (x.f[k], range x.f, len(x.f), x.f.g)
// class: "locked"  ordinary access; the last column lists the mutexes syntactically held there
//                  ("mu" exclusive, "R:mu" read lock), by field NAME of the mutex (the instance is not tracked)
//        "atomic"  sync/atomic typed field used through its methods, a plain field used through atomic.*(&x.f, …),
//                  or a sync.Map used through its methods
//        "init"    the object was constructed in this very function (x := &T{…}) or the function is on the documented
//                  constructor allowlist (ctorAllow): not yet shared.  (A sync.Once.Do literal is NOT init: it is ordered
//                  only before code that went through the same Once — the race detector found Client.m that way.)
//        "exempt"  documented exception (exemptAllow) — ordered by something a lockset cannot express
//        "unknown" the analysis could not classify the access (receiver type unresolved, …): FAILS the theorem
// Locks held: Lock()…Unlock() / defer Unlock() inside the same function with a small abstract interpretation over
// if/for/switch/select (a branch that ends in return/continue/break/panic does not leak its unlocks); helpers whose
// name ends in Locked/Nolock/NoLock start with the intersection of the locks held at ALL their call sites (fixpoint).
// Function literals passed directly as call arguments are treated as synchronous callbacks (current lockset);
// `go` bodies and other literals start with the empty lockset; deferred literals keep the locks whose Unlock is deferred.
//
// The file never makes fhextract fail: anything unexpected becomes an "unknown" row or a `-- MISSING` comment.

import (
	"bytes"
	"fmt"
	"go/ast"
	"go/token"
	"path/filepath"
	"sort"
	"strings"
)

// mode: "lock:<mutex field>" | "atomic" | "immutable"
type lockField struct{ typ, field, mode string }

var lockFields = []lockField{
	{"Server", "idleConns", "lock:idleConnsMu"},
	{"Server", "ln", "lock:mu"},
	{"Server", "done", "lock:mu"},
	{"Server", "concurrency", "atomic"},
	{"Server", "open", "atomic"},
	{"Server", "stop", "atomic"},
	{"workerPool", "ready", "lock:lock"},
	{"workerPool", "workersCount", "lock:lock"},
	{"workerPool", "mustStop", "lock:lock"},
	{"perIPConnCounter", "m", "lock:lock"},
	{"HostClient", "conns", "lock:connsLock"},
	{"HostClient", "connsCount", "lock:connsLock"},
	{"HostClient", "connsWait", "lock:connsLock"},
	{"HostClient", "connsCleanerRun", "lock:connsLock"},
	{"HostClient", "pendingRequests", "atomic"},
	{"HostClient", "pendingClientRequests", "atomic"},
	{"Client", "m", "lock:mLock"},
	{"Client", "ms", "lock:mLock"},
	{"inMemoryCacheManager", "cache", "lock:cacheLock"},
	{"inMemoryCacheManager", "cacheBrotli", "lock:cacheLock"},
	{"inMemoryCacheManager", "cacheGzip", "lock:cacheLock"},
	{"inMemoryCacheManager", "cacheZstd", "lock:cacheLock"},
	{"inMemoryCacheManager", "pendingFiles", "lock:cacheLock"},
	{"inMemoryCacheManager", "closed", "lock:cacheLock"},
	{"fsFile", "readersCount", "lock:cacheLock"},
	{"LBClient", "cs", "lock:mu"},
	{"lbClient", "penalty", "atomic"},
	{"lbClient", "total", "atomic"},
	{"PipelineClient", "connClients", "lock:connClientsLock"},
	{"pipelineConnClient", "chs", "lock:chLock"},
	{"pipelineConnChannels", "users", "lock:chLock"},
	{"TCPDialer", "tcpAddrsMap", "atomic"},
	{"tcpAddrEntry", "addrsIdx", "atomic"},
	{"tcpAddrEntry", "pending", "atomic"},
	{"tcpAddrEntry", "addrs", "immutable"},
	{"tcpAddrEntry", "resolveTime", "immutable"},
	// found by the guard inference (below) on the pinned tree and made explicit, so that removing the lock at EVERY
	// write site of one of them cannot make the inference forget the field:
	{"HostClient", "MaxConns", "lock:connsLock"},
	{"HostClient", "addrIdx", "lock:addrsLock"},
	{"HostClient", "addrs", "lock:addrsLock"},
	{"HostClient", "lastUseTime", "atomic"},
	{"HostClient", "tlsConfigMap", "lock:tlsConfigMapLock"},
	{"Server", "TLSConfig", "lock:mu"},
	{"Server", "concurrencyCh", "lock:mu"},
	{"Server", "doneClosed", "lock:mu"},
	{"Server", "rejectedRequestsCount", "atomic"},
	{"Server", "serveLoops", "atomic"},
	{"TCPDialer", "cleanerRunning", "atomic"},
	{"compressedBodyStream", "originalClosed", "lock:originalLock"},
	{"fileLock", "refs", "lock:filesLockMu"},
	{"fsFile", "bigFiles", "lock:bigFilesLock"},
	{"pipelineConnClient", "tlsConfig", "lock:tlsConfigLock"},
	{"wantConn", "conn", "lock:mu"},
	{"wantConn", "err", "lock:mu"},
	{"wantConn", "ready", "lock:mu"},
	{"wantConnQueue", "head", "lock:connsLock"},
	{"wantConnQueue", "headPos", "lock:connsLock"},
	{"wantConnQueue", "tail", "lock:connsLock"},
}

// constructors / initialisation that runs before the object is reachable from another goroutine
var ctorAllow = map[string]string{
	"Server.NextProto": "documented: \"This function can only be called before the server is started\" — configuration before the Server is shared",
}

// fields for which no guard is inferred although some write happens while a mutex is held: "Type.field" -> reason.
// (Every entry is a claim that the lock held at that write is incidental; each is justified here.)
var noGuardInference = map[string]string{
	"perIPConn.Conn":    "the embedded net.Conn is used lock-free by the promoted Read/Write of the connection's only owner; perIPConn.lock only makes a second Close idempotent, and the wrapper changes owner through sync.Pool (acquirePerIPConn). A late Close by a former owner after recycling is the defect recorded for C12/C17, not a lock-discipline matter",
	"perIPTLSConn.Conn": "as perIPConn.Conn",
}

// documented exceptions: "Type.func field" -> reason
var exemptAllow = map[string]string{
	"TimeoutWithCodeHandler concurrencyCh": "read of s.concurrencyCh by a running handler: the channel is created once (nil → chan) under s.mu at the start of the first Serve/ServeConn, before that call serves anything, and never replaced; every handler runs after its own Serve/ServeConn went through that critical section, so the read is ordered after the only write by s.mu's release→acquire edge",
	"Client.hostClient m":                  "handle read after c.mOnce.Do in Client.Do, hostClient's only caller: ordered after the once-guarded creation of the map by sync.Once; the map content is read/written under mLock",
	"Client.hostClient ms":                 "as Client.hostClient m",
	"RequestCtx.Done done":                 "read of s.done by a running handler; Shutdown writes s.done=nil only after it observed open==0 (atomic), i.e. after every handler returned, and Serve creates it before accepting: ordered by the open counter, not by s.mu",
}

// ---------------------------------------------------------------------------------------------

type lkType struct {
	name string  // named type ("" unknown)
	elem *lkType // element type for slices / arrays / maps / pointers-to-those
}

func typeOfExprAST(e ast.Expr) *lkType {
	switch x := e.(type) {
	case *ast.Ident:
		return &lkType{name: x.Name}
	case *ast.StarExpr:
		return typeOfExprAST(x.X)
	case *ast.ParenExpr:
		return typeOfExprAST(x.X)
	case *ast.SelectorExpr:
		if id, ok := x.X.(*ast.Ident); ok {
			return &lkType{name: id.Name + "." + x.Sel.Name}
		}
	case *ast.ArrayType:
		return &lkType{elem: typeOfExprAST(x.Elt)}
	case *ast.MapType:
		return &lkType{elem: typeOfExprAST(x.Value)}
	case *ast.ChanType:
		return &lkType{elem: typeOfExprAST(x.Value)}
	case *ast.IndexExpr: // generic instantiation T[X]
		return typeOfExprAST(x.X)
	}
	return &lkType{}
}

type lkPkg struct {
	structs  map[string]map[string]*lkType // type -> field -> type
	funcRet  map[string]*lkType            // "func" or "Type.method" -> first result type
	funcs    []*ast.FuncDecl
	fileOf   map[*ast.FuncDecl]string
	imports  map[string]map[string]bool // file -> imported package names
	globals  map[string]*lkType         // package-level variables
	embedded map[string][]string        // struct type -> embedded struct type names
	mutexes  map[string]bool            // names of all sync.Mutex / sync.RWMutex struct fields of the package
}

func recvTypeName(fd *ast.FuncDecl) string {
	if fd.Recv == nil || len(fd.Recv.List) != 1 {
		return ""
	}
	return typeOfExprAST(fd.Recv.List[0].Type).name
}

func buildLkPkg(p *pkgInfo) *lkPkg {
	lp := &lkPkg{structs: map[string]map[string]*lkType{}, funcRet: map[string]*lkType{}, fileOf: map[*ast.FuncDecl]string{},
		imports: map[string]map[string]bool{}, globals: map[string]*lkType{}, embedded: map[string][]string{}, mutexes: map[string]bool{}}
	var names []string
	for n := range p.files {
		names = append(names, n)
	}
	sort.Strings(names)
	for _, fn := range names {
		f := p.files[fn]
		lp.imports[fn] = map[string]bool{}
		for _, im := range f.Imports {
			path := strings.Trim(im.Path.Value, "\"`")
			name := path
			if i := strings.LastIndex(path, "/"); i >= 0 {
				name = path[i+1:]
			}
			if im.Name != nil {
				name = im.Name.Name
			}
			lp.imports[fn][name] = true
		}
		for _, d := range f.Decls {
			switch x := d.(type) {
			case *ast.GenDecl:
				if x.Tok == token.VAR {
					for _, s := range x.Specs {
						vs, ok := s.(*ast.ValueSpec)
						if !ok {
							continue
						}
						for i, id := range vs.Names {
							switch {
							case vs.Type != nil:
								lp.globals[id.Name] = typeOfExprAST(vs.Type)
							case i < len(vs.Values):
								switch v := vs.Values[i].(type) {
								case *ast.CompositeLit:
									if v.Type != nil {
										lp.globals[id.Name] = typeOfExprAST(v.Type)
									}
								case *ast.UnaryExpr:
									if cl, ok := v.X.(*ast.CompositeLit); ok && cl.Type != nil {
										lp.globals[id.Name] = typeOfExprAST(cl.Type)
									}
								}
							}
						}
					}
				}
				if x.Tok != token.TYPE {
					continue
				}
				for _, s := range x.Specs {
					ts, ok := s.(*ast.TypeSpec)
					if !ok {
						continue
					}
					st, ok := ts.Type.(*ast.StructType)
					if !ok {
						continue
					}
					m := map[string]*lkType{}
					for _, fl := range st.Fields.List {
						t := typeOfExprAST(fl.Type)
						if len(fl.Names) == 0 { // embedded
							base := t.name
							if i := strings.LastIndex(base, "."); i >= 0 {
								base = base[i+1:]
							} else if base != "" {
								lp.embedded[ts.Name.Name] = append(lp.embedded[ts.Name.Name], base)
							}
							m[base] = t
							if t.name == "sync.Mutex" || t.name == "sync.RWMutex" {
								lp.mutexes[base] = true
							}
						}
						for _, id := range fl.Names {
							m[id.Name] = t
							if t.name == "sync.Mutex" || t.name == "sync.RWMutex" {
								lp.mutexes[id.Name] = true
							}
						}
					}
					lp.structs[ts.Name.Name] = m
				}
			case *ast.FuncDecl:
				if x.Body == nil {
					continue
				}
				lp.funcs = append(lp.funcs, x)
				lp.fileOf[x] = fn
				key := x.Name.Name
				if r := recvTypeName(x); r != "" {
					key = r + "." + key
				}
				if x.Type.Results != nil && len(x.Type.Results.List) > 0 {
					lp.funcRet[key] = typeOfExprAST(x.Type.Results.List[0].Type)
				}
			}
		}
	}
	return lp
}

// isHelperName: functions whose accesses are judged with the locks held at ALL their call sites.
// Named helpers (…Locked/…Nolock/…NoLock/…Unlocked) and, more generally, every unexported function or method: all its
// call sites are inside the package, so the intersection over them is what is held on entry. A `go` call contributes the
// empty lockset, and a function that is ever used as a value (not called) gets the empty lockset too (valueRefs).
func isHelperName(n string) bool {
	if strings.HasSuffix(n, "Locked") || strings.HasSuffix(n, "Nolock") || strings.HasSuffix(n, "NoLock") || strings.HasSuffix(n, "nolock") ||
		strings.HasSuffix(n, "Unlocked") {
		return true
	}
	if n == "init" || n == "main" || n == "" {
		return false
	}
	c := n[0]
	return c >= 'a' && c <= 'z'
}

type lkRow struct {
	typ, field, fn, kind, class string
	locks                       []string
	pos                         string
}

type lockset map[string]bool

func (l lockset) clone() lockset {
	o := lockset{}
	for k := range l {
		o[k] = true
	}
	return o
}

func intersect(a, b lockset) lockset {
	o := lockset{}
	for k := range a {
		if b[k] {
			o[k] = true
		}
	}
	return o
}

func (l lockset) sorted() []string {
	var o []string
	for k := range l {
		o = append(o, k)
	}
	sort.Strings(o)
	return o
}

type lkAnalysis struct {
	lp        *lkPkg
	listed    map[string]map[string]string // field -> type -> mode
	universe  lockset
	entry     map[string]lockset   // helper key -> locks assumed at entry
	callSites map[string][]lockset // helper key -> locksets at its call sites (this round)
	rows      []lkRow
	unres     []lkRow // selectors whose receiver type could not be resolved (field name only)
	collect   bool
}

type lkFunc struct {
	a        *lkAnalysis
	fd       *ast.FuncDecl
	key      string // "Type.func" or "func"
	env      map[string]*lkType
	fresh    map[string]bool // locals holding an object constructed in this function
	parents  map[ast.Node]ast.Node
	deferred lockset
	file     string
	inOnce   bool // inside a sync.Once.Do literal
}

func (f *lkFunc) typeOf(e ast.Expr) *lkType {
	switch x := e.(type) {
	case *ast.Ident:
		if t, ok := f.env[x.Name]; ok {
			return t
		}
		if t, ok := f.a.lp.globals[x.Name]; ok {
			return t
		}
	case *ast.ParenExpr:
		return f.typeOf(x.X)
	case *ast.StarExpr:
		return f.typeOf(x.X)
	case *ast.UnaryExpr:
		if x.Op == token.AND {
			return f.typeOf(x.X)
		}
		if x.Op == token.ARROW { // <-ch
			if t := f.typeOf(x.X); t != nil && t.elem != nil {
				return t.elem
			}
		}
	case *ast.SelectorExpr:
		t := f.typeOf(x.X)
		if t != nil && t.name != "" {
			if _, ft, ok := f.a.lp.fieldOwner(t.name, x.Sel.Name, 0); ok {
				return ft
			}
		}
	case *ast.IndexExpr:
		if t := f.typeOf(x.X); t != nil && t.elem != nil {
			return t.elem
		}
	case *ast.SliceExpr:
		return f.typeOf(x.X)
	case *ast.TypeAssertExpr:
		if x.Type != nil {
			return typeOfExprAST(x.Type)
		}
	case *ast.CompositeLit:
		if x.Type != nil {
			return typeOfExprAST(x.Type)
		}
	case *ast.CallExpr:
		switch fn := x.Fun.(type) {
		case *ast.Ident:
			if fn.Name == "new" && len(x.Args) == 1 {
				return typeOfExprAST(x.Args[0])
			}
			if fn.Name == "append" && len(x.Args) > 0 {
				return f.typeOf(x.Args[0])
			}
			if t, ok := f.a.lp.funcRet[fn.Name]; ok {
				return t
			}
		case *ast.SelectorExpr:
			if rt := f.typeOf(fn.X); rt != nil && rt.name != "" {
				if t, ok := f.a.lp.funcRet[rt.name+"."+fn.Sel.Name]; ok {
					return t
				}
			}
		}
	}
	return nil
}

// fieldOwner finds field f in struct type T or in a struct embedded in it (two levels): owner type and field type
func (lp *lkPkg) fieldOwner(T, f string, depth int) (string, *lkType, bool) {
	st, ok := lp.structs[T]
	if !ok {
		return "", nil, false
	}
	if ft, ok := st[f]; ok {
		return T, ft, true
	}
	if depth >= 2 {
		return "", nil, false
	}
	for _, emb := range lp.embedded[T] {
		if o, ft, ok := lp.fieldOwner(emb, f, depth+1); ok {
			return o, ft, true
		}
	}
	return "", nil, false
}

// sync primitives are not data fields
func isSyncPrimitive(t *lkType) bool {
	if t == nil {
		return false
	}
	switch t.name {
	case "sync.Mutex", "sync.RWMutex", "sync.Once", "sync.WaitGroup", "sync.Pool", "sync.Cond", "noCopy":
		return true
	}
	return false
}

func isFreshExpr(e ast.Expr) bool {
	switch x := e.(type) {
	case *ast.CompositeLit:
		return true
	case *ast.UnaryExpr:
		if x.Op == token.AND {
			_, ok := x.X.(*ast.CompositeLit)
			return ok
		}
	case *ast.CallExpr:
		if id, ok := x.Fun.(*ast.Ident); ok && id.Name == "new" {
			return true
		}
	}
	return false
}

func (f *lkFunc) bind(name string, t *lkType, fresh bool) {
	if name == "_" || name == "" {
		return
	}
	if t != nil {
		f.env[name] = t
	} else {
		delete(f.env, name)
	}
	f.fresh[name] = fresh
}

// declare locals of a statement (very small inference: enough for receivers of the listed fields)
func (f *lkFunc) declare(s ast.Stmt) {
	switch x := s.(type) {
	case *ast.AssignStmt:
		if len(x.Lhs) == len(x.Rhs) {
			for i, l := range x.Lhs {
				id, ok := l.(*ast.Ident)
				if !ok {
					continue
				}
				if x.Tok == token.DEFINE || f.env[id.Name] == nil {
					f.bind(id.Name, f.typeOf(x.Rhs[i]), isFreshExpr(x.Rhs[i]))
				} else {
					f.fresh[id.Name] = isFreshExpr(x.Rhs[i]) // re-assigned: fresh only if it now holds a new object
				}
			}
		} else if len(x.Rhs) == 1 && len(x.Lhs) >= 1 {
			for i, l := range x.Lhs {
				id, ok := l.(*ast.Ident)
				if !ok {
					continue
				}
				if i == 0 && x.Tok == token.DEFINE {
					f.bind(id.Name, f.typeOf(x.Rhs[0]), false)
				} else {
					f.fresh[id.Name] = false
				}
			}
		}
	case *ast.DeclStmt:
		if gd, ok := x.Decl.(*ast.GenDecl); ok && gd.Tok == token.VAR {
			for _, sp := range gd.Specs {
				vs, ok := sp.(*ast.ValueSpec)
				if !ok {
					continue
				}
				for i, id := range vs.Names {
					switch {
					case vs.Type != nil:
						_, isPtr := vs.Type.(*ast.StarExpr)
						f.bind(id.Name, typeOfExprAST(vs.Type), !isPtr) // var x T is a new object; var x *T is nil

					case i < len(vs.Values):
						f.bind(id.Name, f.typeOf(vs.Values[i]), isFreshExpr(vs.Values[i]))
					}
				}
			}
		}
	case *ast.RangeStmt:
		t := f.typeOf(x.X)
		if x.Tok == token.DEFINE {
			if id, ok := x.Value.(*ast.Ident); ok && x.Value != nil {
				if t != nil && t.elem != nil {
					f.bind(id.Name, t.elem, false)
				} else {
					f.bind(id.Name, nil, false)
				}
			}
			if id, ok := x.Key.(*ast.Ident); ok && x.Key != nil {
				f.bind(id.Name, nil, false)
			}
		}
	}
}

func lockCall(e ast.Expr) (name, op string, ok bool) {
	ce, isCall := e.(*ast.CallExpr)
	if !isCall || len(ce.Args) != 0 {
		return
	}
	se, isSel := ce.Fun.(*ast.SelectorExpr)
	if !isSel {
		return
	}
	switch se.Sel.Name {
	case "Lock", "Unlock", "RLock", "RUnlock":
	default:
		return
	}
	switch r := se.X.(type) {
	case *ast.SelectorExpr:
		return r.Sel.Name, se.Sel.Name, true
	case *ast.Ident:
		return r.Name, se.Sel.Name, true
	}
	return
}

func (f *lkFunc) applyLock(held lockset, name, op string) {
	switch op {
	case "Lock":
		held[name] = true
	case "RLock":
		held["R:"+name] = true
	case "Unlock":
		delete(held, name)
	case "RUnlock":
		delete(held, "R:"+name)
	}
}

func isTerminating(s ast.Stmt) bool {
	switch x := s.(type) {
	case *ast.ReturnStmt:
		return true
	case *ast.BranchStmt:
		return x.Tok == token.BREAK || x.Tok == token.CONTINUE || x.Tok == token.GOTO
	case *ast.ExprStmt:
		if ce, ok := x.X.(*ast.CallExpr); ok {
			if id, ok := ce.Fun.(*ast.Ident); ok && id.Name == "panic" {
				return true
			}
		}
	}
	return false
}

func (f *lkFunc) stmts(list []ast.Stmt, held lockset) (lockset, bool) {
	for _, s := range list {
		var term bool
		held, term = f.stmt(s, held)
		if term {
			return held, true
		}
	}
	return held, false
}

func (f *lkFunc) stmt(s ast.Stmt, held lockset) (lockset, bool) {
	if s == nil {
		return held, false
	}
	switch x := s.(type) {
	case *ast.BlockStmt:
		return f.stmts(x.List, held)
	case *ast.ExprStmt:
		if name, op, ok := lockCall(x.X); ok {
			// inMemoryCacheManager.Lock()/Unlock() style wrappers are plain method calls: only sync mutex fields count
			f.applyLock(held, name, op)
			return held, false
		}
		f.expr(x.X, held)
		return held, isTerminating(s)
	case *ast.DeferStmt:
		if name, op, ok := lockCall(x.Call); ok {
			if op == "Unlock" {
				f.deferred[name] = true
			} else if op == "RUnlock" {
				f.deferred["R:"+name] = true
			}
			return held, false
		}
		if fl, ok := x.Call.Fun.(*ast.FuncLit); ok {
			for _, a := range x.Call.Args {
				f.expr(a, held)
			}
			f.stmts(fl.Body.List, intersect(held, f.deferred))
			return held, false
		}
		f.callSite(x.Call, intersect(held, f.deferred))
		for _, a := range x.Call.Args {
			f.expr(a, held)
		}
		f.exprNoCall(x.Call.Fun, held)
		return held, false
	case *ast.GoStmt:
		if fl, ok := x.Call.Fun.(*ast.FuncLit); ok {
			for _, a := range x.Call.Args {
				f.expr(a, held)
			}
			f.stmts(fl.Body.List, lockset{})
			return held, false
		}
		f.callSite(x.Call, lockset{})
		for _, a := range x.Call.Args {
			f.expr(a, held)
		}
		f.exprNoCall(x.Call.Fun, held)
		return held, false
	case *ast.AssignStmt:
		for _, r := range x.Rhs {
			f.expr(r, held)
		}
		for _, l := range x.Lhs {
			f.expr(l, held)
		}
		f.declare(x)
		return held, false
	case *ast.DeclStmt:
		if gd, ok := x.Decl.(*ast.GenDecl); ok {
			for _, sp := range gd.Specs {
				if vs, ok := sp.(*ast.ValueSpec); ok {
					for _, v := range vs.Values {
						f.expr(v, held)
					}
				}
			}
		}
		f.declare(x)
		return held, false
	case *ast.IncDecStmt:
		f.expr(x.X, held)
		return held, false
	case *ast.SendStmt:
		f.expr(x.Chan, held)
		f.expr(x.Value, held)
		return held, false
	case *ast.ReturnStmt:
		for _, r := range x.Results {
			f.expr(r, held)
		}
		return held, true
	case *ast.BranchStmt:
		return held, isTerminating(s)
	case *ast.LabeledStmt:
		return f.stmt(x.Stmt, held)
	case *ast.IfStmt:
		held, _ = f.stmt(x.Init, held)
		f.expr(x.Cond, held)
		h1, t1 := f.stmts(x.Body.List, held.clone())
		h2, t2 := held.clone(), false
		if x.Else != nil {
			h2, t2 = f.stmt(x.Else, held.clone())
		}
		switch {
		case t1 && t2:
			return held, true
		case t1:
			return h2, false
		case t2:
			return h1, false
		}
		return intersect(h1, h2), false
	case *ast.ForStmt:
		held, _ = f.stmt(x.Init, held)
		if x.Cond != nil {
			f.expr(x.Cond, held)
		}
		hb, tb := f.stmts(x.Body.List, held.clone())
		if x.Post != nil {
			f.stmt(x.Post, hb.clone())
		}
		if tb {
			return held, false
		}
		return intersect(held, hb), false
	case *ast.RangeStmt:
		f.expr(x.X, held)
		f.declare(x)
		hb, tb := f.stmts(x.Body.List, held.clone())
		if tb {
			return held, false
		}
		return intersect(held, hb), false
	case *ast.SwitchStmt:
		held, _ = f.stmt(x.Init, held)
		if x.Tag != nil {
			f.expr(x.Tag, held)
		}
		return f.clauses(x.Body.List, held), false
	case *ast.TypeSwitchStmt:
		held, _ = f.stmt(x.Init, held)
		// bind the switch variable per clause
		var bindName string
		var subject ast.Expr
		switch a := x.Assign.(type) {
		case *ast.AssignStmt:
			if len(a.Lhs) == 1 && len(a.Rhs) == 1 {
				if id, ok := a.Lhs[0].(*ast.Ident); ok {
					bindName = id.Name
				}
				subject = a.Rhs[0]
			}
		case *ast.ExprStmt:
			subject = a.X
		}
		if subject != nil {
			f.expr(subject, held)
		}
		out := held.clone()
		for _, c := range x.Body.List {
			cc, ok := c.(*ast.CaseClause)
			if !ok {
				continue
			}
			if bindName != "" {
				if len(cc.List) == 1 {
					f.bind(bindName, typeOfExprAST(cc.List[0]), false)
				} else {
					f.bind(bindName, nil, false)
				}
			}
			h, t := f.stmts(cc.Body, held.clone())
			if !t {
				out = intersect(out, h)
			}
		}
		return out, false
	case *ast.SelectStmt:
		out := held.clone()
		for _, c := range x.Body.List {
			cc, ok := c.(*ast.CommClause)
			if !ok {
				continue
			}
			h := held.clone()
			if cc.Comm != nil {
				h, _ = f.stmt(cc.Comm, h)
			}
			h, t := f.stmts(cc.Body, h)
			if !t {
				out = intersect(out, h)
			}
		}
		return out, false
	default:
		// unexpected statement kind: visit its expressions conservatively with the current lockset
		ast.Inspect(s, func(n ast.Node) bool {
			if e, ok := n.(ast.Expr); ok {
				f.expr(e, held)
				return false
			}
			return true
		})
	}
	return held, false
}

func (f *lkFunc) clauses(list []ast.Stmt, held lockset) lockset {
	out := held.clone()
	for _, c := range list {
		cc, ok := c.(*ast.CaseClause)
		if !ok {
			continue
		}
		for _, e := range cc.List {
			f.expr(e, held)
		}
		h, t := f.stmts(cc.Body, held.clone())
		if !t {
			out = intersect(out, h)
		}
	}
	return out
}

// callSite records the locks held at a call of a *Locked/*Nolock helper
func (f *lkFunc) callSite(ce *ast.CallExpr, held lockset) {
	var name, recv string
	switch fn := ce.Fun.(type) {
	case *ast.Ident:
		name = fn.Name
	case *ast.SelectorExpr:
		name = fn.Sel.Name
		if t := f.typeOf(fn.X); t != nil {
			recv = t.name
		}
	default:
		return
	}
	if !isHelperName(name) {
		return
	}
	if ctorAllow[f.key] != "" {
		return // a call from documented pre-sharing configuration code does not count as a call site
	}
	key := name
	if recv != "" {
		key = recv + "." + name
	} else if _, isSel := ce.Fun.(*ast.SelectorExpr); isSel {
		// receiver type unknown: charge every helper method of that name
		for k := range f.a.entry {
			if strings.HasSuffix(k, "."+name) {
				f.a.callSites[k] = append(f.a.callSites[k], held.clone())
			}
		}
		return
	}
	f.a.callSites[key] = append(f.a.callSites[key], held.clone())
}

func (f *lkFunc) exprNoCall(e ast.Expr, held lockset) {
	if se, ok := e.(*ast.SelectorExpr); ok {
		f.expr(se.X, held)
		return
	}
	f.expr(e, held)
}

// expr visits an expression: records rows for listed-field selectors and call sites of helpers
func (f *lkFunc) expr(e ast.Expr, held lockset) {
	if e == nil {
		return
	}
	ast.Inspect(e, func(n ast.Node) bool {
		switch x := n.(type) {
		case *ast.FuncLit:
			// literal used as a direct call argument: synchronous callback (current lockset); otherwise: empty lockset
			h := lockset{}
			once := false
			if p, ok := f.parents[x].(*ast.CallExpr); ok && p.Fun != ast.Expr(x) {
				h = held.clone()
				// sync.Once: x.once.Do(func() { … }) — initialisation ordered before every return of Do
				if se, ok := p.Fun.(*ast.SelectorExpr); ok && se.Sel.Name == "Do" {
					if t := f.typeOf(se.X); t != nil && t.name == "sync.Once" {
						once = true
					}
				}
			}
			if x.Type != nil && x.Type.Params != nil {
				for _, prm := range x.Type.Params.List {
					for _, id := range prm.Names {
						f.bind(id.Name, typeOfExprAST(prm.Type), false)
					}
				}
			}
			saveDef, saveOnce := f.deferred, f.inOnce
			f.deferred = lockset{}
			f.inOnce = f.inOnce || once
			f.stmts(x.Body.List, h)
			f.deferred, f.inOnce = saveDef, saveOnce
			return false
		case *ast.CallExpr:
			f.callSite(x, held)
		case *ast.SelectorExpr:
			f.selector(x, held)
			f.valueRef(x, x.Sel.Name)
		case *ast.Ident:
			f.valueRef(x, x.Name)
		}
		return true
	})
}

// valueRef: a helper used as a value (method value, callback) may be called from anywhere: no locks on entry
func (f *lkFunc) valueRef(n ast.Node, name string) {
	if !isHelperName(name) {
		return
	}
	if ce, ok := f.parents[n].(*ast.CallExpr); ok && ce.Fun == n.(ast.Expr) {
		return
	}
	if se, ok := f.parents[n].(*ast.SelectorExpr); ok && se.Sel == n {
		return // the Sel identifier of a selector: judged at the selector
	}
	switch x := n.(type) {
	case *ast.SelectorExpr:
		recv := ""
		if t := f.typeOf(x.X); t != nil {
			recv = t.name
		}
		if recv != "" {
			if _, ok := f.a.entry[recv+"."+name]; ok {
				f.a.callSites[recv+"."+name] = append(f.a.callSites[recv+"."+name], lockset{})
			}
			return
		}
		for k := range f.a.entry {
			if strings.HasSuffix(k, "."+name) {
				f.a.callSites[k] = append(f.a.callSites[k], lockset{})
			}
		}
	case *ast.Ident:
		if _, local := f.env[name]; local {
			return
		}
		if _, ok := f.a.entry[name]; ok {
			f.a.callSites[name] = append(f.a.callSites[name], lockset{})
		}
	}
}

func (f *lkFunc) selector(se *ast.SelectorExpr, held lockset) {
	if !f.a.collect {
		return
	}
	pos := fset.Position(se.Pos())
	where := fmt.Sprintf("%s:%d", filepath.Base(pos.Filename), pos.Line)
	t := f.typeOf(se.X)
	if t == nil || t.name == "" {
		// receiver type unresolved. A package-qualified name is not ours; anything else is remembered by field name and
		// becomes an "unknown" row if that name is the name of a guarded field (decided after the guard inference).
		if id, isId := se.X.(*ast.Ident); isId {
			if _, known := f.env[id.Name]; !known && f.a.lp.imports[f.file][id.Name] {
				return // package-qualified name: pkg.Name
			}
		}
		if p, ok := f.parents[se].(*ast.CallExpr); ok && p.Fun == ast.Expr(se) {
			return // method call on something of unknown type: not a field access
		}
		f.a.unres = append(f.a.unres, lkRow{"?", se.Sel.Name, f.key, "r", "unknown", held.sorted(), where})
		return
	}
	owner, ft, ok := f.a.lp.fieldOwner(t.name, se.Sel.Name, 0)
	if !ok || isSyncPrimitive(ft) {
		return // a method, a field of a type outside the package, or a mutex itself
	}
	kind, atomicUse := f.accessKind(se)
	class := "locked"
	switch {
	case atomicUse:
		class = "atomic"
	case exemptAllow[f.key+" "+se.Sel.Name] != "":
		class = "exempt"
	case ctorAllow[f.key] != "":
		class = "init"
	default:
		if id, isId := se.X.(*ast.Ident); isId && f.fresh[id.Name] {
			class = "init"
		}
	}
	f.a.rows = append(f.a.rows, lkRow{owner, se.Sel.Name, f.key, kind, class, held.sorted(), where})
}

func isAtomicType(t *lkType) bool {
	return t != nil && (strings.HasPrefix(t.name, "atomic.") || t.name == "sync.Map")
}

// accessKind classifies how the selector is used, looking at its parents
func (f *lkFunc) accessKind(se *ast.SelectorExpr) (kind string, atomicUse bool) {
	var node ast.Node = se
	p := f.parents[node]
	for {
		if pe, ok := p.(*ast.ParenExpr); ok {
			node, p = pe, f.parents[pe]
			continue
		}
		break
	}
	ft := f.typeOf(se)
	switch x := p.(type) {
	case *ast.SelectorExpr:
		if x.X == node {
			if isAtomicType(ft) {
				return "cw", true
			}
			if gp, ok := f.parents[x].(*ast.CallExpr); ok && gp.Fun == ast.Expr(x) {
				return "cm", false // method call on the field's value (may mutate what it points to)
			}
			return "cr", false
		}
	case *ast.UnaryExpr:
		if x.Op == token.AND {
			if gp, ok := f.parents[x].(*ast.CallExpr); ok {
				if fs, ok := gp.Fun.(*ast.SelectorExpr); ok {
					if id, ok := fs.X.(*ast.Ident); ok && id.Name == "atomic" {
						return "cw", true
					}
				}
			}
			return "w", false
		}
	case *ast.AssignStmt:
		for _, l := range x.Lhs {
			if l == node {
				return "w", false
			}
		}
	case *ast.IncDecStmt:
		return "w", false
	case *ast.IndexExpr:
		if x.X == node {
			return f.indexKind(x), false
		}
	case *ast.SliceExpr:
		if x.X == node {
			if gp, ok := f.parents[x].(*ast.CallExpr); ok {
				if id, ok := gp.Fun.(*ast.Ident); ok && id.Name == "copy" && len(gp.Args) > 0 && gp.Args[0] == ast.Expr(x) {
					return "cw", false
				}
			}
			return "cr", false
		}
	case *ast.RangeStmt:
		if x.X == node {
			return "cr", false
		}
	case *ast.CallExpr:
		if id, ok := x.Fun.(*ast.Ident); ok {
			switch id.Name {
			case "len", "cap":
				return "cr", false
			case "delete", "clear":
				if len(x.Args) > 0 && x.Args[0] == node {
					return "cw", false
				}
			case "close":
				return "cw", false
			}
		}
	}
	return "r", false
}

func (f *lkFunc) indexKind(ix *ast.IndexExpr) string {
	var node ast.Node = ix
	p := f.parents[node]
	switch x := p.(type) {
	case *ast.AssignStmt:
		for _, l := range x.Lhs {
			if l == node {
				return "cw"
			}
		}
	case *ast.IncDecStmt:
		return "cw"
	case *ast.UnaryExpr:
		if x.Op == token.AND {
			return "cw"
		}
	}
	return "cr"
}

func (a *lkAnalysis) runFunc(fd *ast.FuncDecl) {
	f := &lkFunc{a: a, fd: fd, env: map[string]*lkType{}, fresh: map[string]bool{}, parents: map[ast.Node]ast.Node{},
		deferred: lockset{}, file: a.lp.fileOf[fd]}
	f.key = fd.Name.Name
	if r := recvTypeName(fd); r != "" {
		f.key = r + "." + f.key
		if len(fd.Recv.List[0].Names) == 1 {
			f.env[fd.Recv.List[0].Names[0].Name] = &lkType{name: r}
		}
	}
	if fd.Type.Params != nil {
		for _, p := range fd.Type.Params.List {
			for _, id := range p.Names {
				f.env[id.Name] = typeOfExprAST(p.Type)
			}
		}
	}
	if fd.Type.Results != nil {
		for _, p := range fd.Type.Results.List {
			for _, id := range p.Names {
				f.env[id.Name] = typeOfExprAST(p.Type)
			}
		}
	}
	var stack []ast.Node
	ast.Inspect(fd.Body, func(n ast.Node) bool {
		if n == nil {
			stack = stack[:len(stack)-1]
			return true
		}
		if len(stack) > 0 {
			f.parents[n] = stack[len(stack)-1]
		}
		stack = append(stack, n)
		return true
	})
	held := lockset{}
	if isHelperName(fd.Name.Name) {
		if e, ok := a.entry[f.key]; ok {
			held = e.clone()
		}
	}
	f.stmts(fd.Body.List, held)
}

func (a *lkAnalysis) round(collect bool) {
	a.collect = collect
	a.rows = nil
	a.callSites = map[string][]lockset{}
	for _, fd := range a.lp.funcs {
		func() {
			defer func() {
				if r := recover(); r != nil {
					key := fd.Name.Name
					a.rows = append(a.rows, lkRow{"?", "*", key, "r", "unknown", nil, fmt.Sprintf("analysis panic: %v", r)})
				}
			}()
			a.runFunc(fd)
		}()
	}
}

func leanStr(s string) string { return fmt.Sprintf("%q", s) }

func genLocks(p *pkgInfo, out string) {
	var b bytes.Buffer
	b.WriteString("-- GENERATED by fhextract (extract/locks.go) from /repo; do not edit.\n")
	b.WriteString("-- rows: (type, field, function, kind, class, locks held)   -- file:line   (see extract/locks.go for the legend)\nnamespace Fh.Gen\n\n")
	defer func() {
		if r := recover(); r != nil {
			var e bytes.Buffer
			e.WriteString("-- GENERATED by fhextract; the lock analysis failed, the table is empty so the dependent theorem fails\n")
			fmt.Fprintf(&e, "-- MISSING: lock analysis panic: %v\nnamespace Fh.Gen\n\n", r)
			e.WriteString("def lockSpec : List (String × String × String) := []\n\n")
			e.WriteString("def lockRows : List (String × String × String × String × String × List String) := []\n\n")
			e.WriteString("def handoverSites : Nat := 0\n\ndef handoverRows : List (String × String) := []\n\nend Fh.Gen\n")
			writeIfChanged(filepath.Join(out, "Locks.lean"), e.Bytes())
		}
	}()
	lp := buildLkPkg(p)
	a := &lkAnalysis{lp: lp, listed: map[string]map[string]string{}, universe: lockset{}, entry: map[string]lockset{}}
	for _, lf := range lockFields {
		if a.listed[lf.field] == nil {
			a.listed[lf.field] = map[string]string{}
		}
		a.listed[lf.field][lf.typ] = lf.mode
		if strings.HasPrefix(lf.mode, "lock:") {
			n := strings.TrimPrefix(lf.mode, "lock:")
			a.universe[n] = true
			a.universe["R:"+n] = true
		}
	}
	for n := range lp.mutexes {
		a.universe[n] = true
		a.universe["R:"+n] = true
	}
	// helper entry locksets: greatest fixpoint of "intersection of the locksets at all call sites"
	for _, fd := range lp.funcs {
		if isHelperName(fd.Name.Name) {
			key := fd.Name.Name
			if r := recvTypeName(fd); r != "" {
				key = r + "." + key
			}
			a.entry[key] = a.universe.clone()
		}
	}
	for i := 0; i < 12; i++ {
		a.round(false)
		changed := false
		for key := range a.entry {
			var ne lockset
			sites := a.callSites[key]
			if len(sites) == 0 {
				ne = lockset{}
			} else {
				ne = sites[0].clone()
				for _, s := range sites[1:] {
					ne = intersect(ne, s)
				}
			}
			if len(ne) != len(a.entry[key]) {
				changed = true
			}
			a.entry[key] = ne
		}
		if !changed {
			break
		}
	}
	a.round(true)

	// ---- guard inference: the explicit list is the minimum; in addition EVERY field of a package struct that is
	// written under a mutex somewhere must be accessed under that mutex everywhere (reads included), and every field
	// that is accessed atomically somewhere must be accessed atomically everywhere.
	type tf struct{ typ, field string }
	explicit := map[tf]bool{}
	for _, lf := range lockFields {
		explicit[tf{lf.typ, lf.field}] = true
	}
	byField := map[tf][]lkRow{}
	for _, r := range a.rows {
		k := tf{r.typ, r.field}
		byField[k] = append(byField[k], r)
	}
	var inferred []lockField
	inferNote := map[tf]string{}
	var keys []tf
	for k := range byField {
		keys = append(keys, k)
	}
	sort.Slice(keys, func(i, j int) bool {
		if keys[i].typ != keys[j].typ {
			return keys[i].typ < keys[j].typ
		}
		return keys[i].field < keys[j].field
	})
	for _, k := range keys {
		if explicit[k] || noGuardInference[k.typ+"."+k.field] != "" {
			continue
		}
		nAtomic, nPlain := 0, 0
		count := map[string]int{}
		nLockedWrites := 0
		for _, r := range byField[k] {
			if r.class == "init" {
				continue
			}
			if r.class == "atomic" {
				nAtomic++
				continue
			}
			nPlain++
			if (r.kind == "w" || r.kind == "cw") && r.class == "locked" {
				excl := 0
				for _, l := range r.locks {
					if !strings.HasPrefix(l, "R:") {
						count[l]++
						excl++
					}
				}
				if excl > 0 {
					nLockedWrites++
				}
			}
		}
		switch {
		case nAtomic > 0:
			if nPlain > 0 || true {
				inferred = append(inferred, lockField{k.typ, k.field, "atomic"})
				inferNote[k] = fmt.Sprintf("inferred: %d atomic access(es)", nAtomic)
			}
		case nLockedWrites > 0:
			// the guard: the mutex held at most locked writes (ties: alphabetical); every access is then judged against it
			best, bn := "", 0
			var ls []string
			for l := range count {
				ls = append(ls, l)
			}
			sort.Strings(ls)
			for _, l := range ls {
				if count[l] > bn {
					best, bn = l, count[l]
				}
			}
			inferred = append(inferred, lockField{k.typ, k.field, "lock:" + best})
			inferNote[k] = fmt.Sprintf("inferred: written under %s at %d site(s)", best, bn)
		}
	}
	specAll := append(append([]lockField(nil), lockFields...), inferred...)
	inSpec := map[tf]bool{}
	specNames := map[string]bool{}
	for _, lf := range specAll {
		inSpec[tf{lf.typ, lf.field}] = true
		specNames[lf.field] = true
	}
	var kept []lkRow
	for _, r := range a.rows {
		if inSpec[tf{r.typ, r.field}] {
			kept = append(kept, r)
		}
	}
	for _, r := range a.unres {
		if specNames[r.field] {
			kept = append(kept, r)
		}
	}
	a.rows = kept

	// spec
	b.WriteString("/-- (type, field, mode): the discipline claimed for each listed shared field -/\n")
	b.WriteString("def lockSpec : List (String × String × String) := [\n")
	for i, lf := range specAll {
		sep := ","
		if i == len(specAll)-1 {
			sep = ""
		}
		st, ok := lp.structs[lf.typ]
		note := ""
		if !ok {
			note = "   -- MISSING: type not found"
		} else if _, ok := st[lf.field]; !ok {
			note = "   -- MISSING: field not found"
		} else if n := inferNote[tf{lf.typ, lf.field}]; n != "" {
			note = "   -- " + n
		}
		fmt.Fprintf(&b, "  (%s, %s, %s)%s%s\n", leanStr(lf.typ), leanStr(lf.field), leanStr(lf.mode), sep, note)
	}
	b.WriteString("]\n\n")
	// helper entry locks (documentation)
	var hk []string
	for k := range a.entry {
		hk = append(hk, k)
	}
	sort.Strings(hk)
	for _, k := range hk {
		if len(a.entry[k]) > 0 {
			fmt.Fprintf(&b, "-- helper %s: locks held at every call site: %v\n", k, a.entry[k].sorted())
		}
	}
	var ek []string
	for k := range exemptAllow {
		ek = append(ek, k)
	}
	sort.Strings(ek)
	for _, k := range ek {
		fmt.Fprintf(&b, "-- exempt %s: %s\n", k, exemptAllow[k])
	}
	b.WriteString("\ndef lockRows : List (String × String × String × String × String × List String) := [\n")
	rows := a.rows
	sort.SliceStable(rows, func(i, j int) bool {
		if rows[i].typ != rows[j].typ {
			return rows[i].typ < rows[j].typ
		}
		if rows[i].field != rows[j].field {
			return rows[i].field < rows[j].field
		}
		return false
	})
	for i, r := range rows {
		sep := ","
		if i == len(rows)-1 {
			sep = ""
		}
		fmt.Fprintf(&b, "  (%s, %s, %s, %s, %s, %s)%s   -- %s\n", leanStr(r.typ), leanStr(r.field), leanStr(r.fn), leanStr(r.kind), leanStr(r.class),
			leanStrList(r.locks), sep, r.pos)
	}
	b.WriteString("]\n")
	b.WriteString(genHandover(a))
	b.WriteString("\nend Fh.Gen\n")
	writeIfChanged(filepath.Join(out, "Locks.lean"), b.Bytes())
}
